//! D3: a single UDP request carrying a TSIG RR whose key name and algorithm name are both 255 octets long (unknown
//! algorithm / unknown key) makes Server::handle_message panic: the BADKEY error response must carry an (unsigned) TSIG
//! RR of 255 + 255 + 26 octets, which does not fit the 512-octet UDP limit, and Writer::set_tsig(..).unwrap() panics.
use std::net::Ipv4Addr;
use std::panic::{catch_unwind, AssertUnwindSafe};
use std::sync::Arc;

use quandary::db::{HashMapTreeCatalog, HashMapTreeZone};
use quandary::server::{ReceivedInfo, Response, Server, Transport};

type CatalogImpl = HashMapTreeCatalog<HashMapTreeZone, ()>;

fn long_name(fill: u8) -> Vec<u8> {
    // 3 labels of 63 octets + 1 label of 61 octets + root = 255 octets
    let mut n = Vec::new();
    for len in [63usize, 63, 63, 61] {
        n.push(len as u8);
        n.extend(std::iter::repeat(fill).take(len));
    }
    n.push(0);
    assert_eq!(n.len(), 255);
    n
}

fn request() -> Vec<u8> {
    let mut msg = vec![0x12, 0x34, 0x00, 0x00, 0, 1, 0, 0, 0, 0, 0, 1];
    msg.extend_from_slice(b"\x04test\x00\x00\x01\x00\x01"); // test. A IN
    // TSIG RR: owner = key name, TYPE 250, CLASS ANY, TTL 0
    msg.extend_from_slice(&long_name(b'k'));
    msg.extend_from_slice(&[0, 250, 0, 255, 0, 0, 0, 0]);
    let mut rdata = long_name(b'a'); // algorithm name
    rdata.extend_from_slice(&[0, 0, 0, 0, 0, 0]); // time signed
    rdata.extend_from_slice(&[1, 44]); // fudge
    rdata.extend_from_slice(&[0, 0]); // MAC size 0
    rdata.extend_from_slice(&[0x12, 0x34]); // original ID
    rdata.extend_from_slice(&[0, 0]); // error
    rdata.extend_from_slice(&[0, 0]); // other len
    msg.extend_from_slice(&(rdata.len() as u16).to_be_bytes());
    msg.extend_from_slice(&rdata);
    msg
}

fn run(transport: Transport) -> Result<Option<(usize, u8, bool)>, ()> {
    let server = Server::new(Arc::new(CatalogImpl::new()));
    let info = ReceivedInfo::new(Ipv4Addr::LOCALHOST.into(), transport);
    let mut buf = vec![0u8; 2 + u16::MAX as usize];
    let msg = request();
    match catch_unwind(AssertUnwindSafe(|| server.handle_message(&msg, info, &mut buf))) {
        Ok(Response::Single(len)) => Ok(Some((len, buf[3] & 0xf, buf[2] & 0x02 != 0))),
        Ok(Response::None) => Ok(None),
        Err(_) => Err(()),
    }
}

#[test]
fn oversized_tsig_error_response_does_not_panic_over_udp() {
    let r = run(Transport::Udp);
    assert!(r.is_ok(), "Server::handle_message panicked on a {}-octet UDP request with 255-octet TSIG key and algorithm names", request().len());
    if let Ok(Some((len, _rcode, _tc))) = r {
        assert!(len <= 512, "UDP response without EDNS exceeds 512 octets: {len}");
    }
}

#[test]
fn same_request_over_tcp_gets_notauth_with_tsig() {
    let r = run(Transport::Tcp).expect("no panic over TCP");
    let (len, rcode, tc) = r.expect("a response");
    assert_eq!(rcode, 9, "NOTAUTH");
    assert!(!tc);
    assert!(len > 512);
}
