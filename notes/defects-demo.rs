use std::net::Ipv4Addr;
use std::panic::{catch_unwind, AssertUnwindSafe};
use std::sync::Arc;

use quandary::class::Class;
use quandary::db::catalog::Entry;
use quandary::db::zone::GluePolicy;
use quandary::db::{Catalog, HashMapTreeCatalog, HashMapTreeZone};
use quandary::message::{ExtendedRcode, Reader, Writer};
use quandary::name::Name;
use quandary::rr::{Rdata, Ttl, Type};
use quandary::server::{ReceivedInfo, Response, Server, Transport};

type Cat = HashMapTreeCatalog<HashMapTreeZone, ()>;

fn zone() -> HashMapTreeZone {
    let apex: Box<Name> = "test.".parse().unwrap();
    let mut z = HashMapTreeZone::new(apex.clone(), Class::IN, GluePolicy::Narrow);
    let ns: Box<Name> = "ns.test.".parse().unwrap();
    let soa = Rdata::new_soa(&ns, &ns, 1, 2, 3, 4, 3600);
    z.add(&apex, Type::SOA, Class::IN, Ttl::from(60), &soa).unwrap();
    z.add(&apex, Type::NS, Class::IN, Ttl::from(60), <&Rdata>::try_from(ns.wire_repr()).unwrap()).unwrap();
    z.add(&ns, Type::A, Class::IN, Ttl::from(60), &Rdata::new_in_a(Ipv4Addr::LOCALHOST)).unwrap();
    z
}

fn ask(server: &Server<Cat>, req: &[u8], t: Transport) -> Result<Option<Vec<u8>>, ()> {
    let mut buf = vec![0u8; 65535];
    let r = catch_unwind(AssertUnwindSafe(|| {
        server.handle_message(req, ReceivedInfo::new(Ipv4Addr::LOCALHOST.into(), t), &mut buf)
    }));
    match r {
        Ok(Response::Single(n)) => Ok(Some(buf[..n].to_vec())),
        Ok(Response::None) => Ok(None),
        Err(_) => Err(()),
    }
}

fn main() {
    std::panic::set_hook(Box::new(|_| {}));
    let mut cat = Cat::new();
    cat.insert(Entry::Loaded(Arc::new(zone()), ()));
    let server = Server::new(Arc::new(cat));

    // D1: 12-octet query with QDCOUNT=1
    let d1 = [0, 1, 0, 0, 0, 1, 0, 0, 0, 0, 0, 0];
    println!("D1 12-octet QDCOUNT=1 panics: {}", ask(&server, &d1, Transport::Udp).is_err());
    // D2: 13-octet query with ANCOUNT=1
    let d2 = [0, 1, 0, 0, 0, 0, 0, 1, 0, 0, 0, 0, 0];
    println!("D2 13-octet ANCOUNT=1 panics: {}", ask(&server, &d2, Transport::Udp).is_err());
    // D4: valid query for nx.test. A + one junk octet
    let mut q = vec![0, 2, 0, 0, 0, 1, 0, 0, 0, 0, 0, 0];
    q.extend_from_slice(b"\x02nx\x04test\x00\x00\x01\x00\x01");
    let clean = ask(&server, &q, Transport::Udp).unwrap().unwrap();
    q.push(0xff);
    let junk = ask(&server, &q, Transport::Udp).unwrap().unwrap();
    println!("D4 rcode clean={} with trailing octet={} (FORMERR=1) nscount={}", clean[3] & 15, junk[3] & 15, u16::from_be_bytes([junk[8], junk[9]]));
    // D15: well-formed query for ns.test. A with an ordinary A record in the additional section (ARCOUNT=1)
    let mut q15 = vec![0, 3, 0, 0, 0, 1, 0, 0, 0, 0, 0, 1];
    q15.extend_from_slice(b"\x02ns\x04test\x00\x00\x01\x00\x01");
    q15.extend_from_slice(b"\x01x\x00\x00\x01\x00\x01\x00\x00\x00\x00\x00\x04\x7f\x00\x00\x01");
    let r15 = ask(&server, &q15, Transport::Udp).unwrap().unwrap();
    println!("D15 query with an ordinary additional record: rcode={} ancount={} (expected rcode 0, ancount 1)", r15[3] & 15, u16::from_be_bytes([r15[6], r15[7]]));
    // D7: negative TTL: SOA TTL 60, MINIMUM 3600
    let r = Reader::try_from(&clean[..]).unwrap();
    let mut r = r; r.read_question().unwrap();
    let soa = r.read_rr().unwrap();
    println!("D7 negative-answer SOA TTL = {:?} (SOA TTL 60, MINIMUM 3600)", soa.ttl);
    // D5: OPT with TTL 0x80010000 (version 1, top bit of ext-rcode byte set)
    let mut q = vec![0, 3, 0, 0, 0, 1, 0, 0, 0, 0, 0, 1];
    q.extend_from_slice(b"\x02ns\x04test\x00\x00\x01\x00\x01");
    q.extend_from_slice(&[0, 0, 41, 0x04, 0xd0, 0x80, 0x01, 0x00, 0x00, 0, 0]);
    let resp = ask(&server, &q, Transport::Udp).unwrap().unwrap();
    println!("D5 OPT version=1 (TTL 0x80010000): rcode low nibble={} ancount={} (BADVERS would be low nibble 0 with OPT ext=1, ancount 0)", resp[3] & 15, u16::from_be_bytes([resp[6], resp[7]]));
    // D6: writer loses extended rcode >= 2048
    let mut buf = [0u8; 512];
    let mut w = Writer::try_from(&mut buf[..]).unwrap();
    w.set_edns(1232).unwrap();
    w.set_extended_rcode(ExtendedRcode::from(2048 + 5)).unwrap();
    let n = w.finish();
    let mut rd = Reader::try_from(&buf[..n]).unwrap();
    let opt = rd.read_rr().unwrap();
    println!("D6 ext rcode 2053 written; OPT TTL field read back = {:#x}", u32::from(opt.ttl));
    println!("   raw OPT TTL octets = {:02x?}", &buf[n - 6..n - 2]);
    // D9: asymmetric equality
    let a: &Rdata = (&b"\x01a\x00"[..]).try_into().unwrap();
    let b: &Rdata = (&b"\x01a\x00junk"[..]).try_into().unwrap();
    println!("D9 NS equals(a,b)={} equals(b,a)={}", a.equals(b, Class::IN, Type::NS), b.equals(a, Class::IN, Type::NS));
    // D10: catalog remove deletes parent
    let mut c: Cat = Cat::new();
    let t: Box<Name> = "test.".parse().unwrap();
    let at: Box<Name> = "a.test.".parse().unwrap();
    c.insert(Entry::NotYetLoaded(t.clone(), Class::IN, ()));
    c.insert(Entry::NotYetLoaded(at.clone(), Class::IN, ()));
    c.remove(&at, Class::IN);
    println!("D10 after removing a.test., test. still present: {}", c.get(&t, Class::IN).is_some());
    // D8: mnemonic case
    println!("D8 \"a\".parse::<Type>() ok: {}  \"in\".parse::<Class>() ok: {}", "a".parse::<Type>().is_ok(), "in".parse::<Class>().is_ok());
    // D14 / D1 via Rdata::read
    let msg = [0u8; 4];
    println!("D1' Rdata::read NS rdlength 0 at cursor==len panics: {}", catch_unwind(|| Rdata::read(Class::IN, Type::NS, &msg, 4, 0).is_ok()).is_err());
    println!("D14 Rdata::read A cursor=usize::MAX rdlength=1 panics: {}", catch_unwind(|| Rdata::read(Class::IN, Type::A, &msg, usize::MAX, 1).is_ok()).is_err());
}
