use std::net::Ipv4Addr;
use std::sync::Arc;
use quandary::db::{HashMapTreeCatalog, HashMapTreeZone};
use quandary::server::{ReceivedInfo, Response, Server, Transport};
type Cat = HashMapTreeCatalog<HashMapTreeZone, ()>;
fn query_with_tsig(ttl: u32) -> Vec<u8> {
    let mut q = vec![0, 7, 0, 0, 0, 1, 0, 0, 0, 0, 0, 1];
    q.extend_from_slice(b"\x01x\x04test\x00\x00\x01\x00\x01");
    q.extend_from_slice(b"\x01k\x00"); // owner
    q.extend_from_slice(&[0, 250, 0, 255]); // TSIG, ANY
    q.extend_from_slice(&ttl.to_be_bytes());
    let mut rd = Vec::new();
    rd.extend_from_slice(b"\x0bhmac-sha256\x00");
    rd.extend_from_slice(&[0, 0, 0x65, 0, 0, 0]); // time signed
    rd.extend_from_slice(&[1, 44]); // fudge
    rd.extend_from_slice(&[0, 0]); // mac size 0
    rd.extend_from_slice(&[0, 7]); // original id
    rd.extend_from_slice(&[0, 0]); // error
    rd.extend_from_slice(&[0, 0]); // other len
    q.extend_from_slice(&(rd.len() as u16).to_be_bytes());
    q.extend_from_slice(&rd);
    q
}
fn main() {
    let server = Server::new(Arc::new(Cat::new()));
    for ttl in [0u32, 1, 0x7fff_ffff, 0x8000_0000, 0xffff_ffff] {
        let mut buf = vec![0u8; 65535];
        let r = server.handle_message(&query_with_tsig(ttl), ReceivedInfo::new(Ipv4Addr::LOCALHOST.into(), Transport::Tcp), &mut buf);
        match r { Response::Single(n) => println!("D16 TSIG TTL {:#010x}: rcode {} (FORMERR=1, NOTAUTH=9) len {}", ttl, buf[3] & 15, n), Response::None => println!("none") }
    }
}
