//! Demonstration for defect D13: `load_impl` in
//! `src/bin/quandaryd/zones.rs` finds a zone's *previous* catalog entry
//! with the longest-match `Catalog::lookup` instead of the exact-match
//! `Catalog::get`. For a nested zone (`a.test.` below `test.`) that has
//! no previous entry of its own, the "previous entry" is therefore the
//! PARENT's. When such a child zone then fails to load,
//! `make_error_catalog_entry` clones the parent's old entry and inserts
//! it into the new catalog -- under the parent's name.
//!
//! Property that must hold after every reload: each configured zone is
//! served from its newly loaded data if its file loaded, from its
//! previously served data if the load failed, and with SERVFAIL if it
//! has never been loaded; and one zone's load failure never changes
//! what any other zone serves.
//!
//! The tests spawn the real `quandaryd` binary on a loopback port, edit
//! the configuration and zone files, send SIGHUP and query over UDP.
//!
//! Run with:
//!
//!     CARGO_NET_OFFLINE=true cargo test --offline --test demo_D13
//!
//! `s1_*` and `s3_*` fail on the defective code; `s2_*` is a control
//! that passes either way (the child has a catalog entry of its own).

#![cfg(unix)]

use std::fs::{self, File};
use std::net::{TcpListener, UdpSocket};
use std::path::{Path, PathBuf};
use std::process::{Child, Command, Stdio};
use std::time::{Duration, Instant, SystemTime};

const TYPE_TXT: u16 = 16;
const RCODE_NOERROR: u8 = 0;

////////////////////////////////////////////////////////////////////////
// HARNESS                                                            //
////////////////////////////////////////////////////////////////////////

struct Daemon {
    child: Child,
    dir: PathBuf,
    port: u16,
    sentinel_step: u32,
    base_time: SystemTime,
}

impl Drop for Daemon {
    fn drop(&mut self) {
        let _ = self.child.kill();
        let _ = self.child.wait();
        if !std::thread::panicking() {
            let _ = fs::remove_dir_all(&self.dir);
        } else {
            eprintln!("daemon log kept at {}", self.dir.join("log").display());
        }
    }
}

fn free_port() -> u16 {
    for _ in 0..100 {
        let udp = UdpSocket::bind("127.0.0.1:0").unwrap();
        let port = udp.local_addr().unwrap().port();
        if TcpListener::bind(("127.0.0.1", port)).is_ok() {
            return port;
        }
    }
    panic!("could not find a free port");
}

fn zone_text(origin: &str, marker: &str) -> String {
    format!(
        "$ORIGIN {origin}\n\
         $TTL 3600\n\
         @ IN SOA ns admin 1 3600 900 86400 3600\n\
         @ IN NS ns\n\
         ns IN A 127.0.0.1\n\
         @ IN TXT \"{marker}\"\n"
    )
}

/// Writes `contents` to `path` and pins the file's mtime to `mtime`, so
/// that the history does not depend on file system timestamp
/// granularity.
fn write_with_mtime(path: &Path, contents: &str, mtime: SystemTime) {
    fs::write(path, contents).unwrap();
    let file = File::options().write(true).open(path).unwrap();
    file.set_modified(mtime).unwrap();
}

impl Daemon {
    /// `zones` is a list of (zone name, file name) pairs; the sentinel
    /// zone is added automatically.
    fn write_config(dir: &Path, port: u16, zones: &[(&str, &str)]) {
        let mut config = format!("bind = \"127.0.0.1:{port}\"\n");
        for (name, file) in zones
            .iter()
            .copied()
            .chain([("sentinel.example.", "sentinel.zone")])
        {
            config.push_str(&format!(
                "\n[[zones]]\nname = \"{name}\"\npath = \"{file}\"\n"
            ));
        }
        let tmp = dir.join("config.toml.tmp");
        fs::write(&tmp, config).unwrap();
        fs::rename(tmp, dir.join("config.toml")).unwrap();
    }

    fn write_sentinel(dir: &Path, base_time: SystemTime, step: u32) {
        write_with_mtime(
            &dir.join("sentinel.zone"),
            &zone_text("sentinel.example.", &format!("sentinel-{step}")),
            base_time + Duration::from_secs(10 * step as u64),
        );
    }

    fn start(tag: &str, prepare: impl FnOnce(&Path, SystemTime), zones: &[(&str, &str)]) -> Self {
        let dir = std::env::temp_dir().join(format!(
            "quandary-demo-D13-{tag}-{}-{}",
            std::process::id(),
            SystemTime::now()
                .duration_since(SystemTime::UNIX_EPOCH)
                .unwrap()
                .as_nanos()
        ));
        fs::create_dir_all(&dir).unwrap();
        let base_time = SystemTime::now() - Duration::from_secs(7200);
        prepare(&dir, base_time);
        Self::write_sentinel(&dir, base_time, 0);
        let port = free_port();
        Self::write_config(&dir, port, zones);

        let log = File::create(dir.join("log")).unwrap();
        let child = Command::new(env!("CARGO_BIN_EXE_quandaryd"))
            .arg("run")
            .arg("--config")
            .arg(dir.join("config.toml"))
            .env("RUST_LOG", "debug")
            .stdin(Stdio::null())
            .stdout(Stdio::null())
            .stderr(log)
            .spawn()
            .expect("failed to spawn quandaryd");
        let mut daemon = Self {
            child,
            dir,
            port,
            sentinel_step: 0,
            base_time,
        };
        daemon.wait_until_up();
        daemon
    }

    fn wait_until_up(&mut self) {
        let deadline = Instant::now() + Duration::from_secs(20);
        while Instant::now() < deadline {
            if let Some(status) = self.child.try_wait().unwrap() {
                panic!("quandaryd exited early: {status}");
            }
            if self.query("sentinel.example.", TYPE_TXT).is_some() {
                return;
            }
            std::thread::sleep(Duration::from_millis(50));
        }
        panic!("quandaryd did not come up");
    }

    /// Bumps the sentinel zone, sends SIGHUP, and waits until the new
    /// sentinel data is being served. Since the daemon swaps in the
    /// whole new catalog at once, this means the reload is complete.
    fn reload(&mut self) {
        self.sentinel_step += 1;
        Self::write_sentinel(&self.dir, self.base_time, self.sentinel_step);
        let marker = format!("sentinel-{}", self.sentinel_step);
        let deadline = Instant::now() + Duration::from_secs(20);
        let mut last_signal = None;
        loop {
            // Re-send the signal occasionally in case the first one
            // raced with the daemon installing its handlers.
            if last_signal.map_or(true, |t: Instant| t.elapsed() > Duration::from_secs(3)) {
                let rc = unsafe { libc::kill(self.child.id() as libc::pid_t, libc::SIGHUP) };
                assert_eq!(rc, 0, "kill(SIGHUP) failed");
                last_signal = Some(Instant::now());
            }
            if let Some((RCODE_NOERROR, response)) = self.query("sentinel.example.", TYPE_TXT) {
                if contains(&response, marker.as_bytes()) {
                    return;
                }
            }
            assert!(Instant::now() < deadline, "reload did not complete in time");
            std::thread::sleep(Duration::from_millis(25));
        }
    }

    /// Sends a query over UDP; returns the RCODE and the raw response.
    fn query(&self, qname: &str, qtype: u16) -> Option<(u8, Vec<u8>)> {
        let socket = UdpSocket::bind("127.0.0.1:0").unwrap();
        socket
            .set_read_timeout(Some(Duration::from_millis(500)))
            .unwrap();
        for attempt in 0..4u16 {
            let id = 0x4300 + attempt;
            let mut message = Vec::new();
            message.extend_from_slice(&id.to_be_bytes());
            message.extend_from_slice(&[0, 0, 0, 1, 0, 0, 0, 0, 0, 0]);
            for label in qname.trim_end_matches('.').split('.') {
                message.push(label.len() as u8);
                message.extend_from_slice(label.as_bytes());
            }
            message.push(0);
            message.extend_from_slice(&qtype.to_be_bytes());
            message.extend_from_slice(&[0, 1]);
            socket.send_to(&message, ("127.0.0.1", self.port)).ok()?;
            let mut buf = [0; 2048];
            while let Ok((n, _)) = socket.recv_from(&mut buf) {
                if n >= 12 && buf[0..2] == id.to_be_bytes() {
                    return Some((buf[3] & 0xf, buf[..n].to_vec()));
                }
            }
        }
        None
    }

    /// Describes what is being served for the TXT record at `qname`.
    fn served(&self, qname: &str, markers: &[&str]) -> String {
        match self.query(qname, TYPE_TXT) {
            None => "no response".to_owned(),
            Some((RCODE_NOERROR, response)) => markers
                .iter()
                .find(|m| contains(&response, m.as_bytes()))
                .map(|m| (*m).to_owned())
                .unwrap_or_else(|| "NOERROR with unknown data".to_owned()),
            Some((rcode, _)) => format!("RCODE {rcode}"),
        }
    }
}

fn contains(haystack: &[u8], needle: &[u8]) -> bool {
    haystack.windows(needle.len()).any(|w| w == needle)
}


////////////////////////////////////////////////////////////////////////
// THE HISTORIES                                                      //
////////////////////////////////////////////////////////////////////////

const MARKERS: &[&str] = &[
    "parent-v1",
    "parent-v2",
    "parent-a-v1",
    "child-v1",
    "child-v2",
    "other-data",
];
const RCODE_SERVFAIL: &str = "RCODE 2";

/// Not a valid zone file (unbalanced parenthesis, no SOA, ...).
const GARBAGE: &str = "$ORIGIN a.test.\nthis is (not a zone file\n";

/// The parent zone `test.`. Version 1 still contains a record at
/// `a.test.` itself (before that name was split off into its own zone);
/// version 2 does not.
fn parent_text(version: u32) -> String {
    let mut text = zone_text("test.", &format!("parent-v{version}"));
    if version == 1 {
        text.push_str("a IN TXT \"parent-a-v1\"\n");
    }
    text
}

/// S1: only `test.` (and an unrelated zone) is configured at startup.
/// Then the operator splits `a.test.` off into its own zone: the parent
/// file is updated to v2 and a new `[[zones]]` entry for `a.test.` is
/// added AFTER the parent's -- but the new child zone file is invalid.
///
/// Expected: `test.` serves parent-v2 (its file loaded), `a.test.` is
/// answered with SERVFAIL (configured, never loaded), `other.example.`
/// is untouched.
#[test]
fn s1_new_invalid_child_must_not_revert_the_parent() {
    let mut daemon = Daemon::start(
        "s1",
        |dir, base| {
            write_with_mtime(&dir.join("parent.zone"), &parent_text(1), base);
            write_with_mtime(
                &dir.join("other.zone"),
                &zone_text("other.example.", "other-data"),
                base,
            );
        },
        &[("test.", "parent.zone"), ("other.example.", "other.zone")],
    );
    let base = daemon.base_time;
    assert_eq!(daemon.served("test.", MARKERS), "parent-v1");
    assert_eq!(daemon.served("a.test.", MARKERS), "parent-a-v1");
    assert_eq!(daemon.served("other.example.", MARKERS), "other-data");

    // The reload: parent -> v2 (valid), child added to the configuration
    // after the parent, with an invalid zone file.
    write_with_mtime(
        &daemon.dir.join("parent.zone"),
        &parent_text(2),
        base + Duration::from_secs(100),
    );
    write_with_mtime(
        &daemon.dir.join("child.zone"),
        GARBAGE,
        base + Duration::from_secs(100),
    );
    Daemon::write_config(
        &daemon.dir,
        daemon.port,
        &[
            ("test.", "parent.zone"),
            ("a.test.", "child.zone"),
            ("other.example.", "other.zone"),
        ],
    );
    daemon.reload();

    let parent = daemon.served("test.", MARKERS);
    let child = daemon.served("a.test.", MARKERS);
    let other = daemon.served("other.example.", MARKERS);
    eprintln!("S1 after reload: test. -> {parent}; a.test. -> {child}; other.example. -> {other}");
    assert_eq!(other, "other-data");
    assert_eq!(
        parent, "parent-v2",
        "test.'s file loaded fine, so test. must be served from the new data; \
         the failure of a.test. must not change what test. serves",
    );
    assert_eq!(
        child, RCODE_SERVFAIL,
        "a.test. is configured but has never loaded, so it must get SERVFAIL \
         (and must not be answered from the parent zone's data)",
    );
}

/// S2 (control): parent and child are both configured and valid at
/// startup. At the reload the parent is updated to v2 and the child's
/// file becomes invalid. The child has a catalog entry of its own, so
/// longest-match and exact-match lookups agree; this passes with or
/// without the defect.
#[test]
fn s2_control_child_with_its_own_entry_keeps_its_data() {
    let mut daemon = Daemon::start(
        "s2",
        |dir, base| {
            write_with_mtime(&dir.join("parent.zone"), &parent_text(1), base);
            write_with_mtime(
                &dir.join("child.zone"),
                &zone_text("a.test.", "child-v1"),
                base,
            );
        },
        &[("test.", "parent.zone"), ("a.test.", "child.zone")],
    );
    let base = daemon.base_time;
    assert_eq!(daemon.served("test.", MARKERS), "parent-v1");
    assert_eq!(daemon.served("a.test.", MARKERS), "child-v1");

    write_with_mtime(
        &daemon.dir.join("parent.zone"),
        &parent_text(2),
        base + Duration::from_secs(100),
    );
    write_with_mtime(
        &daemon.dir.join("child.zone"),
        GARBAGE,
        base + Duration::from_secs(100),
    );
    daemon.reload();

    let parent = daemon.served("test.", MARKERS);
    let child = daemon.served("a.test.", MARKERS);
    eprintln!("S2 after reload: test. -> {parent}; a.test. -> {child}");
    assert_eq!(parent, "parent-v2");
    assert_eq!(child, "child-v1");
}

/// S3: only `test.` is configured at startup. At the reload the parent
/// does not change at all; a `[[zones]]` entry for `a.test.` is added
/// BEFORE the parent's, pointing at a file that does not exist (this
/// goes through the `check_mtime` error path rather than the parse
/// error path).
///
/// Expected: `test.` still serves parent-v1; `a.test.` is configured
/// but has never loaded, so it gets SERVFAIL.
#[test]
fn s3_new_missing_child_must_get_servfail_not_parent_data() {
    let mut daemon = Daemon::start(
        "s3",
        |dir, base| {
            write_with_mtime(&dir.join("parent.zone"), &parent_text(1), base);
        },
        &[("test.", "parent.zone")],
    );
    assert_eq!(daemon.served("test.", MARKERS), "parent-v1");
    assert_eq!(daemon.served("a.test.", MARKERS), "parent-a-v1");

    Daemon::write_config(
        &daemon.dir,
        daemon.port,
        &[("a.test.", "child.zone"), ("test.", "parent.zone")],
    );
    daemon.reload();

    let parent = daemon.served("test.", MARKERS);
    let child = daemon.served("a.test.", MARKERS);
    eprintln!("S3 after reload: test. -> {parent}; a.test. -> {child}");
    assert_eq!(parent, "parent-v1");
    assert_eq!(
        child, RCODE_SERVFAIL,
        "a.test. is configured but has never loaded, so it must get SERVFAIL \
         (and must not be answered from the parent zone's data)",
    );
}
