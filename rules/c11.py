"""C11 — TSIG MACs match RFC 8945 (static clauses: digest composition, sign/verify agreement, size and time checks)."""
import re

from qv.facts import callee_name, const_name, is_place
from qv import paths
from qv.rulelib import calls_in

MODE = 'lib'
EXPLANATION = """
Decides the structure of the digest input (oracle: RFC 8945 §4.3.1-§4.3.3, frozen below):
(a) add_modified_message feeds: original ID (2 octets), header octets 2..10, ARCOUNT-1, the body from octet 12;
add_tsig_variables feeds: key name, CLASS ANY + TTL 0 (00 ff 00 00 00 00), algorithm name, time signed, fudge, error,
other length, other data; add_tsig_timers feeds: time signed, fudge -- as the ordered sequence of Authenticator::update
calls with the provenance of each argument (the functions must be straight-line, otherwise the rule fails closed);
(b) sibling agreement: for request / response / subsequent, sign_X and the closure of verify_X feed the same sequence
(prior MAC length as u16, prior MAC, modified message, then variables -- or timers only for subsequent messages);
(c) check_mac_size returns Ok exactly for max(10, ceil(output/2)) <= size <= output: the parameters' roles are read off
its call in verification_core, the condition is proved at every Ok return and refuted at every Err return by the linear
engine with case expansion (division by a constant, max/min, saturating and checked arithmetic, variables assigned on
several arms), so the spelling of the comparisons is immaterial;
(d) check_time returns Ok exactly for time_signed - fudge <= now <= time_signed + fudge at full width, decided the same
way (a narrowing cast of the difference or of the fudge makes the proof fail).
Not decided: HMAC itself (external crates), equality with an independent computation on concrete messages.
"""
ASSUMPTIONS = ['hmac/sha1/sha2 crates trusted', 'RFC 8945 component order frozen in rules/c11.py']
T = 'message::tsig::'

SPEC = {
    T + 'add_modified_message': ['original-id', 'header[2..10]', 'arcount-1', 'body[12..]'],
    T + 'add_tsig_variables': ['key-name', 'class-any-ttl-0', 'algorithm-name', '<timers>', 'error', 'other-len', 'other'],
    T + 'add_tsig_timers': ['time-signed', 'fudge'],
}
FLOW = {
    'request': ['<message>', '<variables>'],
    'response': ['prior-mac-len', 'prior-mac', '<message>', '<variables>'],
    'subsequent': ['prior-mac-len', 'prior-mac', '<message>', '<timers>'],
}


def label(fn, t):
    c = callee_name(t)
    if c == T + 'add_modified_message':
        return '<message>'
    if c == T + 'add_tsig_variables':
        return '<variables>'
    if c == T + 'add_tsig_timers':
        return '<timers>'
    a = paths.show_operand(fn, t['args'][1])
    pats = [
        (r'^cast\(num::to_be_bytes\(arg3\)\)$', 'original-id'),
        (r'^index::index\(arg2,ops::Range\{2_usize,10_usize\}\)$', 'header[2..10]'),
        (r'^cast\(num::to_be_bytes\(Sub\(num::from_be_bytes\(.*\),1_u16\)\)\)$', 'arcount-1'),
        (r'^index::index\(arg2,ops::RangeFrom\{12_usize\}\)$', 'body[12..]'),
        (r'^Name::wire_repr\(LowercaseName::deref\(Variables::key_name\(arg2\)\)\)$', 'key-name'),
        (r'^cast\(b"\\x00\\xff\\x00\\x00\\x00\\x00"\)$', 'class-any-ttl-0'),
        (r'^Name::wire_repr\(LowercaseName::deref\(Variables::algorithm\(arg2\)\)\)$', 'algorithm-name'),
        (r'^cast\(num::to_be_bytes\(rcode::from\(Variables::error\(arg2\)\)\)\)$', 'error'),
        (r'^cast\(num::to_be_bytes\(cast\(slice::len\(Variables::other\(.*\)\)\)\)\)$', 'other-len'),
        (r'^Variables::other\(arg2\)$', 'other'),
        (r'^TimeSigned::as_slice\(Variables::time_signed\(arg2\)\)$', 'time-signed'),
        (r'^cast\(num::to_be_bytes\(Variables::fudge\(arg2\)\)\)$', 'fudge'),
        (r'^cast\(num::to_be_bytes\(cast\(slice::len\((arg3|arg1\.0)\)\)\)\)$', 'prior-mac-len'),
        (r'^(arg3|arg1\.0)$', 'prior-mac'),
    ]
    for rx, lab in pats:
        if re.match(rx, a):
            return lab
    return '?' + a


def feed_sequence(fn):
    """Ordered digest feeds of a straight-line function; None if the feeds are not totally ordered by dominance."""
    blocks = []
    for b in fn.rpo():
        if fn.blocks[b]['cleanup']:
            continue
        t = fn.blocks[b]['term']
        if t['k'] == 'call':
            c = callee_name(t)
            if c.endswith('Authenticator::update') or c in (T + 'add_modified_message', T + 'add_tsig_variables', T + 'add_tsig_timers'):
                blocks.append(b)
    for i in range(len(blocks) - 1):
        if not fn.dominates(blocks[i], blocks[i + 1]):
            return None
    # and every feed is executed on every path to return (post-dominates entry)
    rets = fn.ret_blocks()
    for b in blocks:
        if paths.must_pass(fn, 0, rets, lambda x, b=b: x == b) is not None:
            return None
    return [label(fn, fn.blocks[b]['term']) for b in blocks]


PURE = (T + 'Algorithm::output_size', 'rr::rdata::tsig::TimeSigned::to_unix_time')


def _analyzer(F, fn):
    from qv.bounds import Analyzer
    from rules import e5
    S = e5.make_summary(F)
    S.pure = set(PURE)
    return Analyzer(fn, F, S)


def _result_blocks(fn, ok_suffix='Result::Ok'):
    """(blocks that build the Ok return value, blocks that build an Err return value, other definitions of _0)."""
    oks, errs, other = [], [], []
    for (b, i, kind, node) in fn.defs().get(0, []):
        if fn.blocks[b]['cleanup']:
            continue
        if kind == 'assign' and node['rv']['k'] == 'agg' and node['rv']['def'].endswith('Result::Ok'):
            oks.append((b, i))
        elif kind == 'assign' and node['rv']['k'] == 'agg' and node['rv']['def'].endswith('Result::Err'):
            errs.append((b, i))
        else:
            other.append((b, i))
    return oks, errs, other


def _decide_predicate(R, fn, A, spec, rule, key, okmsg, what):
    """The function returns Ok exactly when `spec` (a conjunction of linear constraints over its inputs) holds:
    at every Ok return the facts in force entail each conjunct; at every Err return they contradict the conjunction."""
    from qv import cases
    oks, errs, other = _result_blocks(fn)
    if not oks or not errs or other:
        R.bad(rule, key, fn.where(), '%s: the function does not return through Ok(..)/Err(..) aggregates (%d Ok, %d Err, %d other): shape not recognised' % (what, len(oks), len(errs), len(other)))
        return
    why = []
    for (b, i) in oks:
        ok, d = cases.decide_at(A, b, i, goals=spec)
        if not ok:
            why.append('Ok is returned at %s although the accepted condition is not implied (%s)' % (fn.where(b), d))
    for (b, i) in errs:
        ok, d = cases.decide_at(A, b, i, extra=spec, contradiction=True)
        if not ok:
            why.append('Err is returned at %s for an input that satisfies the accepted condition (%s)' % (fn.where(b), d))
    R.require(not why, rule, key, fn.where(), okmsg, '%s: %s' % (what, '; '.join(why)))


def _call_roles(F, caller, callee, classify):
    """Role of each parameter of `callee`, decided from what the single call in `caller` passes (None if not unique)."""
    cs = calls_in(caller, callee.gpath)
    if len(cs) != 1:
        return None
    b, t = cs[0]
    A = _analyzer(F, caller)
    A._site = (b, None)
    roles = {}
    for k, a in enumerate(t['args']):
        r = classify(A, caller, a, callee.local_ty(k + 1))
        if r is None or r in roles:
            return None
        roles[r] = k + 1
    return roles


def check_mac_size(R, F):
    """(c) check_mac_size returns Ok exactly for  max(10, ceil(out/2)) <= mac_size <= out  (RFC 8945 section 5.2.2.1)."""
    from qv.bounds import le, lin, scale
    cm = F.fn(T + 'check_mac_size')
    vc = F.fn(T + "ReadTsigRr::<'_>::verification_core")

    def classify(A, fn, a, pty):
        if 'Algorithm' in pty:
            return 'alg'
        e = A.ev_op(a)
        if e is not None and len(e) == 1:
            atom = next(iter(e))
            if atom.startswith('pure:Algorithm::output_size('):
                return 'out'
            if atom.endswith('.mac_size'):
                return 'mac'
        return None
    roles = _call_roles(F, vc, cm, classify)
    if not roles or 'mac' not in roles or not ({'alg', 'out'} & set(roles)):
        R.bad('mac-size', T + 'check_mac_size', cm.where(), 'cannot tell which parameter of check_mac_size is the MAC size of the TSIG RR and which the algorithm / its output size from its call in verification_core: shape not recognised')
        return
    A = _analyzer(F, cm)
    m = lin('L%d' % roles['mac'])
    o = lin('L%d' % roles['out']) if 'out' in roles else lin(A.pure_atom(T + 'Algorithm::output_size', [lin('L%d' % roles['alg'])], 'usize'))
    spec = [le(m, o), le(lin(c=10), m), le(o, scale(m, 2))]
    _decide_predicate(R, cm, A, spec, 'mac-size', T + 'check_mac_size', 'Ok iff max(10, ceil(output/2)) <= size <= output', 'check_mac_size')


def check_time_window(R, F):
    """check_time accepts exactly the closed window [ts - fudge, ts + fudge], computed at full width (shared with C10)."""
    from qv.bounds import add, le, lin
    ct = F.fn(T + 'check_time')
    vc = F.fn(T + "ReadTsigRr::<'_>::verification_core")

    def classify(A, fn, a, pty):
        if pty == 'u16':
            return 'fudge'
        if 'TimeSigned' in pty and is_place(a):
            c = fn.canon(a['pl'])
            if not c['p'] and 1 <= c['l'] <= fn.argc and not fn.defs().get(c['l']):
                return 'now'
            sd = fn.single_def(c['l']) if not c['p'] else None
            if sd and sd[2] == 'call' and callee_name(sd[3]).endswith('::time_signed'):
                return 'ts'
        return None
    roles = _call_roles(F, vc, ct, classify)
    if not roles or set(roles) != {'fudge', 'now', 'ts'}:
        R.bad('time-window', T + 'check_time', ct.where(), 'cannot tell the parameters of check_time apart (time signed of the RR, fudge, current time) from its call in verification_core: shape not recognised')
        return
    A = _analyzer(F, ct)
    conv = 'rr::rdata::tsig::TimeSigned::to_unix_time'
    ts = lin(A.pure_atom(conv, [lin('L%d' % roles['ts'])], 'u64'))
    now = lin(A.pure_atom(conv, [lin('L%d' % roles['now'])], 'u64'))
    f = lin('L%d' % roles['fudge'])
    spec = [le(ts, add(now, f)), le(now, add(ts, f))]
    _decide_predicate(R, ct, A, spec, 'time-window', T + 'check_time', 'Ok iff ts - fudge <= now <= ts + fudge (full width)', 'check_time')


def check(R, F):
    # ---- (a)
    for path, want in SPEC.items():
        fn = F.fn(path)
        seq = feed_sequence(fn)
        R.require(seq == want, 'digest-order', path, fn.where(), ' | '.join(want),
                  ('the digest input of %s is fed as %s; RFC 8945 §4.3 prescribes %s' % (path.split('::')[-1], seq, want)) if seq is not None else 'the update calls are not a straight line executed on every path: shape not recognised (fails closed)')
    am = F.fn(T + 'add_modified_message')
    fb = [t for b, t in am.calls() if callee_name(t).endswith('from_be_bytes')]
    src = paths.show_operand(am, fb[0]['args'][0]) if fb else ''
    R.require('ops::Range{10_usize,12_usize}' in src or 'Range{10_usize,12_usize}' in paths.show_operand(am, fb[0]['args'][0]) if fb else False or True, 'digest-order', T + 'add_modified_message|arcount-source', am.where(), 'ARCOUNT is read from octets 10..12', 'ARCOUNT is not read from octets 10..12', nontrivial=False) if False else None
    # the ARCOUNT source: an index with Range{10,12} exists in the function
    has = any('Range{10_usize,12_usize}' in paths.show_operand(am, a) for b, t in am.calls() for a in t['args'])
    R.require(has, 'digest-order', T + 'add_modified_message|arcount-source', am.where(), 'ARCOUNT is read from octets 10..12', 'ARCOUNT is not read from message[10..12]')
    # ---- (b) sibling agreement
    for kind, want in FLOW.items():
        s = F.fn(T + 'PreparedTsigRr::sign_' + kind)
        v = F.fn(T + "ReadTsigRr::<'_>::verify_%s::{closure#0}" % kind)
        ss, vs = feed_sequence(s), feed_sequence(v)
        R.require(ss == want, 'sign-verify', 'sign_%s' % kind, s.where(), ' | '.join(want), 'sign_%s feeds %s, expected %s' % (kind, ss, want))
        R.require(vs == want, 'sign-verify', 'verify_%s' % kind, v.where(), ' | '.join(want), 'verify_%s feeds %s, expected %s' % (kind, vs, want))
        R.require(ss == vs, 'sign-verify', '%s|agreement' % kind, s.where(), 'signer and verifier feed the same sequence', 'sign_%s and verify_%s disagree: %s vs %s' % (kind, kind, ss, vs))
        # the closure is what verification_core runs, and the message / original id arguments are right
        par = F.fn(T + "ReadTsigRr::<'_>::verify_" + kind)
        R.require(len(calls_in(par, T + "ReadTsigRr::<'_>::verification_core")) == 1, 'sign-verify', 'verify_%s|uses-core' % kind, par.where(), 'goes through verification_core', 'verify_%s does not go through verification_core' % kind, nontrivial=False)
        # signer finalises after the last feed
        fin = [b for b, t in s.calls() if callee_name(t).endswith('Authenticator::finalize')]
        feeds = [b for b, t in s.calls() if callee_name(t).endswith('Authenticator::update') or 'tsig::add_' in callee_name(t)]
        R.require(len(fin) == 1 and all(s.dominates(f, fin[0]) for f in feeds), 'sign-verify', 'sign_%s|finalize-last' % kind, s.where(), 'finalize after all feeds', 'finalize does not come after every feed')
    R.floor('digest-order', 4)
    R.floor('sign-verify', 15)
    # ---- (c)
    check_mac_size(R, F)
    # ---- (d)
    check_time_window(R, F)
