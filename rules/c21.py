"""C21 — zone validation reports the defined semantic issues (static clauses: issue table)."""
import re

from qv.facts import callee_name, is_place, const_name
from qv import paths
from qv.rulelib import calls_in, enum_variants

MODE = 'lib'
EXPLANATION = """
Decides the issue table of db::zone::validation against the table in the property (frozen below): for every site that
constructs a ValidationIssue, or calls one of the check_* helpers, the dominating branch conditions are exactly the
prescribed ones:
- MissingApexSoa iff soa() is None; TooManyApexSoas iff its RDATA count != 1; MissingApexNs iff ns() is None;
- apex NS / MX targets: MissingNsAddress / MissingMxAddress for Found-without-addresses, Cname and NxDomain; nothing for
  Referral and WrongZone (the target lives elsewhere); only for classes with address types;
- delegation NS targets: as above, plus Referral -> check_glue always under the Wide policy and only when the referral's
  cut is this delegation under the Narrow policy; check_glue looks below cuts (checked lookup) and reports MissingGlue for
  anything but Found-with-addresses; delegations are checked only below the apex;
- CNAME: OtherRecordsAtCname iff the node has another RRset, DuplicateCname iff the CNAME RRset has != 1 RDATA;
- NsAtWildcard iff the owner is a wildcard, independently of apex / class;
- severity: is_error is false exactly for MissingMxAddress and NsAtWildcard; every issue variant is constructed;
- no issue / helper site carries a condition on state that is carried from one record to the next (a `&mut` parameter,
  a mutably borrowed local such as a cache or counter): whether an issue is reported is a function of the zone and the
  record at hand.  Sites are matched per incoming arm (merged `|` arms, match guards, computed booleans are expanded).
Not decided: absence of spurious issues / presence of all issues on arbitrary zones (value-level).
"""
ASSUMPTIONS = ['every CFG path is assumed feasible', 'issue table frozen from the property text']
V = 'db::zone::validation::'
LA = ['Found', 'Cname', 'Referral', 'NxDomain', 'WrongZone']


def _stateful(fn, guard):
    """The guard reads something that is mutated while the zone is scanned: a `&mut` parameter or a mutably borrowed
    local (a cache, a counter, the issue list) -- as opposed to a function of the zone and the record at hand."""
    if 'var:' in guard:
        return True
    return any(fn.local_ty(int(k)).startswith('&mut ') for k in re.findall(r'\barg(\d+)\b', guard) if int(k) <= fn.argc)


def _dnf(g):
    """A guard list in which a computed boolean (`true-when{A | B & C} not in [0]`) is replaced by each of its arms:
    the site is reached under (other guards and A) or (other guards and B and C)."""
    outs = [[]]
    for x in g:
        arms = paths.computed_bool_arms(x)
        if arms:
            outs = [o + a for o in outs for a in arms]
        else:
            outs = [o + [x] for o in outs]
    return outs


def _consistent(gs):
    """No scrutinee is required to take two different values (`d in [0]` and `d in [1]`, `c in [0]` and `c not in [0]`)."""
    allowed, excluded = {}, {}
    for g in gs:
        m = re.match(r'^(.*?) (not in|in) \[([\d, ]*)\]$', g)
        if not m:
            continue
        vs = {int(v) for v in m.group(3).split(',') if v.strip()}
        if m.group(2) == 'in':
            allowed[m.group(1)] = allowed.get(m.group(1), vs) & vs
        else:
            excluded.setdefault(m.group(1), set()).update(vs)
    return all(a - excluded.get(k, set()) for k, a in allowed.items())


def sites(fn):
    out = []
    for what, b, g in _sites(fn):
        for g2 in _dnf(g):
            g2 = list(dict.fromkeys(g2))
            if _consistent(g2) and (what, b, g2) not in out:
                out.append((what, b, g2))
    return out


_FACTS = [None]


def _closure_sites(fn):
    """Sites inside closures that fn builds (a loop body turned into `try_for_each(|x| ..)`): the conditions of the
    place where the closure is built, plus the closure's own conditions.  The closure's parameters are renamed (`carg`)
    so that they are not mistaken for fn's; a condition that reads a `&mut` capture counts as state (`var:`)."""
    F = _FACTS[0]
    out = []
    if F is None:
        return out
    for pb, bl in enumerate(fn.blocks):
        if bl['cleanup']:
            continue
        for st in bl['stmts']:
            if not (st['k'] == 'assign' and st['rv']['k'] == 'agg' and st['rv'].get('ak') == 'closure'):
                continue
            c = F.fns.get(st['rv']['def'])
            if c is None:
                continue
            mut_caps = {k for k, o in enumerate(st['rv']['ops']) if is_place(o) and (o['pl'].get('ty') or fn.local_ty(o['pl']['l'])).startswith('&mut ')}
            for what, cb, cg in _sites(c):
                ren = []
                for x in cg:
                    if any(re.search(r'\barg1\.%d\b' % k, x) for k in mut_caps):
                        x = 'var:captured-mut ' + x
                    ren.append(re.sub(r'\barg(\d)', r'carg\1', x))
                for pg in paths.reaching_guard_sets(fn, pb):
                    out.append((what, pb, pg + ren))
    return out


def _sites(fn):
    out = _closure_sites(fn) if '{closure' not in fn.gpath else []
    for b, bl in enumerate(fn.blocks):
        if bl['cleanup']:
            continue
        for st in bl['stmts']:
            if st['k'] == 'assign' and st['rv']['k'] == 'agg' and 'ValidationIssue::' in st['rv']['def']:
                out += [(st['rv']['def'].split('::')[-1], b, g) for g in paths.reaching_guard_sets(fn, b)]
        t = bl['term']
        if t['k'] == 'call' and callee_name(t).startswith(V + 'check_'):
            out += [('CALL ' + callee_name(t).split('::')[-1], b, g) for g in paths.reaching_guard_sets(fn, b)]
    return out


def check(R, F):
    _FACTS[0] = F
    la = enum_variants(F, 'db::zone::LookupAddrsResult')
    gp = enum_variants(F, 'db::zone::GluePolicy')
    i = {n: la.index(n) for n in LA}
    LK = r'Zone::lookup_addrs\(arg1,cast\(arg2\.0\.pointer\),LookupOptions::default\(\)\)'
    def disc(vals):
        return r'^discr\(%s\) in \[%s\]$' % (LK, ', '.join(str(v) for v in sorted(vals)))
    found_noaddr = [disc([i['Found']]), r'^validation::addrs_found\(Zone::class\(arg1\),.*\) in \[0\]$']
    cname_nx = [disc([i['Cname'], i['NxDomain']])]
    HAS = r'^validation::class_has_addrs\(Zone::class\(arg1\)\) not in \[0\]$'
    spec = {
        'validate': [
            ('MissingApexSoa', [r'^discr\(Zone::soa\(arg1\)\) not in \[1\]$'], 1),
            ('TooManyApexSoas', [r'^discr\(Zone::soa\(arg1\)\) in \[1\]$', r'^Ne\(.*count\(.*\),1_usize\) not in \[0\]$'], 2),
            ('MissingApexNs', [r'^discr\(Zone::ns\(arg1\)\) not in \[1\]$'], 1),
            ('CALL check_apex_ns_address', [r'^discr\(Zone::ns\(arg1\)\) in \[1\]$', HAS], None),
        ],
        'scan_node': [
            ('OtherRecordsAtCname', [r'^Ne\(Vec::len\(arg3\),1_usize\) not in \[0\]$', r'\.rr_type\.0 in \[5\]$'], None),
            ('DuplicateCname', [r'^Ne\(.*count\(.*\),1_usize\) not in \[0\]$', r'\.rr_type\.0 in \[5\]$'], None),
            ('CALL check_mx_address', [HAS, r'\.rr_type\.0 in \[15\]$'], None),
            ('NsAtWildcard', [r'^Name::is_wildcard\(arg2\) not in \[0\]$', r'\.rr_type\.0 in \[2\]$'], 'no-apex-or-class'),
            ('CALL check_delegation_ns_address', [r'^Eq\(Name::len\(arg2\),Name::len\(Zone::name\(arg1\)\)\) in \[0\]$', HAS, r'\.rr_type\.0 in \[2\]$'], None),
        ],
        'check_apex_ns_address': [('MissingNsAddress', cname_nx, None), ('MissingNsAddress', found_noaddr, None)],
        'check_mx_address': [('MissingMxAddress', cname_nx, None), ('MissingMxAddress', found_noaddr, None)],
        'check_delegation_ns_address': [
            ('MissingNsAddress', cname_nx, None), ('MissingNsAddress', found_noaddr, None),
            ('CALL check_glue', [disc([i['Referral']]), r'^discr\(Zone::glue_policy\(arg1\)\) in \[%d\]$' % gp.index('Wide')], 2),
            ('CALL check_glue', [disc([i['Referral']]), r'^discr\(Zone::glue_policy\(arg1\)\) in \[%d\]$' % gp.index('Narrow'), r'eq\(.*@Referral\.0\.child_zone.*arg3.*\) not in \[0\]$|eq\(.*Referral.*\) not in \[0\]$'], 3),
        ],
    }
    GL = r'Zone::lookup_addrs\(arg1,cast\(arg2\.0\.pointer\),zone::LookupOptions\{false,true\}\)'
    spec['check_glue'] = [('MissingGlue', [r'^discr\(%s\) not in \[%d\]$' % (GL, i['Found'])], None), ('MissingGlue', [r'^discr\(%s\) in \[%d\]$' % (GL, i['Found']), r'^validation::addrs_found\(Zone::class\(arg1\),.*\) in \[0\]$'], None)]
    constructed = set()
    for name, rows in spec.items():
        fn = F.fn(V + name)
        ss = sites(fn)
        for what, b, g in ss:
            if not what.startswith('CALL'):
                constructed.add(what)
        used = set()
        for n_, (what, rxs, extra) in enumerate(rows):
            cand = [(k, s) for k, s in enumerate(ss) if s[0] == what and k not in used and all(any(re.search(rx, x) for x in s[2]) for rx in rxs)]
            key = '%s|%s#%d' % (V + name, what, n_)
            if not cand:
                R.bad('issue-table', key, fn.where(), 'no `%s` site guarded by %s; sites of that kind: %s' % (what, rxs, [s[2] for s in ss if s[0] == what]))
                continue
            k, s = cand[0]
            used.add(k)
            ok = True
            msg = ''
            if extra == 'no-apex-or-class':
                bad = [x for x in s[2] if 'class_has_addrs' in x or 'Name::len(arg2)' in x]
                ok = not bad
                msg = 'the NS-at-wildcard check is additionally guarded by %s: it would be skipped at the apex or for classes without address types' % bad
            else:
                # no condition beyond the prescribed ones (iteration and `?` edges aside): an issue that must be reported
                # whenever the prescribed conditions hold is not made to depend on anything else (a cache, a counter, ...)
                stray = [x for x in s[2] if not any(re.search(rx, x) for rx in rxs) and not re.match(r"^discr\([\w<>', :&]*::next\(", x) and _stateful(fn, x)]
                ok = not stray
                msg = 'site is additionally guarded by %s, a condition on state that is carried from one record to the next: the issue / check would be skipped although the prescribed conditions hold for this record' % stray
            R.require(ok, 'issue-table', key, fn.where(s[1]), '%s under the prescribed conditions' % what, msg)
        leftover = [s for k, s in enumerate(ss) if k not in used]
        R.require(not leftover, 'issue-table', V + name + '|no-other-sites', fn.where(), 'no other issue / helper sites', 'unexpected sites: %s' % [(s[0], s[2]) for s in leftover])
    iv = enum_variants(F, V + 'ValidationIssue')
    R.require(constructed == set(iv), 'issue-table', V + 'ValidationIssue|all-constructed', '', 'all %d issue variants are produced' % len(iv), 'never constructed: %s' % sorted(set(iv) - constructed))
    R.floor('issue-table', 22)
    # Referral / WrongZone arms are empty for apex NS and MX
    for name in ('check_apex_ns_address', 'check_mx_address'):
        fn = F.fn(V + name)
        g_all = [x for b in range(len(fn.blocks)) for x in paths.direct_guards(fn, b)]
        R.require(any(re.match(r'^discr\(%s\) in \[%d, %d\]$' % (LK, i['Cname'], i['NxDomain']), x) for x in g_all), 'issue-table', V + name + '|dispatch', fn.where(), 'dispatch on the lookup outcome', 'no dispatch on Cname|NxDomain', nontrivial=False)
    # severity
    ie = F.fn(V + "ValidationIssue::<'_>::is_error")
    trues = {}
    for b, bl in enumerate(ie.blocks):
        for st in bl['stmts']:
            if st['k'] == 'assign' and st['rv']['k'] == 'use' and st['rv']['op']['k'] == 'const' and const_name(st['rv']['op']) in ('true', 'false'):
                trues.setdefault(const_name(st['rv']['op']), []).extend(paths.direct_guards(ie, b))
    warn = sorted((iv.index('MissingMxAddress'), iv.index('NsAtWildcard')))
    txt = ' '.join(trues.get('true', []))
    ret = paths.show_operand(ie, {'k': 'copy', 'pl': {'l': 0, 'p': [], 'ty': ''}})
    ok = ('in [%d, %d]' % tuple(warn)) in txt and ret.startswith('Not(')
    R.require(ok, 'severity', ie.gpath, ie.where(), 'warnings are exactly MissingMxAddress and NsAtWildcard', 'is_error: matches! arms %s, result %s' % (trues, ret))
