"""C25 — $INCLUDE behaves like textual inclusion with origin scoping (static clauses)."""
import re

from qv.facts import callee_name, const_name, is_place
from qv.flow import slice_of
from qv import paths
from qv.rulelib import calls_in

MODE = 'lib'
EXPLANATION = """
Decides structural clauses of C25 on zone_file::fs::Parser::next and the context helpers:
(a) depth: the include's File::open is dominated by the failed `depth >= max_depth` test, where depth is the number of
files on the stack minus one (0 for an empty stack), computed at entry; the too-deep arm returns an error;
(b) path: the opened path is compute_path(path of the file on top of the stack, the directive's path), and compute_path
joins the directive's path onto the includer's parent directory;
(c) the included parser is new_for_include(top-of-stack parser, opened file, directive's origin) and is pushed together
with that same path;
(d) new_for_include: the origin is the directive's when given, and every other context field (previous owner, TTL,
class, default TTL) is the includer's; without an origin the whole context is cloned;
(e) when an included file ends, its parser is popped and -- if a parent remains -- the parent's context takes every
field from the included file's final context except the origin, which stays the parent's own, unconditionally (the
hand-over dominates every return of update_context_from_include); then parsing continues
with the parent; an empty stack ends the iteration.
Not decided: equivalence with textual inclusion on arbitrary file trees.
"""
ASSUMPTIONS = ['every CFG path is assumed feasible', 'std::path semantics trusted']
FS = '<zone_file::fs::Parser as std::iter::Iterator>::next'
TOP = 'slice::last_mut(Vec<T, A>::deref_mut(arg1.files))@Some.0'


def check(R, F):
    fs = F.fn(FS)
    opens = [(b, t) for b, t in fs.calls() if callee_name(t).endswith('fs::File::open')]
    cps = calls_in(fs, 'zone_file::fs::compute_path')
    nfi = calls_in(fs, 'zone_file::Parser::<S>::new_for_include')
    push = [(b, t) for b, t in fs.calls() if callee_name(t).endswith('Vec::<T, A>::push')]
    ok = len(opens) == 1 and len(cps) == 1 and len(nfi) == 1 and len(push) == 1
    R.require(ok, 'include', FS + '|anchors', fs.where(), 'one File::open, compute_path, new_for_include, push', 'expected exactly one File::open / compute_path / new_for_include / push in fs::Parser::next, found %s' % [len(opens), len(cps), len(nfi), len(push)])
    if not ok:
        return
    ob, ot = opens[0]
    # ---- (a) depth, decided by the linear engine (with case expansion for `match len {0 => 0, n => n - 1}`,
    # `saturating_sub(1)`, ...): with h = the height of the file stack (the includer on top), the include file is
    # opened only if h - 1 < max_depth, i.e. h <= max_depth; the IncludesTooDeep error is built only if h - 1 >= max_depth.
    # A pop or push between the height being taken and the test voids the facts (the engine drops facts about a length
    # once a `&mut` to the vector has been handed out), so "taken before the stack is modified" is part of the proof.
    from qv import cases
    from qv.bounds import Analyzer, add, le, lin
    from rules import e5
    A = Analyzer(fs, F, e5.make_summary(F))
    H, MAXD = lin('len:(*_1).files'), lin('P:(*_1).max_depth')
    ok, why = cases.decide_at(A, ob, None, goals=[le(H, MAXD)])
    R.require(ok, 'depth', FS + '|open-after-depth-test', fs.where(ob), 'File::open only with stack height - 1 < max_depth', 'the include file is opened although nesting depth (stack height - 1) < max_depth is not implied at that point (%s)' % why)
    deep = [(b_, i_) for b_, bl in enumerate(fs.blocks) if not bl['cleanup'] for i_, st in enumerate(bl['stmts']) if st['k'] == 'assign' and st['rv']['k'] == 'agg' and st['rv']['def'].endswith('ErrorKind::IncludesTooDeep')]
    ok3 = len(deep) == 1
    why3 = 'expected one IncludesTooDeep construction, found %d' % len(deep)
    if ok3:
        # refuted where the error arm is entered (before it empties the stack): a non-empty stack whose depth is still
        # below the limit
        arm = [s_ for s_ in fs.doms(deep[0][0]) if len([p_ for p_ in fs.preds()[s_] if p_ in fs.idom()]) == 1
               and fs.blocks[[p_ for p_ in fs.preds()[s_] if p_ in fs.idom()][0]]['term']['k'] == 'switch'
               and 'max_depth' in (paths.show_operand(fs, fs.blocks[[p_ for p_ in fs.preds()[s_] if p_ in fs.idom()][0]]['term']['op']) or '')]
        ok3, why3 = (False, 'the error is not below a test of max_depth: shape not recognised') if len(arm) != 1 else \
            cases.decide_at(A, arm[0], 0, extra=[le(lin(c=1), H), le(H, MAXD)], contradiction=True)
    R.require(ok3, 'depth', FS + '|too-deep-is-an-error', fs.where(deep[0][0]) if deep else fs.where(), 'IncludesTooDeep only when stack height - 1 >= max_depth', 'IncludesTooDeep can be reported for an include whose depth (stack height - 1) is below max_depth (%s)' % why3)
    pops = [b for b, t in fs.calls() if callee_name(t).endswith('Vec::<T, A>::pop')]
    # ---- (b) path
    cb, ct = cps[0]
    a0 = paths.show_operand(fs, ct['args'][0])
    a1 = paths.show_operand(fs, ct['args'][1])
    ok = a0 == 'Rc<T, A>::deref(%s.0)' % TOP and re.search(r'@Include\.0\.path\)$', a1) is not None
    R.require(ok, 'path', FS + '|resolved-against-includer', fs.where(cb), 'compute_path(top-of-stack path, directive path)', 'compute_path is called with (%s, %s)' % (a0, a1))
    op = paths.show_operand(fs, ot['args'][0])
    R.require('fs::compute_path(' in op, 'path', FS + '|opens-computed-path', fs.where(ob), 'the computed path is what gets opened', 'File::open is given %s' % op)
    cp = F.fn('zone_file::fs::compute_path')
    j = [t for b, t in cp.calls() if callee_name(t).endswith('Path::join')]
    ok = len(j) == 1 and 'Path::parent(arg1)' in paths.show_operand(cp, j[0]['args'][0]) and 'convert_to_path(arg2)' in paths.show_operand(cp, j[0]['args'][1])
    R.require(ok, 'path', 'zone_file::fs::compute_path|parent-join', cp.where(), 'includer.parent().join(directive path)', 'compute_path does not join the directive path onto the includer\'s parent directory')
    # ---- (c) new parser
    nb, nt = nfi[0]
    args = [paths.show_operand(fs, a) for a in nt['args']]
    ok = args[0] == TOP + '.2' and args[1].startswith('File::open(') and re.search(r'@Include\.0\.origin$', args[2]) is not None
    R.require(ok, 'include', FS + '|new-parser-from-includer', fs.where(nb), 'new_for_include(includer parser, opened file, directive origin)', 'new_for_include is called with %s' % args)
    pb, pt_ = push[0]
    tup = paths.show_operand(fs, pt_['args'][1])
    ok = tup.startswith('tuple{fs::compute_path(') and 'Parser::new_for_include(' in tup and paths.show_operand(fs, pt_['args'][0]) == 'arg1.files'
    R.require(ok, 'include', FS + '|pushed', fs.where(pb), 'the new (path, line, parser) is pushed on the stack', 'the pushed entry is %s' % tup[:200])
    rec = [b for b, t in fs.calls() if callee_name(t) == FS]
    R.require(any(fs.dominates(pb, r) for r in rec), 'include', FS + '|continues-in-included-file', fs.where(), 'parsing continues with the included file', 'after pushing, parsing does not continue')
    # ---- (d) new_for_include
    ni = F.fn('zone_file::Parser::<S>::new_for_include')
    ctxs = [(b, st) for b, bl in enumerate(ni.blocks) if not bl['cleanup'] for st in bl['stmts'] if st['k'] == 'assign' and st['rv']['k'] == 'agg' and st['rv']['def'].endswith('zone_file::Context')]
    ok = len(ctxs) == 1
    if ok:
        b, st = ctxs[0]
        f = dict(zip(st['rv']['fields'], [paths.show_operand(ni, o) for o in st['rv']['ops']]))
        ok = f.get('origin') == 'arg3' and f.get('previous_owner') == 'Option<T>::clone(arg1.context.previous_owner)' and f.get('previous_ttl') == 'arg1.context.previous_ttl' and f.get('previous_class') == 'arg1.context.previous_class' and f.get('default_ttl') == 'arg1.context.default_ttl' \
            and 'Option::is_some(arg3) not in [0]' in paths.dom_guards(ni, b)
    cl = [b for b, t in ni.calls() if callee_name(t).endswith('Context as std::clone::Clone>::clone') and paths.show_operand(ni, t['args'][0]) == 'arg1.context']
    ok = ok and len(cl) == 1 and 'Option::is_some(arg3) in [0]' in paths.dom_guards(ni, cl[0])
    R.require(ok, 'context', ni.gpath + '|origin-scoping', ni.where(), 'origin: the directive\'s if given; everything else inherited', 'new_for_include does not (use the given origin | clone the includer\'s context) with all other fields inherited: %s' % (f if ctxs else None))
    # ---- (e) end of an included file
    uc = calls_in(fs, 'zone_file::Parser::<S>::update_context_from_include')
    ok = len(uc) == 1 and len(pops) == 1
    if ok:
        ub, ut = uc[0]
        a = [paths.show_operand(fs, x) for x in ut['args']]
        ok = a[0] == TOP + '.2' and a[1] == 'Option::unwrap(Vec::pop(arg1.files)).2' and fs.dominates(pops[0], ub)
        # every path from the pop either updates the parent and recurses, or (empty stack) returns None
        nones = [b for b, bl in enumerate(fs.blocks) if not bl['cleanup'] for st in bl['stmts'] if st['k'] == 'assign' and st['lhs']['l'] == 0 and st['rv']['k'] == 'agg' and st['rv']['def'].endswith('Option::None')]
        leak = fs.find_path(fs.blocks[pops[0]]['term']['t'], lambda x: x in rec or fs.blocks[x]['term']['k'] == 'ret', avoid={ub} | set(nones))
        ok = ok and leak is None
    R.require(ok, 'context', FS + '|pop-updates-parent', fs.where(), 'pop, then parent.update_context_from_include(popped parser), then continue', 'the popped parser\'s context is not handed to the parent on every path')
    up = F.fn('zone_file::Parser::<S>::update_context_from_include')
    ctxs = [st for bl in up.blocks if not bl['cleanup'] for st in bl['stmts'] if st['k'] == 'assign' and st['rv']['k'] == 'agg' and st['rv']['def'].endswith('zone_file::Context')]
    ok = len(ctxs) == 1
    if ok:
        f = dict(zip(ctxs[0]['rv']['fields'], [paths.show_operand(up, o) for o in ctxs[0]['rv']['ops']]))
        ok = f == {'origin': 'Option<T>::clone(arg1.context.origin)', 'previous_owner': 'arg2.context.previous_owner', 'previous_ttl': 'arg2.context.previous_ttl', 'previous_class': 'arg2.context.previous_class', 'default_ttl': 'arg2.context.default_ttl'}
    R.require(ok, 'context', up.gpath + '|origin-restored', up.where(), 'origin stays the includer\'s, everything else comes from the included file', 'update_context_from_include builds %s' % (f if ctxs else None))
    # ... and on every path: a conditional hand-over (seed C25-e: skipped when the previous owner is unchanged) drops the
    # $TTL / last TTL / last class an include sets without introducing a new owner
    aggb = [b for b, bl in enumerate(up.blocks) if not bl['cleanup'] for st in bl['stmts'] if st['k'] == 'assign' and st['rv']['k'] == 'agg' and st['rv']['def'].endswith('zone_file::Context')]
    rets = [b for b in up.reachable(0) if not up.blocks[b]['cleanup'] and up.blocks[b]['term']['k'] == 'ret']
    ok = len(aggb) == 1 and bool(rets) and all(up.dominates(aggb[0], r) for r in rets)
    R.require(ok, 'context', up.gpath + '|unconditional', up.where(), 'the hand-over of the included file\'s context lies on every path to the return', 'update_context_from_include can return without taking over the included file\'s context (a return not dominated by the Context construction)')
    R.floor('include', 4)
    R.floor('depth', 2)
    R.floor('path', 3)
    R.floor('context', 3)
