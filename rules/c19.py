"""C19 — RDATA equality and de-duplication (static clauses)."""
import re

from qv.facts import callee_name, const_name, is_place, op_str
from qv.flow import slice_of
from qv import paths, tables
from qv.rulelib import calls_in
from rules import rdata_tables as rt

MODE = 'lib'
EXPLANATION = """
Decides structural clauses of C19:
(a) symmetry guard: wherever an equality function returns `true` from the arm in which test_n_name_fields reported that
all name fields are valid and equal, the path is guarded by length tests that mention BOTH operands (a dominating
len(a) == len(b), or the consumed length compared with len(a) and with len(b)); otherwise a name and the same name plus
trailing junk compare equal in one order only;
(b) dispatch agreement: Rdata::equals uses name-aware comparison for exactly the (type, class) pairs for which
Rdata::components yields embedded names and Rdata::read decompresses (the pre-RFC 3597 name-bearing types), and plain
octet comparison for everything else;
(c) RdataSetOwned::insert compares the candidate with every existing member through Rdata::equals under the set's class
and type, returns false without touching the buffer on a match, and otherwise appends at the end;
(d) that scan sees every stored member: the member iterator (<rdata_set::Iter as Iterator>::next) returns None only when
fewer than two octets remain or the declared length does not fit -- decided at every None return from the facts in
force there, including the failure postconditions of slice::get / try_into on that path (linear engine with cases).
(shared) octet-level ASCII case folding (eq_ignore_ascii_case, to/make_ascii_lowercase on octets) is called only from the
name-label code: RDATA outside embedded names is compared octet for octet;
(e) the name-aware comparison decides the result only for well-formed RDATA: in the arm in which all name fields were
found valid and equal, `true` or a comparison of only the tail happens only where len(RDATA) == consumed name length + the
size of the type's fixed fields is implied (SOA 20, CH A 2, MINFO / plain names 0); otherwise all octets are compared.
Not decided: reflexivity / transitivity over arbitrary octets.
"""
ASSUMPTIONS = ['every CFG path is assumed feasible', 'Name equality is case-insensitive and implies equal wire length (C16)']

HELP = 'rr::rdata::helpers::'


def check(R, F):
    from rules.name_rules import check_case_folding_callers
    check_case_folding_callers(R, F)

    # ---- (a)
    users = []
    for gp, fn in F.fns.items():
        if not (gp.startswith('rr::rdata::')):
            continue
        cs = calls_in(fn, HELP + 'test_n_name_fields')
        if cs:
            users.append((fn, cs))
    for fn, cs in users:
        for cb, ct in cs:
            a_txt = paths.show_operand(fn, ct['args'][0])
            b_txt = paths.show_operand(fn, ct['args'][1])
            # blocks that make the function return true inside the Some(Some(len)) arm
            trues = []
            for b, blk in enumerate(fn.blocks):
                if blk['cleanup']:
                    continue
                for st in blk['stmts']:
                    if st['k'] == 'assign' and not st['lhs']['p'] and st['lhs']['l'] == 0 and st['rv']['k'] == 'use' and st['rv']['op']['k'] == 'const' and const_name(st['rv']['op']) == 'true':
                        trues.append(b)
            n = 0
            for b in trues:
                g = paths.dom_guards(fn, b)
                if not any('test_n_name_fields' in x and '@Some.0) in [1]' in x for x in g):
                    continue
                n += 1
                lens = [x for x in g if re.match(r'^(Eq|Ne)\(', x) and 'len(' in x]

                def mentions(txt):
                    base = re.sub(r'\.octets$', '', txt)
                    return any(('len(%s)' % txt) in x or ('len(%s)' % base) in x or ('len(%s.octets)' % base) in x for x in lens)
                both = mentions(a_txt) and mentions(b_txt)
                R.require(both, 'symmetry', '%s|true-under-both-lengths#%d' % (fn.gpath, n), fn.where(b),
                          '`true` is returned under length tests over both operands',
                          '`true` is returned when all name fields matched, but the length tests on that path (%s) mention only one operand: '
                          'equals(X, X+junk) and equals(X+junk, X) disagree' % (lens or 'none'))
            if n == 0:
                # no direct `true`: the function must compare the remainders of both operands symmetrically under equal lengths
                g_all = [x for b in range(len(fn.blocks)) for x in paths.dom_guards(fn, b)]
                eqlen = any(re.match(r'^Ne\(Rdata::len\(arg1\),Rdata::len\(arg2\)\) in \[0\]$', x) for x in g_all)
                R.require(eqlen, 'symmetry', '%s|equal-lengths-first' % fn.gpath, fn.where(cb), 'name-field comparison happens only under len(a) == len(b)', 'test_n_name_fields is used without a len(a) == len(b) guard and without a direct symmetric length test')
    R.floor('symmetry', 4, 'names_equal, equals_as_ch_a, equals_as_soa, equals_as_minfo')
    check_wellformed_only(R, F, users)
    # callers of names_equal on sub-slices (MX, SRV): both slices start at the same constant offset, under equal lengths
    for gp, fn in F.fns.items():
        if not gp.startswith('rr::rdata::') or gp == 'rr::rdata::Rdata::equals':
            continue
        for b, t in calls_in(fn, HELP + 'names_equal'):
            a = paths.show_operand(fn, t['args'][0])
            c = paths.show_operand(fn, t['args'][1])
            ma = re.match(r'^index::index\(arg1\.octets,ops::RangeFrom\{(\d+)_usize\}\)$', a)
            mc = re.match(r'^index::index\(arg2\.octets,ops::RangeFrom\{(\d+)_usize\}\)$', c)
            R.require(bool(ma and mc and ma.group(1) == mc.group(1)), 'symmetry', '%s|names_equal-same-offset' % gp, fn.where(b),
                      'names_equal over both operands from offset %s' % (ma.group(1) if ma else '?'), 'names_equal is applied to differently positioned slices: %s vs %s' % (a, c))

    # ---- (b) dispatch agreement
    eq = F.fn(rt.EQUALS)
    comp = F.fn(rt.COMPONENTS)
    rd = F.fn(rt.READ)
    te, _ = rt.extract(eq)
    tc, _ = rt.extract(comp)
    tr, _ = rt.extract(rd)
    if te is None or tc is None or tr is None:
        R.bad('dispatch', 'rdata|tables', eq.where(), 'cannot extract the (type, class) dispatch tables (shape not recognised, fails closed)')
    else:
        name_aware_eq = {k for k, v in te.items() if k[0] != '_' and v and not v[0].startswith('cmp::')}
        with_names = {k for k, v in tc.items() if k[0] != '_' and v and 'for_nameless' not in v[0]}
        decompressed = {k for k, v in tr.items() if k[0] != '_' and v and 'closure#0' in v[0]}
        R.require(name_aware_eq == with_names, 'dispatch', 'equals-vs-components', eq.where(), 'same %d (type,class) pairs' % len(with_names),
                  'name-aware equality for %s but embedded names for %s (difference %s)' % (sorted(name_aware_eq), sorted(with_names), sorted(name_aware_eq ^ with_names)))
        R.require(name_aware_eq == decompressed, 'dispatch', 'equals-vs-read', eq.where(), 'same pairs as the decompressing read arms',
                  'name-aware equality for %s but decompression for %s (difference %s)' % (sorted(name_aware_eq), sorted(decompressed), sorted(name_aware_eq ^ decompressed)))
        spec = {(2, '*'), (3, '*'), (4, '*'), (5, '*'), (7, '*'), (8, '*'), (9, '*'), (12, '*'), (6, '*'), (14, '*'), (15, '*'), (33, 1), (1, 3)}
        R.require(name_aware_eq == spec, 'dispatch', 'equals-vs-rfc3597', eq.where(), 'exactly the RFC 1035 name-bearing types + IN SRV + CH A',
                  'name-aware equality pairs %s differ from the frozen list (difference %s)' % (sorted(name_aware_eq, key=str), sorted(name_aware_eq ^ spec, key=str)))
        dflt = te.get(('_', '*'))
        R.require(bool(dflt) and dflt[0].startswith('cmp::'), 'dispatch', 'equals-default-bitwise', eq.where(), 'all other types compare octet-wise', 'default arm of Rdata::equals is %s' % dflt)
        for k in sorted(name_aware_eq, key=str):
            R.ok('dispatch', 'equals-row-%s-%s' % k, eq.where(), '%s -> %s' % (k, te[k][0]), nontrivial=False)
    R.floor('dispatch', 10)

    # ---- (c) RdataSetOwned::insert
    ins = F.fn('rr::rdata_set::RdataSetOwned::insert')
    eqc = calls_in(ins, rt.EQUALS)
    ok = len(eqc) == 1
    if ok:
        b, t = eqc[0]
        args = [paths.show_operand(ins, a) for a in t['args']]
        ok = args[0] == 'arg4' and args[2] == 'arg2' and args[3] == 'arg3' and 'next' in args[1]
        R.require(ok, 'dedup', 'rr::rdata_set::RdataSetOwned::insert|compares-with-equals', ins.where(b), 'candidate.equals(existing, class, type) over the iterator', 'insert compares %s' % args)
        # false return under equals == true; appends are not reachable from that edge and are reached only when the loop ended
        appends = [bb for bb, tt in ins.calls() if callee_name(tt).endswith('extend_from_slice')]
        falses = [bb for bb, blk in enumerate(ins.blocks) for st in blk['stmts'] if st['k'] == 'assign' and st['lhs']['l'] == 0 and not st['lhs']['p'] and st['rv']['k'] == 'use' and st['rv']['op']['k'] == 'const' and const_name(st['rv']['op']) == 'false']
        okf = bool(falses) and all(any(re.match(r'^Rdata::equals\(.*\) not in \[0\]$', x) for x in paths.dom_guards(ins, fb)) for fb in falses)
        oka = len(appends) == 2 and all(any(re.search(r'Iterator::next|::next\(', x) and x.endswith('in [0]') for x in paths.dom_guards(ins, ab)) for ab in appends) \
            and not any(ins.find_path(fb, lambda x: x in appends) for fb in falses)
        R.require(okf, 'dedup', 'rr::rdata_set::RdataSetOwned::insert|duplicate-dropped', ins.where(), 'returns false exactly under equals == true', 'the `false` return is not confined to the equals == true edge')
        R.require(oka, 'dedup', 'rr::rdata_set::RdataSetOwned::insert|append-after-full-scan', ins.where(), 'appends (length prefix + octets) only after the scan found no equal member', 'the append is not confined to the exhausted-iterator edge, or is reachable after a match')
        # appended data derive from the candidate only
        for ab in appends:
            sl = slice_of(ins, ins.blocks[ab]['term']['args'][1])
            R.require(sl.params() <= {4} and 4 in sl.params(), 'dedup', 'rr::rdata_set::RdataSetOwned::insert|appends-candidate#%d' % (appends.index(ab) + 1), ins.where(ab), 'appended octets derive from the candidate', 'appended octets derive from parameters %s' % sorted(sl.params()))
    else:
        R.bad('dedup', 'rr::rdata_set::RdataSetOwned::insert|compares-with-equals', ins.where(), 'expected exactly one Rdata::equals call, found %d' % len(eqc))
    R.floor('dedup', 5)
    check_member_iterator(R, F)


def check_member_iterator(R, F):
    """(d) The scan in insert sees every stored member: <rdata_set::Iter as Iterator>::next gives up (returns None) only
    when fewer than two octets remain or the member's declared length does not fit in what remains.  Decided at every
    None return: the facts in force there -- including WHY the fallible call on that path failed (failure
    postconditions of slice::get / try_into / checked arithmetic) -- must contradict
    `remaining >= 2  and  declared length + 2 <= remaining`."""
    from qv import cases
    from qv.bounds import Analyzer, add, le, lin
    from rules import e5
    cand = [gp for gp in F.fns if gp.startswith('<rr::rdata_set::Iter') and gp.endswith('as std::iter::Iterator>::next')]
    if len(cand) != 1:
        R.bad('member-scan', 'rr::rdata_set::Iter::next|anchor', '', 'cannot find the member iterator of RdataSet (found %d candidates)' % len(cand))
        return
    it = F.fn(cand[0])
    A = Analyzer(it, F, e5.make_summary(F))
    # the declared length: the u16 read from the first two octets
    reads = [(b, t) for b, t in it.calls() if re.search(r'<impl u16>::from_(ne|le|be)_bytes$', callee_name(t))]
    if len(reads) != 1 or reads[0][1]['dest']['p']:
        R.bad('member-scan', it.gpath + '|declared-length', it.where(), 'expected exactly one u16::from_*_bytes call that reads the length prefix, found %d: shape not recognised' % len(reads))
        return
    decl = lin(A.atom_local(reads[0][1]['dest']['l']))
    curs = [f for f in F.struct('rr::rdata_set::Iter')['variants'][0]['fields']] if 'rr::rdata_set::Iter' in F.structs else []
    rem = lin('len:(*(*_1).cursor)')
    spec = [le(lin(c=2), rem), le(add(decl, lin(c=2)), rem)]
    sites = []
    for (b, i, kind, node) in it.defs().get(0, []):
        if it.blocks[b]['cleanup']:
            continue
        if kind == 'assign' and node['rv']['k'] == 'agg' and node['rv']['def'].endswith('Option::None'):
            sites.append((b, i))
        elif kind == 'call' and 'FromResidual' in callee_name(node):
            sites.append((b, None))
        elif kind == 'assign' and node['rv']['k'] == 'agg' and node['rv']['def'].endswith('Option::Some'):
            continue
        else:
            R.bad('member-scan', it.gpath + '|returns', it.where(b), 'a return value of Iter::next is neither Some(..), None nor a `?` residual: shape not recognised')
            return
    if not sites:
        R.bad('member-scan', it.gpath + '|returns', it.where(), 'no None return found in Iter::next (anchor)')
        return
    # the length atom used by the code must be the one the specification names
    used = any('len:(*(*_1).cursor)' in c for b, t in it.calls() if callee_name(t) == 'core::slice::<impl [T]>::get' for alt in (e5.fail_get(A, b, t) or []) for c in alt) \
        or any('len:(*(*_1).cursor)' in c for (b, i) in sites for c in A.facts_at(b, i))
    if not used:
        R.bad('member-scan', it.gpath + '|cursor', it.where(), 'no bounds fact about self.cursor is visible in Iter::next: shape not recognised')
        return
    for k, (b, i) in enumerate(sites):
        more = e5.fail_alternatives(A, b, i)
        ok, why = cases.decide_at(A, b, i, extra=spec, contradiction=True, more_choices=more)
        R.require(ok, 'member-scan', it.gpath + '|none-only-at-end#%d' % k, it.where(b), 'None only when < 2 octets remain or the declared length does not fit',
                  'Iter::next returns None at %s although two or more octets remain and the declared length fits (%s): a stored member is skipped, so insert\'s duplicate scan and every reader miss it' % (it.where(b), why))
    R.floor('member-scan', 2)


# fixed-size part that follows the name fields in a well-formed RDATA of the type (RFC 1035 section 3.3: SOA has five
# 32-bit fields, CH A a 16-bit address, MINFO and the plain name types nothing)
TAIL = {'rr::rdata::std13::<impl rr::rdata::Rdata>::equals_as_ch_a': 2, 'rr::rdata::std13::<impl rr::rdata::Rdata>::equals_as_soa': 20,
        'rr::rdata::std13::<impl rr::rdata::Rdata>::equals_as_minfo': 0, 'rr::rdata::helpers::names_equal': 0}


def check_wellformed_only(R, F, users):
    """(e) Case-insensitive comparison of the embedded names decides the result only for WELL-FORMED RDATA: in the arm in
    which test_n_name_fields found all name fields valid and equal (consumed length L), a `true` result or a comparison of
    only part of the octets (the tail from L on) happens only where the facts in force imply len(RDATA) == L + K, K being
    the size of the type's fixed fields; otherwise the function must fall back to comparing all octets.  Decided with the
    linear engine at each such site."""
    from qv.bounds import Analyzer, add, eq as eq_, lin
    from rules import e5
    for fn, cs in users:
        K = TAIL.get(fn.gpath)
        if K is None:
            R.bad('wellformed-only', fn.gpath + '|tail-size', fn.where(), 'no fixed-field size is recorded for this user of test_n_name_fields: shape not recognised')
            continue
        A = Analyzer(fn, F, e5.make_summary(F))
        for cb, ct in cs:
            if ct['dest']['p']:
                continue
            r = ct['dest']['l']
            Lp = lin(A.atom_place({'l': r, 'p': [{'down': 1, 'n': 'Some'}, {'f': 0, 'n': '0', 'ty': ''}, {'down': 1, 'n': 'Some'}, {'f': 0, 'n': '0', 'ty': ''}], 'ty': ''}))
            a_txt = paths.show_operand(fn, ct['args'][0])
            b_txt = paths.show_operand(fn, ct['args'][1])
            whole = {a_txt, b_txt, re.sub(r'\.octets$', '', a_txt), re.sub(r'\.octets$', '', b_txt)}
            sites = []
            for b, blk in enumerate(fn.blocks):
                if blk['cleanup'] or not any('test_n_name_fields' in x and '@Some.0) in [1]' in x for x in paths.dom_guards(fn, b)):
                    continue
                for i, st in enumerate(blk['stmts']):
                    if st['k'] == 'assign' and not st['lhs']['p'] and st['lhs']['l'] == 0 and st['rv']['k'] == 'use' and st['rv']['op']['k'] == 'const' and const_name(st['rv']['op']) == 'true':
                        sites.append((b, i, 'returns true'))
                t = blk['term']
                if t['k'] == 'call' and re.search(r'PartialEq<[^>]*>( for [^>]*)?>::(eq|ne)$', callee_name(t)) and len(t['args']) == 2:
                    ops = [paths.show_operand(fn, a) for a in t['args']]
                    if not all(o in whole for o in ops):
                        sites.append((b, None, 'compares %s' % ops))
            for k, (b, i, what) in enumerate(sites):
                A._site = (b, i)
                goal_total = lin('len:(*_1).octets') if fn.argc >= 1 and 'Rdata' in fn.local_ty(1) else lin('len:(*_1)')
                ok, facts, res = A.prove(b, i, eq_(goal_total, add(Lp, lin(c=K))))
                R.require(ok, 'wellformed-only', '%s|%s#%d' % (fn.gpath, 'partial-comparison-needs-exact-length', k), fn.where(b),
                          'name-aware result only with len == names + %d' % K,
                          '%s %s in the arm where the names matched case-insensitively, without len(RDATA) == consumed name length + %d being implied: malformed RDATA whose names differ only in case compare equal instead of falling back to the octet-wise comparison' % (fn.gpath.split('::')[-1], what, K))
    R.floor('wellformed-only', 3)
