"""C06 — zone lookups follow RFC 1034 / RFC 4592 (static clauses on the tree walk)."""
import re

from qv.facts import callee_name, const_name
from qv import paths, tables
from qv.rulelib import calls_in, enum_variants

MODE = 'lib'
EXPLANATION = """
Decides the structure of the lookup walk in db::hash_map_tree::zone:
(a) lookup_base returns WrongZone exactly under !unchecked && !name.eq_or_subdomain_of(apex); otherwise it walks from the
apex with level = len(name) - len(apex), the caller's search_below_cuts and at_apex = true;
(b) lookup_impl returns a Referral only under !at_apex && !search_below_cuts && the node has an NS RRset, the referral names
this node and that RRset, and the test precedes the level == 0 test on every path (topmost cut wins, also at the queried
name itself);
(c) at level 0 the node's own data is found with no source of synthesis; otherwise the walk descends into the child for
name[level-1] with level-1, the same search_below_cuts and at_apex = false;
(d) the wildcard child `*` is consulted only when that child is missing, and yields the `*` node's data with the `*`
node's name as source of synthesis; NxDomain only when both are missing;
(e) lookup / lookup_addrs / lookup_all map Referral, NxDomain and WrongZone one-to-one, and lookup prefers an RRset of the
requested type over a CNAME over NoRecords, passing the source of synthesis through.
(shared) the subdomain relation Name::eq_or_subdomain_of compares whole labels right to left through Label::eq, never raw
wire octets (a length octet inside a label must not be mistaken for a label boundary).
Not decided: agreement with an RFC 4592 model on arbitrary zones (empty non-terminals, closest encloser): value-level.
The decided clauses are necessary, far from sufficient.
"""
ASSUMPTIONS = ['every CFG path is assumed feasible']
Z = 'db::hash_map_tree::zone::'


def returns(fn):
    """[(block, kind, ops text, dominating guards)] for assignments / calls into the return place."""
    out = []
    for b, bl in enumerate(fn.blocks):
        if bl['cleanup']:
            continue
        for st in bl['stmts']:
            if st['k'] == 'assign' and st['lhs']['l'] == 0 and not st['lhs']['p'] and st['rv']['k'] == 'agg':
                out.append((b, st['rv']['def'].split('::')[-1], [paths.show_operand(fn, o) for o in st['rv']['ops']], paths.GuardList(paths.dom_guards(fn, b, variants=False))))
        t = bl['term']
        if t['k'] == 'call' and t['dest']['l'] == 0 and not t['dest']['p']:
            out.append((b, 'call ' + paths.short(callee_name(t)), [paths.show_operand(fn, a) for a in t['args']], paths.GuardList(paths.dom_guards(fn, b, variants=False))))
    return out


def check(R, F):
    from rules.name_rules import check_label_suffix
    check_label_suffix(R, F)

    lb = F.fn(Z + 'HashMapTreeZone::lookup_base')
    rs = returns(lb)
    wz = [r for r in rs if r[1] == 'WrongZone']
    ok = len(wz) == 1 and paths.guards_equiv(wz[0][3], ['arg3.unchecked in [0]', 'Name::eq_or_subdomain_of(arg2,cast(arg1.apex.name.0.pointer)) in [0]'])
    R.require(ok, 'wrong-zone', lb.gpath + '|condition', lb.where(wz[0][0]) if wz else lb.where(), 'WrongZone iff !unchecked && !eq_or_subdomain_of(apex)', 'WrongZone is returned under %s' % (wz[0][3] if wz else None))
    cl = [r for r in rs if r[1].startswith('call') and 'lookup_impl' in r[1]]
    # the walk's parameters by ROLE, read off what lookup_base passes: the apex node, the name looked up, the number of
    # labels below the apex, search_below_cuts (the flag or the options struct that carries it) and at_apex = true
    role_of = {'arg1.apex': 'node', 'arg2': 'name', 'Sub(Name::len(arg2),Name::len(HashMapTreeZone::name(arg1)))': 'level', 'arg3.search_below_cuts': 'sbc', 'arg3': 'opts', 'true': 'apex'}
    roles = {}
    if len(cl) == 1:
        for k, a in enumerate(cl[0][2]):
            if a in role_of and role_of[a] not in roles:
                roles[role_of[a]] = k + 1
    ok = len(cl) == 1 and len(cl[0][2]) == 5 and set(roles) in ({'node', 'name', 'level', 'sbc', 'apex'}, {'node', 'name', 'level', 'opts', 'apex'}) and len(rs) == 2
    R.require(ok, 'wrong-zone', lb.gpath + '|walk-from-apex', lb.where(), 'walks from the apex with level = len(name) - len(apex), at_apex = true', 'lookup_base starts the walk with %s' % (cl[0][2] if cl else None))
    # the walk is entered on every other path (unchecked, or inside the zone)
    li = F.fn(Z + 'lookup_impl')
    # canonical parameter names used in the rule texts below -> the walk's actual parameters
    canon_pos = {1: 'node', 2: 'name', 3: 'level', 4: 'sbc', 5: 'apex'}
    actual = {}
    for k, role in canon_pos.items():
        if role in roles:
            actual[k] = 'arg%d' % roles[role]
        elif role == 'sbc' and 'opts' in roles:
            actual[k] = 'arg%d.search_below_cuts' % roles['opts']
    recursive = any(callee_name(t) == li.gpath for b_, t in li.calls())
    # The walk's state is (node, level, at_apex).  Recursive form: the parameters arg1 / arg3 / arg5, the step is the
    # self-call.  Iterative form: mutable locals initialised from those parameters at entry, the step is the one later
    # assignment to each of them, followed by the back edge.  The same conditions are required of both; `T` rewrites the
    # parameter names into the names the state has in the form at hand.
    state, steps = {}, {}
    if not recursive:
        for k in (1, 3, 5):
            if k not in actual:
                continue
            for l, ds in li.defs().items():
                ds = [d for d in ds if not li.blocks[d[0]]['cleanup']]
                if l <= li.argc or len(ds) != 2 or not li.locals[l]['name']:
                    continue
                init = [d for d in ds if d[0] == 0 and d[2] == 'assign' and d[3]['rv']['k'] == 'use' and paths.show_operand(li, d[3]['rv']['op']) == actual[k]]
                rest = [d for d in ds if d not in init]
                if len(init) == 1 and len(rest) == 1 and rest[0][2] == 'assign':
                    state[k] = 'var:%s' % li.locals[l]['ty']
                    steps[k] = rest[0]
    form_ok = len(actual) == 5 and (recursive or set(state) == {1, 3, 5})
    if not form_ok:
        R.bad('walk', li.gpath + '|form', li.where(), 'lookup_impl neither calls itself nor keeps node / level / at_apex in three locals that are initialised from its parameters and reassigned once: shape not recognised')
    else:
        def T(x):
            if isinstance(x, list):
                return [T(y) for y in x]
            return re.sub(r'\barg([1-5])\b', lambda m: state.get(int(m.group(1)), actual.get(int(m.group(1)), m.group(0))), x)
        rs = returns(li)
        ref = [r for r in rs if r[1] == 'Referral']
        ok = len(ref) == 1 and paths.guards_equiv(ref[0][3], T(['arg5 in [0]', 'arg4 in [0]', 'discr(RrsetList::lookup(arg1.data.rrsets,Type(2_u16))) in [1]']))
        R.require(ok, 'referral', li.gpath + '|condition', li.where(ref[0][0]) if ref else li.where(), 'Referral iff !at_apex && !search_below_cuts && NS RRset at this node', 'Referral is returned under %s' % (ref[0][3] if ref else None))
        if ref:
            txt = ref[0][2][0]
            R.require(T('arg1.name') in txt and T('RrsetList::lookup(arg1.data.rrsets,Type(2_u16))') in txt, 'referral', li.gpath + '|names-this-node', li.where(ref[0][0]), 'child_zone = this node\'s name, ns_rrset = this node\'s NS RRset', 'the referral is built from %s' % txt)
        lvl = [b for b, bl in enumerate(li.blocks) if bl['term']['k'] == 'switch' and paths.show_operand(li, bl['term']['op']) == T('Eq(arg3,0_usize)')]
        cut = [b for b, bl in enumerate(li.blocks) if bl['term']['k'] == 'switch' and paths.show_operand(li, bl['term']['op']) == T('arg5')]
        ok = len(lvl) == 1 and len(cut) == 1 and li.dominates(cut[0], lvl[0])
        R.require(ok, 'referral', li.gpath + '|cut-test-before-level-test', li.where(), 'the delegation test precedes the level == 0 test', 'the level == 0 test is reachable without the delegation test')
        fd = [r for r in rs if r[1] == 'Found']
        f0 = [r for r in fd if T('Eq(arg3,0_usize) not in [0]') in r[3]]
        R.require(len(f0) == 1 and f0[0][2] == T(['arg1.data', 'Option::None{}']), 'walk', li.gpath + '|level0-own-data', li.where(), 'level 0: this node\'s data, no source of synthesis', 'at level 0 lookup_impl returns %s' % (f0[0][2] if f0 else None))
        CHILD = T('HashMap::get(arg1.children,Name::index(arg2,Sub(arg3,1_usize)))')
        if recursive:
            rec = [r for r in rs if r[1].startswith('call') and 'lookup_impl' in r[1]]
            by_role = {}
            if len(rec) == 1 and len(rec[0][2]) == 5:
                for role, pos in roles.items():
                    by_role[role] = rec[0][2][pos - 1]
            sbc_ok = by_role.get('sbc') == T('arg4') or ('opts' in roles and by_role.get('opts') == 'arg%d' % roles['opts'])
            ok = len(rec) == 1 and by_role.get('name') == T('arg2') and by_role.get('level') == T('Sub(arg3,1_usize)') and sbc_ok and by_role.get('apex') == 'false' and by_role.get('node', '').startswith(CHILD + '@Some.0') and \
                ('discr(%s) in [1]' % CHILD) in rec[0][3] and T('Eq(arg3,0_usize) in [0]') in rec[0][3]
            R.require(ok, 'walk', li.gpath + '|descend', li.where(rec[0][0]) if rec else li.where(), 'descends into children[name[level-1]] with level-1, same search_below_cuts, at_apex = false', 'the recursive step is %s under %s' % (rec[0][2] if rec else None, rec[0][3] if rec else None))
            n_out = len(rs)
        else:
            vals, ok = {}, True
            for k, d in steps.items():
                vals[k] = paths.show_operand(li, d[3]['rv']['op']) if d[3]['rv']['k'] == 'use' else ('%s(%s,%s)' % (d[3]['rv']['op'].replace('WithOverflow', ''), paths.show_operand(li, d[3]['rv']['a']), paths.show_operand(li, d[3]['rv']['b'])) if d[3]['rv']['k'] == 'bin' else '?')
                g = paths.GuardList(paths.dom_guards(li, d[0], variants=False))
                ok = ok and ('discr(%s) in [1]' % CHILD) in g and T('Eq(arg3,0_usize) in [0]') in g
            ok = ok and vals[1].startswith(CHILD + '@Some.0') and vals[3] == T('Sub(arg3,1_usize)') and vals[5] == 'false'
            # the child is looked up with the level of this round (before it is decremented), and after the step the
            # walk goes round again: no return is reachable from the step without passing the loop head
            gets = [b_ for b_, t in li.calls() if paths.show_operand(li, {'k': 'copy', 'pl': t['dest']}) == CHILD] if ok else []
            ok = ok and len(gets) == 1 and li.dominates(gets[0], steps[3][0]) and not li.find_path(gets[0], lambda x: x == steps[3][0], avoid=()) is None
            heads = {h for x in range(len(li.blocks)) if x in li.idom() for h in li.succs()[x] if li.dominates(h, x)}
            last = max((d[0] for d in steps.values()), key=lambda b_: len(li.doms(b_)))
            ok = ok and len(heads) == 1 and li.find_path(last, lambda x: x in li.ret_blocks(), avoid=heads) is None
            R.require(ok, 'walk', li.gpath + '|descend', li.where(steps[1][0]), 'descends into children[name[level-1]] with level-1, same search_below_cuts, at_apex = false, then goes round again', 'the step of the walk assigns node/level/at_apex = %s' % vals)
            n_out = len(rs) + 1
        fw = [r for r in fd if r not in f0]
        miss = 'discr(%s) not in [1]' % CHILD
        STAR = T('HashMap::get(arg1.children,Label::asterisk())')
        ok = len(fw) == 1 and miss in fw[0][3] and ('discr(%s) in [1]' % STAR) in fw[0][3] and \
            fw[0][2][0] == STAR + '@Some.0.data' and fw[0][2][1].startswith('Option::Some{') and (STAR + '@Some.0.name') in fw[0][2][1]
        R.require(ok, 'wildcard', li.gpath + '|only-when-child-missing', li.where(fw[0][0]) if fw else li.where(), '`*` child used only when the exact child is missing; data and source of synthesis come from the `*` node', 'the wildcard arm is %s under %s' % (fw[0][2] if fw else None, fw[0][3] if fw else None))
        nx = [r for r in rs if r[1] == 'NxDomain']
        ok = len(nx) == 1 and miss in nx[0][3] and ('discr(%s) not in [1]' % STAR) in nx[0][3]
        R.require(ok, 'wildcard', li.gpath + '|nxdomain-when-both-missing', li.where(), 'NxDomain only when neither the child nor `*` exists', 'NxDomain is returned under %s' % (nx[0][3] if nx else None))
        R.require(n_out == 5, 'walk', li.gpath + '|exits', li.where(), 'exactly five outcomes', 'lookup_impl has %d outcomes' % n_out)
    # ---- (e)
    bv = enum_variants(F, Z + 'LookupBaseResult')
    for name, enum in (('lookup', 'db::zone::LookupResult'), ('lookup_addrs', 'db::zone::LookupAddrsResult'), ('lookup_all', 'db::zone::LookupAllResult')):
        fn = F.fn('<db::hash_map_tree::zone::HashMapTreeZone as db::zone::Zone>::' + name)
        sw = tables.switches(fn, r'^discr\(HashMapTreeZone::lookup_base\(arg1,arg2,arg\d\)\)$')
        if len(sw) != 1:
            R.bad('mapping', fn.gpath + '|dispatch', fn.where(), 'expected one switch on lookup_base\'s result')
            continue
        rows = tables.table(fn, sw[0][0])
        for v in ('Referral', 'NxDomain', 'WrongZone'):
            row = tables.row_for(rows, bv.index(v))
            aggs = {c.split('::')[-1] for c in row['consts'] if c.startswith('agg ' + enum)}
            R.require(aggs == {v}, 'mapping', '%s|%s' % (fn.gpath, v), fn.where(row['target']), '%s -> %s' % (v, v), 'base outcome %s is mapped to %s' % (v, sorted(aggs)))
        row = tables.row_for(rows, bv.index('Found'))
        aggs = {c.split('::')[-1] for c in row['consts'] if c.startswith('agg ' + enum)}
        want = {'Found', 'Cname', 'NoRecords'} if name == 'lookup' else {'Found'}
        R.require(aggs == want, 'mapping', '%s|Found' % fn.gpath, fn.where(row['target']), 'Found -> %s' % sorted(want), 'base outcome Found is mapped to %s' % sorted(aggs))
    lk = F.fn('<db::hash_map_tree::zone::HashMapTreeZone as db::zone::Zone>::lookup')
    rs = returns(lk)
    fnd = [r for r in rs if r[1] == 'Found']
    cn = [r for r in rs if r[1] == 'Cname']
    nr = [r for r in rs if r[1] == 'NoRecords']
    T1 = 'RrsetList::lookup(HashMapTreeZone::lookup_base(arg1,arg2,arg4)@Found.data.rrsets,arg3)'
    T2 = 'RrsetList::lookup(HashMapTreeZone::lookup_base(arg1,arg2,arg4)@Found.data.rrsets,Type(5_u16))'
    ok = len(fnd) == 1 and len(cn) == 1 and len(nr) == 1 and ('discr(%s) in [1]' % T1) in fnd[0][3] and ('discr(%s) not in [1]' % T1) in cn[0][3] and ('discr(%s) in [1]' % T2) in cn[0][3] and ('discr(%s) not in [1]' % T2) in nr[0][3] and ('discr(%s) not in [1]' % T1) in nr[0][3]
    R.require(ok, 'mapping', lk.gpath + '|type-then-cname-then-norecords', lk.where(), 'requested type, else CNAME, else NoRecords', 'lookup does not prefer the requested type over CNAME over NoRecords')
    R.floor('mapping', 13)
    R.floor('referral', 3)
    R.floor('wildcard', 2)
    R.floor('walk', 3)
    R.floor('wrong-zone', 2)
