"""Summaries and lemmas for name/wire.rs (used by C14, C15, C18, C01).

Each summary in rules.e5.POSTS that callers rely on is established here, either fully automatically (E5 at every
statement that produced the returned value) or as a *lemma*: a short hand proof whose premises -- the shape facts the
proof rests on -- are checked mechanically with flag-sensitive path queries, def-use tracing and E5 entailment.  A
lemma fails as soon as the code stops having the shape the proof used.
"""
import re

from qv.facts import callee_name, const_int, const_name, is_place
from qv import paths, origins
from qv.flags import FlagCFG, flag_defs
from qv.bounds import Analyzer, lin, add, le, lt, eq, fmt, entails
from rules import e5

NW = 'name::wire::'
LEN1 = lin('len:(*_1)')


def local_named(fn, name):
    ls = [i for i, l in enumerate(fn.locals) if l.get('name') == name]
    return ls[0] if len(ls) == 1 else None


def int_defs(fn, l):
    return [d for d in fn.defs().get(l, []) if not fn.blocks[d[0]]['cleanup']]


# ------------------------------------------------------------------ lemma: flag-latched counter
def latched_counter(an, flag, counter, site_block, goal_fn, limit=None):
    """Claim: at site_block (only reachable with flag == true) the counter satisfies goal_fn(counter) [and <= limit].

    Hand proof.  The flag is stored only as constants and becomes true at exactly one statement T.  Control reaches
    site_block only with the flag true, hence after T.  From T (flag true) every feasible path to site_block executes the
    counter update W exactly once and no other write to the counter; W computes counter' = e(pre-state) and e's inputs are
    unchanged between T and W.  So the value at site_block is e evaluated at T, where the guards that bound it are
    visible: goal_fn(e) is proved by E5 at T.  For the limit: every feasible path from W to site_block passes the false
    edge of a `counter > limit` test and the counter is not written afterwards.
    """
    fn = an.fn
    fc = FlagCFG(fn, flag)
    if not fc.usable:
        return False, 'the address of the flag is taken'
    ds = flag_defs(fn, flag)
    trues = [(b, i) for b, i, v in ds if v is True]
    if any(v is None for b, i, v in ds) or len(trues) != 1:
        return False, 'flag _%d is not set to true at exactly one place by constant stores (%s)' % (flag, ds)
    bT, iT = trues[0]
    vals = fc.value_at(site_block, None)
    if vals != {True}:
        return False, 'the site is reachable with flag values %s, expected only true' % sorted(map(str, vals))
    # counter writes on feasible paths T -> site
    st = fc.explore(bT, True, stop=lambda b: b == site_block, from_idx=iT)
    region = {b for b, v in st}
    if site_block not in region:
        return False, 'site not reachable from the flag store'
    writes = [(b, i, n) for (b, i, k, n) in int_defs(fn, counter) if (b in region and b != site_block) or (b == bT and i > iT)]
    if len(writes) != 1:
        return False, 'expected exactly one update of the counter between the flag store and the site, found %d' % len(writes)
    bW, iW, nW = writes[0]
    # W on every path, and not repeated
    if fc.reaches(bT, True, [site_block], avoid=[bW], from_idx=iT) and bW != bT:
        return False, 'a feasible path from the flag store to the site skips the counter update'
    st2 = fc.explore(bW, True, stop=lambda b: b == site_block)
    if any(b == bW for b, v in st2):
        return False, 'the counter update can be executed again before the site'
    an._site = (bW, iW)
    e = an.ev_rv(nW['rv'], 0, (bW, iW))
    if e is None:
        return False, 'the counter update is not linear'
    pre = {b for b, v in fc.explore(bT, True, stop=lambda b: b == bW, from_idx=iT)}
    for (wb, wi) in an.write_points(an.mutable_atoms(e)):
        wn = len(fn.blocks[wb]['stmts']) if wi is None else wi
        if (wb == bT and wn > iT and not (wb == bW and wn >= iW)) or (wb != bT and wb in pre and wb != bW) or (wb == bW and wb != bT and wn < iW):
            return False, 'inputs of the counter update change between the flag store and the update (%s)' % fn.where(wb)
    goals = goal_fn(e)
    ok, facts, res = an.prove(bT, iT, goals)
    if not ok:
        return False, 'at the flag store %s cannot prove %s' % (fn.where(bT), '; '.join(fmt(g) + ' <= 0' for g, r in zip(goals, res) if not r))
    if limit is not None:
        tests = []
        for b in region:
            t = fn.blocks[b]['term']
            if t['k'] == 'switch' and re.match(r'^Gt\(var:usize,%d_usize\)$' % limit, paths.show_operand(fn, t['op']) or ''):
                sl_ok = is_place(t['op'])
                tests.append(b)
        okl = False
        for g in tests:
            t = fn.blocks[g]['term']
            true_t = t['otherwise']
            false_t = [tb for v, tb in t['targets'] if v == 0]
            # the counter read by the test is the counter: its operand traces to a read of `counter`
            sd = fn.single_def(t['op']['pl']['l'])
            rd = sd and sd[3]['rv'].get('a')
            lv = origins.trace(fn, rd['pl']['l'], [], at=(g, 0)) if rd and is_place(rd) else []
            reads_counter = any(lf[0] == 'rv' and lf[3]['k'] == 'use' and is_place(lf[3]['op']) and lf[3]['op']['pl']['l'] == counter for lf in lv)
            if not reads_counter or not false_t:
                continue
            # every feasible path W -> site passes this test, its true edge cannot reach the site
            passes = (g == bW) or not fc.reaches(bW, True, [site_block], avoid=[g])
            if passes and site_block not in fn.reachable(true_t):
                okl = True
        if not okl:
            return False, 'no `counter > %d` test on every path from the update to the site' % limit
    return True, 'flag store at %s, single update at %s' % (fn.where(bT), fn.where(bW))


def ok_blocks(fn):
    """Blocks that build the Ok(..) value the function returns (directly into _0, or into the return slot of a helper
    that was spliced in and is moved to _0 afterwards)."""
    direct = [b for b, blk in enumerate(fn.blocks) if not blk['cleanup'] for st in blk['stmts']
              if st['k'] == 'assign' and not st['lhs']['p'] and st['lhs']['l'] == 0 and st['rv']['k'] == 'agg' and st['rv']['def'].endswith('Result::Ok')]
    lv = origins.trace(fn, 0, [('down', 'Ok')])
    traced = sorted({lf[1] for lf in lv if lf[0] == 'rv' and lf[3].get('k') == 'agg' and str(lf[3].get('def', '')).endswith('Result::Ok')})
    if lv and all(lf[0] == 'rv' and lf[3].get('k') == 'agg' for lf in lv) and traced:
        return traced
    return direct


def check_uncompressed_lemma(R, F, S, rule, gpath, sub):
    fn = F.fn(gpath)
    an = Analyzer(fn, F, S)
    # first try the plain proof at the success returns (enough when the loop is written with `break` values, where the
    # flag-latched and increment facts of E5 carry the bound); the lemma below handles the `while !finished` form
    direct = e5._prove_at_returns(an, fn, [('down', 'Ok'), ('f', 0)], list(sub), lambda an_, e: [le(lin(c=1), e), le(e, LEN1), le(e, lin(c=255))])
    if direct:
        R.require(True, rule, gpath + '|lemma:Ok(n) => 1 <= n <= len(octets) and n <= 255', fn.where(), 'proved directly at the %d success return(s)' % direct, '')
        return True
    flag, off = local_named(fn, 'finished'), local_named(fn, 'offset')
    oks = ok_blocks(fn)
    good = flag is not None and off is not None and len(oks) == 1
    detail = 'cannot find `finished`, `offset` and a single Ok return'
    if good:
        # the returned length is the counter (possibly through `wire_len = offset`)
        lv = origins.trace(fn, 0, [('down', 'Ok'), ('f', 0)] + list(sub))
        good = bool(lv) and all(lf[0] == 'rv' and lf[3]['k'] == 'use' and is_place(lf[3]['op']) and lf[3]['op']['pl']['l'] == off and not lf[3]['op']['pl']['p'] for lf in lv)
        detail = 'the returned length is not the `offset` counter'
        if good:
            rd = lv[0][1]
            # counter not written between that read and the return
            good = all(not (fn.find_path(rd, lambda x, b=b: x == b) and b != rd) or not fn.find_path(b, lambda x: x == oks[0]) for (b, i, k, n) in int_defs(fn, off) if b != 0)
            # the counter is not written between the read and the Ok(..) that returns it (checked above), so the value
            # returned is the counter's value where Ok(..) is built; that block is the site of the lemma (the read itself
            # may sit before the `finished` test when the final checks were moved into a helper that takes the value)
            good2, detail = latched_counter(an, flag, off, oks[0] if good else rd, lambda e: [le(lin(c=1), e), le(e, LEN1), le(e, lin(c=255))][:2], limit=255)
            good = good and good2
    R.require(good, rule, gpath + '|lemma:Ok(n) => 1 <= n <= len(octets) and n <= 255', fn.where(), 'latched-counter lemma holds: ' + detail, 'lemma premises failed: ' + detail)
    return good


# ------------------------------------------------------------------ parse_pointer / parse_compressed_name
def check_parse_pointer(R, F, S, rule):
    gp = NW + 'parse_pointer'
    fn = F.fn(gp)
    an = Analyzer(fn, F, S)
    oks = ok_blocks(fn)
    good = len(oks) == 1
    detail = 'expected one Ok return'
    if good:
        b = oks[0]
        ok1, facts, res = an.prove(b, 0, [le(add(lin('L3'), lin(c=2)), LEN1)])
        lv = origins.trace(fn, 0, [('down', 'Ok'), ('f', 0)])
        ok2, det = e5.prove_value(an, lv, lambda e: [lt(e, lin('L2'))])
        # prove_value proves at the producing statement; the `pointer >= chunk_start` test comes after it, so prove at the return
        an._site = (b, 0)
        pe = None
        for lf in lv:
            if lf[0] == 'rv':
                pe = lin('L%d' % fn.blocks[lf[1]]['stmts'][lf[2]]['lhs']['l']) if lf[2] < len(fn.blocks[lf[1]]['stmts']) else None
        ok2 = False
        if pe is not None:
            # pointer as usize >= chunk_start is the guard; the cast widens
            g = paths.dom_guards(fn, b)
            ok2 = any(re.match(r'^Ge\(cast\(.*\),arg2\) in \[0\]$', x) for x in g)
        good = ok1 and ok2
        detail = 'index + 2 <= len(octets): %s; pointer < chunk_start guard dominates Ok: %s' % (ok1, ok2)
    R.require(good, rule, gp + '|post:Ok(p) => index + 2 <= len(octets) and p < chunk_start', fn.where(), detail, 'parse_pointer summary does not hold: ' + detail)
    # the 14-bit offset is assembled from both octets: from_be_bytes([o[i], o[i+1]]) & 0x3fff
    fb = [t for b, t in fn.calls() if callee_name(t).endswith('u16>::from_be_bytes') or callee_name(t).endswith('<impl u16>::from_be_bytes')]
    masks = [st for blk in fn.blocks for st in blk['stmts'] if st['k'] == 'assign' and st['rv']['k'] == 'bin' and st['rv']['op'] == 'BitAnd']
    okm = len(fb) == 1 and len(masks) == 1
    dm = 'expected one from_be_bytes call and one mask'
    if okm:
        arr = paths.show_operand(fn, fb[0]['args'][0])
        m = masks[0]['rv']
        mv = const_int(m['b']) if m['b']['k'] == 'const' else const_int(m['a'])
        if mv is None:
            other = m['b'] if is_place(m['b']) else m['a']
            txt = paths.show_operand(fn, other)
            mm = re.match(r'^Not\((\d+)_u16\)$', txt)
            mv = (~int(mm.group(1))) & 0xffff if mm else None
        src = paths.show_operand(fn, m['a'])
        okm = mv == 0x3fff and 'from_be_bytes' in src and re.match(r'^\[(arg1\[_\]|var:u8),(arg1\[_\]|var:u8)\]$|^array', arr) is not None
        dm = 'pointer = %s & 0x%s, bytes = %s' % (src[:60], ('%04x' % mv) if mv is not None else '?', arr)
        # the two octets are octets[index] and octets[index + 1]
        idx = []
        for blk in fn.blocks:
            for st in blk['stmts']:
                if st['k'] == 'assign' and st['rv']['k'] == 'use' and is_place(st['rv']['op']):
                    for p_ in st['rv']['op']['pl']['p']:
                        if isinstance(p_, dict) and 'idx' in p_:
                            idx.append(paths.show_operand(fn, {'k': 'copy', 'pl': {'l': p_['idx'], 'p': [], 'ty': 'usize'}}))
        okm = okm and sorted(idx) == ['Add(arg3,1_usize)', 'arg3']
        dm += ', octet indices %s' % sorted(idx)
    R.require(okm, rule, gp + '|pointer-decoding', fn.where(), 'offset = u16::from_be_bytes([octets[index], octets[index+1]]) & 0x3fff', 'the compression pointer is not decoded as the low 14 bits of the two octets at index: ' + dm)
    return good


def check_parse_compressed_lemma(R, F, S, rule):
    gp = NW + 'parse_compressed_name'
    fn = F.fn(gp)
    an = Analyzer(fn, F, S)
    idx, cs, flag = local_named(fn, 'index'), local_named(fn, 'chunk_start'), local_named(fn, 'finished_with_chunk')
    first, nxt = local_named(fn, 'wire_len_of_first_chunk'), local_named(fn, 'next_chunk')
    probs = []
    if None in (idx, cs, flag, first, nxt):
        probs.append('cannot find index / chunk_start / finished_with_chunk / wire_len_of_first_chunk / next_chunk')
    else:
        # P1 the returned length is wire_len_of_first_chunk, written only by get_or_insert(index - chunk_start)
        lv = origins.trace(fn, 0, [('down', 'Ok'), ('f', 0), ('f', 1)])
        subs = [lf for lf in lv if lf[0] == 'rv' and lf[3]['k'] == 'bin' and lf[3]['op'] == 'Sub']
        if len(lv) != 1 or len(subs) != 1:
            probs.append('the returned length does not come from a single `index - chunk_start` (%s)' % [l[0] for l in lv])
        else:
            _, bS, iS, rvS = subs[0]
            a = fn.canon(rvS['a']['pl'])['l'] if is_place(rvS['a']) else None
            b_ = fn.canon(rvS['b']['pl'])['l'] if is_place(rvS['b']) else None
            ra = origins.trace(fn, rvS['a']['pl']['l'], [], at=(bS, iS)) if is_place(rvS['a']) else []
            rb = origins.trace(fn, rvS['b']['pl']['l'], [], at=(bS, iS)) if is_place(rvS['b']) else []
            def reads(lvs, l):
                return len(lvs) == 1 and lvs[0][0] == 'rv' and lvs[0][3]['k'] == 'use' and is_place(lvs[0][3]['op']) and fn.canon(lvs[0][3]['op']['pl'])['l'] == l
            if not reads(ra, idx):
                probs.append('minuend is not `index`')
            # chunk_start is a single-assignment binding of (next_chunk as Some).0
            sd = fn.single_def(cs)
            if not (sd and sd[2] == 'assign' and paths.show_operand(fn, {'k': 'copy', 'pl': {'l': cs, 'p': [], 'ty': 'usize'}}) is not None):
                probs.append('chunk_start is not a single binding')
            if not (len(rb) >= 1):
                probs.append('subtrahend untraceable')
            gi = [b for b, t in fn.calls() if callee_name(t) == 'std::option::Option::<T>::get_or_insert']
            if len(gi) != 1:
                probs.append('expected one get_or_insert, found %d' % len(gi))
            # P2 first round: next_chunk's only definition outside the loop is Some(start), all others are inside it
            body = sd[0] if sd else None
            nd = int_defs(fn, nxt)
            outside = [(b, i, k, n) for (b, i, k, n) in nd if body is None or not fn.dominates(body, b)]
            if len(outside) != 1 or paths.show_operand(fn, {'k': 'copy', 'pl': {'l': nxt, 'p': [], 'ty': ''}}) is None:
                probs.append('next_chunk has %d definitions outside the loop' % len(outside))
            else:
                st = outside[0][3]
                txt = paths.show_operand(fn, st['rv']['ops'][0]) if st['k'] == 'assign' and st['rv']['k'] == 'agg' and st['rv']['def'].endswith('Option::Some') else None
                if txt != 'arg2':
                    probs.append('the first chunk does not start at `start` (%s)' % txt)
            # P3 at least one inner iteration before get_or_insert: no flag-feasible path from the inner-loop
            # initialisation to get_or_insert avoids every in-loop assignment of index
            fc = FlagCFG(fn, flag)
            idefs = int_defs(fn, idx)
            init = [(b, i) for (b, i, k, n) in idefs if b == body]
            inloop = [(b, i, n) for (b, i, k, n) in idefs if b != body]
            fd = flag_defs(fn, flag)
            finit = [(b, i) for b, i, v in fd if v is False and b == body]
            if len(init) != 1 or not inloop or len(finit) != 1 or not gi:
                probs.append('unexpected shape of the inner loop (index initialisations %d, in-loop updates %d)' % (len(init), len(inloop)))
            elif fc.reaches(body, False, gi, avoid=[b for b, i, n in inloop]):
                probs.append('get_or_insert is reachable without any in-loop update of index')
            # P4 every in-loop update establishes chunk_start + 1 <= index' <= len(octets)
            for b, i, n in inloop:
                an._site = (b, i)
                e = an.ev_rv(n['rv'], 0, (b, i))
                if e is None:
                    probs.append('update of index at %s is not linear' % fn.where(b))
                    continue
                goals = [le(e, LEN1), le(add(lin('L%d' % cs), lin(c=1)), e)]
                ok, facts, res = an.prove(b, i, goals)
                if not ok:
                    probs.append('at %s cannot prove %s' % (fn.where(b), '; '.join(fmt(g) + ' <= 0' for g, r in zip(goals, res) if not r)))
            # P5 index is not written between the last in-loop update and get_or_insert other than by those updates (trivially true), and
            # the subtraction reads index and chunk_start at get_or_insert's block
            if gi and subs and not fn.dominates(bS, gi[0]):
                probs.append('the subtraction does not dominate get_or_insert')
    R.require(not probs, rule, gp + '|lemma:Ok((_, n)) => 1 <= n and start + n <= len(octets)', fn.where(),
              'first-chunk lemma holds (n = index - start after >= 1 label; every index update proved <= len(octets))', 'lemma premises failed: ' + '; '.join(probs))
    return not probs


def check_label_vec(R, F, rule, gpath, counter_desc):
    """<= 128 pushes into ArrayVec<u8, 128>: every cycle through the push passes a fallible step bounded by 255 octets."""
    fn = F.fn(gpath)
    pushes = [(b, t) for b, t in fn.calls() if callee_name(t) == 'arrayvec::ArrayVec::<T, CAP>::push']
    caps = []
    for b, t in pushes:
        a = t['args'][0]
        base = fn.canon({'l': a['pl']['l'], 'p': a['pl']['p'] + ['deref'], 'ty': ''})
        m = re.search(r'ArrayVec<u8, (\d+)>', fn.local_ty(base['l']))
        caps.append(int(m.group(1)) if m else None)
    good = len(pushes) == 1 and caps == [128]
    detail = 'pushes %d, capacities %s' % (len(pushes), caps)
    if good:
        pb = pushes[0][0]
        # each round trip push -> push passes a step that fails once 255 octets are exceeded
        def limiter(b):
            t = fn.blocks[b]['term']
            if t['k'] == 'call' and callee_name(t) == 'arrayvec::ArrayVec::<T, CAP>::try_extend_from_slice':
                a = t['args'][0]
                base = fn.canon({'l': a['pl']['l'], 'p': a['pl']['p'] + ['deref'], 'ty': ''})
                return 'ArrayVec<u8, 255>' in fn.local_ty(base['l'])
            if t['k'] == 'switch':
                return re.match(r'^Gt\(var:usize,255_usize\)$', paths.show_operand(fn, t['op']) or '') is not None
            return False
        succ = fn.blocks[pb]['term']['t']
        p = fn.find_path(succ, lambda x: x == pb, avoid={b for b in range(len(fn.blocks)) if limiter(b)})
        good = p is None
        detail = 'capacity 128; every cycle through the push passes the 255-octet limit step' if good else 'a cycle through the push avoids the 255-octet limit: %s' % paths.fmt_path(fn, p)
    R.require(good, rule, gpath + '|lemma:at most 128 labels are pushed', fn.where(pushes[0][0]) if pushes else fn.where(),
              detail + ' (a non-final label takes >= 2 octets, the final one ends the loop: <= 127 + 1 pushes)', 'label-offset vector lemma failed: ' + detail)
    return good


def check_all(R, F, S, rule='summary'):
    """Establish every summary of name::wire that E5 uses elsewhere."""
    L1 = LEN1
    e5.verify_post(R, F, S, rule, NW + 'skip_compressed_name', [((), 'Ok(n) => 1 <= n <= len(octets) + 1', lambda an, e: [le(lin(c=1), e), le(e, add(L1, lin(c=1)))])])
    check_parse_pointer(R, F, S, rule)
    check_uncompressed_lemma(R, F, S, rule, NW + 'validate_uncompressed_name', ())
    check_uncompressed_lemma(R, F, S, rule, NW + 'parse_uncompressed_name', (('f', 1),))
    check_parse_compressed_lemma(R, F, S, rule)
    # public wrappers forward their arguments unchanged
    for pub, inner in (('name::Name::skip_compressed', 'skip_compressed_name'), ('name::Name::try_from_compressed', 'parse_compressed_name'),
                       ('name::Name::try_from_uncompressed', 'parse_uncompressed_name'), ('name::Name::try_from_uncompressed_all', 'parse_uncompressed_name'),
                       ('name::Name::validate_uncompressed', 'validate_uncompressed_name'), ('name::Name::validate_uncompressed_all', 'validate_uncompressed_name')):
        fn = F.fn(pub)
        cs = [(b, t) for b, t in fn.calls() if callee_name(t) == NW + inner]
        direct = len(cs) == 1 and not cs[0][1]['dest']['p'] and cs[0][1]['dest']['l'] == 0 and len(list(fn.calls())) == 1
        ok = len(cs) == 1 and e5.forwards_to(fn, cs[0][1], (NW + inner,)) and (direct or pub.endswith('_all'))
        R.require(ok, rule, pub + '|wrapper', fn.where(), '%s %s(args) unchanged' % ('returns' if direct else 'maps the result of', inner), '%s is no longer a plain wrapper of %s: its summary must be re-established' % (pub, inner))
