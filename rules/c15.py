"""C15 — the message reader is total and atomic (static clauses)."""
import re

from qv.facts import callee_name, const_int, is_place, place_str
from qv import paths, effects, origins
from qv.bounds import Analyzer, lin, add, le, lt, fmt
from rules import e5, namewire
from rules import writer_common as wc

MODE = 'lib'
TECHNIQUE = 'static analysis: panic-site census over rustc MIR with dominating-guard linear entailment (Fourier-Motzkin) under verified struct invariants and callee summaries; CFG path queries for atomicity'
EXPLANATION = """
Decides on the MIR of message/reader.rs, for ANY octet string:
(a) invariants: Reader {12 <= len(octets), cursor <= len(octets), mark = Some(m) => m <= len(octets)} and PeekRr
{owner_end + 10 <= rr_end <= len(reader.octets), reader.cursor <= owner_end} are established by the only struct literals
(Reader::try_from, Reader::peek_rr) and preserved by every store to cursor / mark (E5 at each store); no function outside
message::reader writes those fields;
(b) totality: under these invariants every panic-capable site of every Reader / PeekRr method and of read_u16/read_u32
is discharged by linear entailment from dominating guards, callee summaries (name decoding, Rdata::read) or a masked-
value argument (header nibbles < 16); Reader::rewind's documented "no mark set" panic is the one justified exception
(inside the crate every rewind is dominated by a mark);
(b') the same for Rdata::read and every reader it dispatches to (the C18 census restricted to the read path, re-run
here), together with the summary Rdata::read = Ok(_) => cursor + rdlength <= len(message) that read_rr relies on;
(c) atomicity: in every operation that can fail, no error return is reachable after a store to the cursor (the cursor
moves only after the last fallible step), for Reader::{read_question, skip_question, read_rr, skip_rr} and PeekRr::parse;
peek_rr does not move the cursor at all;
(d) a compression pointer met while decoding is the low 14 bits of its two octets (shared with C14).
Not decided: field-by-field agreement with an independent decoder (value-level).
"""
ASSUMPTIONS = ['every CFG path is assumed feasible', 'summaries of name decoding are established by the C14 rules, of Rdata::read by the C18 rules (both re-checked here)']
RP = 'message::reader::'
RTY, PTY = 'message::reader::Reader', 'message::reader::PeekRr'


def in_reader(fn):
    return fn.gpath.startswith(RP) or fn.gpath.startswith('<message::reader::')


def reader_fns(F):
    out = []
    for gp, fn in sorted(F.fns.items()):
        if fn.crate != 'quandary' or '::tests::' in gp or '{closure' in gp and False:
            continue
        if gp.startswith(RP + 'Reader::') or gp.startswith(RP + 'PeekRr::') or gp in (RP + 'read_u16', RP + 'read_u32') or gp == "<message::reader::Reader<'a> as std::convert::TryFrom<&'a [u8]>>::try_from":
            out.append(fn)
    return out


def rewind_premise(F, fn, b):
    """Reader::rewind panics only when no mark is set (documented); inside the crate a mark always precedes it."""
    callers = [(g, bb) for g in F.fns.values() if g.crate == 'quandary' and '::tests::' not in g.gpath for bb, t in g.calls() if callee_name(t).endswith("Reader::<'a>::rewind")]
    bad = []
    for g, bb in callers:
        marks = [mb for mb, t in g.calls() if callee_name(t).endswith("Reader::<'a>::mark")]
        if not any(g.dominates(mb, bb) for mb in marks):
            bad.append(g.gpath)
        rew = [rb for rb, t in g.calls() if callee_name(t).endswith("Reader::<'a>::rewind") and rb != bb]
        if any(g.find_path(rb, lambda x: x == bb) for rb in rew):
            bad.append(g.gpath + ' (two rewinds on one path)')
    return bool(callers) and not bad, '%d in-crate caller(s), each dominated by Reader::mark' % len(callers) if not bad else 'rewind without a dominating mark in %s' % bad


def masked_nibble_premise(F, fn, b):
    """raw.try_into::<Opcode|Rcode>().unwrap(): raw is a masked header field < 16 and the conversion accepts every value < 16."""
    t = fn.blocks[b]['term']
    oc = e5.origin_call(Analyzer(fn, F, e5.make_summary(F)), t['args'][0]['pl']['l'])
    if not oc:
        return False, 'no producing call'
    cb, ct = oc
    txt = paths.show_operand(fn, ct['args'][0])
    m = re.match(r'^Shr\(BitAnd\(.*,(\d+)_u8\),(\d+)_\w+\)$', txt)
    mx = None
    if m:
        mx = int(m.group(1)) >> int(m.group(2))
    else:
        m = re.match(r'^BitAnd\(.*,(\d+)_u8\)$', txt)
        if m:
            mx = int(m.group(1))
    if mx is None:
        return False, 'argument %s is not a masked value' % txt
    dst = fn.local_ty(ct['dest']['l'])
    m2 = re.search(r'Result<(message::(?:opcode::Opcode|rcode::Rcode)),', dst)
    if not m2:
        return False, 'unexpected conversion target %s' % dst
    conv = F.maybe('<%s as std::convert::TryFrom<u8>>::try_from' % m2.group(1))
    if conv is None:
        return False, 'conversion function not found'
    # Ok under `raw < 16` (i.e. the Err arm is guarded by raw >= 16 / raw > 15)
    oks = [bb for bb, blk in enumerate(conv.blocks) if not blk['cleanup'] for st in blk['stmts'] if st['k'] == 'assign' and st['rv']['k'] == 'agg' and st['rv']['def'].endswith('Result::Ok')]
    lim = None
    for bb in oks:
        for g in paths.dom_guards(conv, bb):
            mm = re.match(r'^(Lt|Le|Gt|Ge)\(arg1,(\d+)_u8\) (in|not in) \[0\]$', g)
            if mm:
                op, c, pol = mm.group(1), int(mm.group(2)), mm.group(3) == 'not in'
                if op == 'Lt' and pol: lim = c
                if op == 'Le' and pol: lim = c + 1
                if op == 'Ge' and not pol: lim = c
                if op == 'Gt' and not pol: lim = c + 1
    return lim is not None and mx < lim, 'masked value <= %d, conversion accepts values < %s' % (mx, lim)


EXCEPTIONS = {
    (RP + "Reader::<'a>::rewind", 'unwrap', 1): ('documented panic when no mark is set; a caller error, not reachable from message octets', rewind_premise),
    (RP + "Reader::<'a>::opcode", 'unwrap', 1): ('header nibble < 16 always converts', masked_nibble_premise),
    (RP + "Reader::<'a>::rcode", 'unwrap', 1): ('header nibble < 16 always converts', masked_nibble_premise),
}


def check_invariants(R, F, S):
    # who writes the fields
    for sty, fields in ((RTY, ('octets', 'cursor', 'mark')), (PTY, ('reader', 'owner', 'owner_end', 'rr_end'))):
        wr = effects.writers_of(F, sty)
        outside = sorted({g for f in fields for g in wr.get(f, {}) if not (g.startswith(RP) or g.startswith('<message::reader::')) and '::tests::' not in g})
        R.require(not outside, 'invariant', sty + '|fields-private-to-module', '', 'only message::reader writes %s' % list(fields), 'fields of %s are written outside message::reader: %s' % (sty, outside))
    # Reader literals
    lits = e5.struct_literals(F, RTY)
    R.require(len(lits) == 1 and lits[0][0].gpath.endswith('::try_from'), 'invariant', RTY + '|single-constructor', '', 'Reader is built only by TryFrom<&[u8]>', 'Reader literals in %s' % [l[0].gpath for l in lits])
    for fn, b, i, st in lits:
        an = Analyzer(fn, F, S)
        an._site = (b, i)
        ops = dict(zip(st['rv']['fields'], st['rv']['ops']))
        L = e5._len_of_arg(an, ops['octets'])
        cur = an.ev_op(ops['cursor'])
        mk = paths.show_operand(fn, ops['mark'])
        ok, unmet = (False, 'operands not linear')
        if L is not None and cur is not None:
            ok, unmet = e5.prove_at(an, b, i, [le(lin(c=12), L), le(cur, L)])
        R.require(ok and mk.startswith('Option::None'), 'invariant', '%s|established@%s' % (RTY, fn.gpath), fn.where(b), '12 <= len(octets), cursor <= len(octets), mark = None', 'Reader literal does not establish the invariant: %s (mark=%s)' % (unmet, mk))
    # stores to cursor / mark
    n = 0
    for fn, b, i, st in e5.field_stores(F, RTY, 'cursor'):
        n += 1
        an = Analyzer(fn, F, S)
        base = fn.canon_str({'l': st['lhs']['l'], 'p': st['lhs']['p'][:-1], 'ty': ''})
        L = lin('len:(*%s.octets)' % base)
        lv = origins.trace(fn, st['rv']['op']['pl']['l'], origins.norm_path(st['rv']['op']['pl']['p']), at=(b, i)) if st['rv']['k'] == 'use' and is_place(st['rv']['op']) else [('unknown', 'not a plain store')]
        ok, det = e5.prove_value(an, lv, lambda e, L=L: [le(e, L)], use_site=(b, i))
        if not ok:
            # fall back: prove at the store itself
            an._site = (b, i)
            e = an.ev_rv(st['rv'], 0, (b, i))
            if e is not None:
                ok, unmet = e5.prove_at(an, b, i, [le(e, L)])
                det = det + ['at the store: ' + unmet]
        R.require(ok, 'invariant', '%s|cursor-store@%s#%d' % (RTY, fn.gpath, n), fn.where(b), 'the stored cursor is <= len(octets)', 'cannot prove that the stored cursor stays within the message: ' + '; '.join(det))
    for fn, b, i, st in e5.field_stores(F, RTY, 'mark'):
        n += 1
        txt = paths.show_operand(fn, st['rv']['op']) if st['rv']['k'] == 'use' else st['rv']['k']
        ok = txt.startswith('Option::None') or re.match(r'^Option::Some\{arg1\.cursor\}$', txt) is not None
        R.require(ok, 'invariant', '%s|mark-store@%s' % (RTY, fn.gpath), fn.where(b), 'mark := None or Some(cursor)', 'mark is set to %s, expected None or Some(cursor)' % txt)
    # PeekRr literal
    lits = e5.struct_literals(F, PTY)
    R.require(len(lits) == 1 and lits[0][0].gpath == RP + "Reader::<'a>::peek_rr", 'invariant', PTY + '|single-constructor', '', 'PeekRr is built only by Reader::peek_rr', 'PeekRr literals in %s' % [l[0].gpath for l in lits])
    for fn, b, i, st in lits:
        an = Analyzer(fn, F, S)
        an._site = (b, i)
        ops = dict(zip(st['rv']['fields'], st['rv']['ops']))
        oe, re_ = an.ev_op(ops['owner_end']), an.ev_op(ops['rr_end'])
        L = lin('len:(*(*_1).octets)')
        cur = lin('P:(*_1).cursor')
        rd = paths.show_operand(fn, ops['reader'])
        ok, unmet = (False, 'operands not linear')
        if oe is not None and re_ is not None:
            ok, unmet = e5.prove_at(an, b, i, [le(add(oe, lin(c=10)), re_), le(re_, L), le(cur, oe)])
        R.require(ok and rd in ('arg1', '&mut arg1', 'reborrow(arg1)') or (ok and 'arg1' in rd), 'invariant', '%s|established@%s' % (PTY, fn.gpath), fn.where(b), 'owner_end + 10 <= rr_end <= len(octets), cursor <= owner_end, reader = self',
                  'PeekRr literal does not establish the invariant: %s (reader=%s)' % (unmet, rd))
    for f in ('owner_end', 'rr_end', 'reader'):
        st_ = e5.field_stores(F, PTY, f)
        R.require(not st_, 'invariant', '%s|%s-never-reassigned' % (PTY, f), '', '%s is fixed at construction' % f, '%s is reassigned in %s' % (f, [s[0].gpath for s in st_]))
    R.floor('invariant', 12)


def check_atomicity(R, F):
    ops = ['read_question', 'skip_question', 'read_rr', 'skip_rr', 'peek_rr']
    fns = [F.fn(RP + "Reader::<'a>::" + o) for o in ops] + [F.fn(RP + "PeekRr::<'r, 'b>::parse")]
    for fn in fns:
        eb = wc.err_blocks(fn)
        stores = [(b, i) for (fn2, b, i, st) in e5.field_stores(F, RTY, 'cursor', scope=lambda g: g.gpath == fn.gpath)]
        bad = []
        for b, i in stores:
            p = fn.find_path(b, lambda x: x != b and (x in eb or wc._fallible_local_call(fn, x)))
            if p is None and wc._fallible_local_call(fn, b):
                p = [b]
            if p:
                bad.append('store at %s, then %s' % (fn.where(b), paths.fmt_path(fn, p)))
        # callees that receive &mut self / &mut Reader and may move the cursor before a later failure
        for b, t in fn.calls():
            n = callee_name(t)
            if n.startswith(RP) and any(is_place(a) and (a['pl'].get('ty') or fn.local_ty(a['pl']['l'])).startswith('&mut message::reader::Reader') for a in t['args']):
                tw = effects.transitive_writes(F, [n], RTY)
                if 'cursor' in tw:
                    p = fn.find_path(b, lambda x: x != b and (x in eb or wc._fallible_local_call(fn, x)))
                    if p:
                        bad.append('%s may move the cursor, then %s' % (paths.short(n), paths.fmt_path(fn, p)))
        want_store = not fn.gpath.endswith('peek_rr')
        ok = not bad and (bool(stores) == want_store)
        R.require(ok, 'atomic', fn.gpath, fn.where(), 'the cursor moves only after the last step that can fail' if want_store else 'peek_rr never moves the cursor',
                  'a failing %s can leave the read position changed: %s' % (fn.gpath.split('::')[-1], '; '.join(bad) or ('cursor stores: %d' % len(stores))))
    R.floor('atomic', 6)


def check(R, F):
    S = e5.make_summary(F)
    check_invariants(R, F, S)
    fns = reader_fns(F)
    n = e5.run_sites(R, F, fns, 'totality', exceptions=EXCEPTIONS, S=S)
    R.floor('totality', 70, 'panic-capable sites counted in message/reader.rs')
    R.extra['panic_sites'] = n
    check_atomicity(R, F)
    namewire.check_all(R, F, S, 'summary')
    R.floor('summary', 12)
    # (b') read_rr / PeekRr::parse hand the RDATA to Rdata::read: its totality and its summary are part of "every reader
    # operation returns without panicking" (seed C15-e: read_soa decoding names from the whole message, then subtracting)
    from rules import c18
    reach = sorted(g for g in F.reachable_fns([c18.rt.READ]) if F.fns[g].crate == 'quandary')
    rfns = [F.fns[g] for g in reach if g not in c18.TRUSTED and not g.startswith('name::wire::') and not g.startswith('name::Name::')]
    n2 = e5.run_sites(R, F, rfns, 'rdata-totality', exceptions=dict(c18.EXCEPTIONS), S=S)
    R.floor('rdata-totality', 30, 'panic-capable sites counted in the functions reachable from Rdata::read')
    R.extra['rdata_read_panic_sites'] = n2
    c18.check_read_post(R, F, S)
