"""C22 — catalog updates never disturb unrelated entries (static clauses)."""
import re

from qv.facts import callee_name, const_name, is_place, op_str
from qv.flow import slice_of
from qv import paths
from qv.rulelib import calls_in

MODE = 'lib'
EXPLANATION = """
Decides structural clauses of C22 on db::hash_map_tree::catalog and db::catalog:
(a) prune rule: in remove_in_class every returned "remove this node" flag that is not the constant false derives from
children.is_empty() AND from the emptiness of the same node's own entry (data.is_none(), or the data.take() performed on
that node on the same path) -- a node that still holds an entry or children is never pruned; a child is removed from
its parent only under the flag returned for that child, and a class root only under the flag returned for the root;
(b) longest match: lookup_in_class returns the deeper match when there is one and the node's own entry otherwise
(Option::or with the recursive result as receiver), and the node's entry at level 0;
(c) exact lookup: the default Catalog::get filters the longest match by equal label count, SingleZoneCatalog::get
compares the whole name; insert replaces only the data of the node reached by the entry's own name.
Not decided: map equivalence over arbitrary histories.
"""
ASSUMPTIONS = ['every CFG path is assumed feasible']

CAT = 'db::hash_map_tree::catalog::'


def check(R, F):
    ric = F.fn(CAT + 'remove_in_class')
    # ---- (a) prune rule: every tuple stored into the return place
    n = 0
    for b, blk in enumerate(ric.blocks):
        if blk['cleanup']:
            continue
        for st in blk['stmts']:
            if st['k'] == 'assign' and not st['lhs']['p'] and st['lhs']['l'] == 0 and st['rv']['k'] == 'agg' and st['rv']['ak'] == 'tuple':
                n += 1
                flag = st['rv']['ops'][1]
                entry = st['rv']['ops'][0]
                gd = [g for g in paths.dom_guards(ric, b) if 'discr(' in g or 'Eq(' in g]
                allg = paths.dom_guards(ric, b)
                which = 'level0' if any(re.match(r'^Eq\(arg3,0_usize\) not in \[0\]$', g) for g in allg) else ('after-child-pruned' if any('remove_in_class' in g and g.endswith('.1 not in [0]') for g in allg) else ('child-kept' if any('remove_in_class' in g for g in allg) else 'no-child'))
                key = '%s|flag@%s' % (ric.gpath, which)
                if flag['k'] == 'const':
                    R.require(const_name(flag) == 'false', 'prune', key, ric.where(b), 'flag is constant false', 'flag is the constant %s' % const_name(flag))
                    continue
                sl = slice_of(ric, flag, control=True)
                names = sl.call_names()
                children_empty = any(n2.endswith('HashMap::<K, V, S>::is_empty') or n2.endswith('::is_empty') for n2 in names) and any(fp and fp[-1] == 'children' for fp in sl.field_paths())
                data_none_in_flag = any(n2.endswith('Option::<T>::is_none') or n2.endswith('Option::<T>::is_some') for n2 in names) and any(fp and fp[-1] == 'data' for fp in sl.field_paths())
                # or: data.take() on this node dominates the return
                take_dom = False
                for tb, tt in calls_in(ric, 'Option::<T>::take'):
                    a = paths.show_operand(ric, tt['args'][0])
                    if a == 'arg1.data' and ric.dominates(tb, b):
                        take_dom = True
                R.require(children_empty and (data_none_in_flag or take_dom), 'prune', key, ric.where(b),
                          'flag derives from children.is_empty() and from the node\'s own entry being gone (%s)' % ('is_none in flag' if data_none_in_flag else 'data.take() dominates'),
                          'the prune flag derives from children.is_empty()=%s but not from the emptiness of this node\'s own entry (data.is_none in flag=%s, data.take on path=%s): '
                          'a parent that still holds an entry is removed together with its last child' % (children_empty, data_none_in_flag, take_dom))
    R.floor('prune', 4, 'four return tuples in remove_in_class')
    # children.remove only under the flag returned by the recursive call, with the same key as the lookup
    rm = [(b, t) for b, t in ric.calls() if re.search(r'HashMap::<[^>]*>::remove$', callee_name(t))]
    R.require(len(rm) == 1 and any(re.match(r'^(catalog::)?remove_in_class\(.*\)\.\w+ not in \[0\]$', g) for g in paths.dom_guards(ric, rm[0][0])),
              'prune', ric.gpath + '|child-removed-only-under-flag', ric.where(rm[0][0]) if rm else ric.where(), 'children.remove is guarded by the child\'s flag', 'children.remove is not guarded by the flag returned for that child')
    rmv = F.fn(CAT + 'HashMapTreeCatalog::<Z, M>::remove')
    rr = calls_in(rmv, 'OccupiedEntry::<\'a, K, V, A>::remove') or [(b, t) for b, t in rmv.calls() if callee_name(t).endswith('::remove') and 'Entry' in callee_name(t)]
    ok = len(rr) == 1 and any(re.search(r'remove_in_class\(.*\)\.\w+ not in \[0\]$', g) for g in paths.dom_guards(rmv, rr[0][0]))
    R.require(ok, 'prune', rmv.gpath + '|root-removed-only-under-flag', rmv.where(rr[0][0]) if rr else rmv.where(), 'class root removed only under the root\'s flag', 'the class root is not removed under the flag returned for the root')
    # the recursion starts at the full depth of the name
    for b, t in calls_in(rmv, CAT + 'remove_in_class'):
        lvl = paths.show_operand(rmv, t['args'][2])
        R.require(lvl == 'Sub(Name::len(arg2),1_usize)', 'prune', rmv.gpath + '|start-level', rmv.where(b), 'starts at len(name) - 1', 'remove starts at level %s' % lvl)

    # ---- (b) longest match
    from rules.name_rules import check_longest_match
    check_longest_match(R, F)
    lic = F.fn(CAT + 'lookup_in_class')
    lk = F.fn('<' + CAT.replace('catalog::', 'catalog::HashMapTreeCatalog<Z, M>') + ' as db::catalog::Catalog>::lookup')
    for b, t in calls_in(lk, CAT + 'lookup_in_class'):
        lvl = paths.show_operand(lk, t['args'][2])
        R.require(lvl == 'Sub(Name::len(arg2),1_usize)', 'longest-match', lk.gpath + '|start-level', lk.where(b), 'starts at len(name) - 1', 'lookup starts at level %s' % lvl)
    R.floor('longest-match', 3)

    # ---- (c) exact lookup and insert
    get = F.fn('db::catalog::Catalog::get')
    clos = F.closures_of(get.gpath)
    ok = len(calls_in(get, 'Option::<T>::filter')) == 1 and len(clos) == 1
    if ok:
        c = clos[0]
        eqs = [paths.show_operand(c, st['rv']['a']) + '==' + paths.show_operand(c, st['rv']['b']) for blk in c.blocks for st in blk['stmts'] if st['k'] == 'assign' and st['rv']['k'] == 'bin' and st['rv']['op'] == 'Eq']
        ok = any('Name::len(' in e.split('==')[0] and 'Name::len(' in e.split('==')[1] for e in eqs)
    R.require(ok, 'exact', get.gpath + '|filter-by-length', get.where(), 'longest match filtered by equal label count', 'Catalog::get no longer filters the longest match by name length')
    sget = F.fn('<db::single_zone_catalog::SingleZoneCatalog<Z, M> as db::catalog::Catalog>::get')
    nm = [callee_name(t) for b, t in sget.calls()]
    name_eq = False
    for b, t in sget.calls():
        if callee_name(t).endswith('::eq') and len(t['args']) == 2:
            ops = sorted(paths.show_operand(sget, a) for a in t['args'])
            if ops[0].startswith('Entry::name(') and ops[1] == 'arg2':
                name_eq = True
    R.require(name_eq and any('Class as std::cmp::PartialEq' in x for x in nm) and not any('eq_or_subdomain_of' in x for x in nm),
              'exact', sget.gpath + '|whole-name', sget.where(), 'compares class and the whole name', 'SingleZoneCatalog::get does not compare class and whole name')
    slk = F.fn('<db::single_zone_catalog::SingleZoneCatalog<Z, M> as db::catalog::Catalog>::lookup')
    nm = [callee_name(t) for b, t in slk.calls()]
    R.require(any('eq_or_subdomain_of' in x for x in nm) and any('Class as std::cmp::PartialEq' in x for x in nm), 'exact', slk.gpath + '|suffix', slk.where(), 'class equal and name at or below the entry', 'SingleZoneCatalog::lookup does not test class and eq_or_subdomain_of')
    ins = F.fn(CAT + 'HashMapTreeCatalog::<Z, M>::insert')
    rep = calls_in(ins, 'Option::<T>::replace')
    ok = len(rep) == 1
    if ok:
        tgt = paths.show_operand(ins, rep[0][1]['args'][0])
        ok = 'get_or_create_descendant' in tgt and tgt.endswith('.data') and 'Entry::name' in tgt or ('get_or_create_descendant' in tgt and tgt.endswith('.data'))
    R.require(ok, 'exact', ins.gpath + '|replaces-own-node', ins.where(), 'insert replaces the data of the node named by the entry', 'insert does not replace exactly the node reached by the entry\'s name')
    R.floor('exact', 4)
