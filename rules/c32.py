"""C32 — concurrent catalog and key swaps never mix snapshots (static clauses)."""
import re

from qv.facts import callee_name, is_place, block_reads, block_writes
from qv import paths, locks, effects
from qv.rulelib import HANDLE_MESSAGE, HMWC, calls_in, server_fns

MODE = 'lib'
EXPLANATION = """
Decides that a response is computed from one catalog snapshot and one key-set snapshot:
(a) Server.catalog / Server.tsig_keys (RwLock<Arc<..>>) are touched only by the constructor, their getter and setter;
(b) the getter clones the Arc under a read guard held for nothing but the clone; the setter assigns through the write
guard; no other lock is taken while either guard is held;
(c) Server::catalog() has exactly one call site on the request path, in handle_message, dominating
handle_message_with_context; its result is the only source of Context.catalog, and everything downstream reaches the
catalog only through Context.catalog (server::query never calls Server::catalog());
(d) Server::tsig_keys() has exactly one call site, inside the TSIG arm (rr_type == TSIG, last record), so one key set is
used for lookup and verification of one message.
With Arc snapshots these are sufficient for "never a mixture"; "requests handled after a replacement returns use the new
catalog" follows from the setter holding the write lock until the assignment is done.
"""
ASSUMPTIONS = ['std RwLock semantics; Arc<C> is immutable once shared (no interior mutability in the catalog API used)']
S = 'server::Server::<C>::'


def check(R, F):
    fns = server_fns(F)
    # ---- (a) who touches the fields
    for field, allowed in (('catalog', {S + 'new', S + 'catalog', S + 'set_catalog'}), ('tsig_keys', {S + 'new', S + 'tsig_keys', S + 'set_tsig_keys'})):
        touch = set()
        for gp, fn in F.fns.items():
            if fn.crate != 'quandary':
                continue
            for b, blk in enumerate(fn.blocks):
                if blk['cleanup']:
                    continue
                for pl in block_reads(fn, b) + block_writes(fn, b):
                    for cont, f in effects.place_field_chain(fn, fn.canon(pl)):
                        if cont == 'server::Server' and f == field:
                            touch.add(gp)
                for st in blk['stmts']:
                    if st['k'] == 'assign' and st['rv']['k'] == 'agg' and st['rv']['def'] == 'server::Server' and field in st['rv']['fields']:
                        touch.add(gp)
        R.require(touch == allowed, 'field-access', 'server::Server.%s' % field, '', 'touched only by %s' % sorted(x.split('::')[-1] for x in touch), 'Server.%s is touched by %s, expected only constructor/getter/setter' % (field, sorted(touch)))
    # ---- (b) getter / setter shape
    for getter, setter, cls in ((S + 'catalog', S + 'set_catalog', 'Arc<C>'), (S + 'tsig_keys', S + 'set_tsig_keys', None)):
        g = F.fn(getter)
        ls = locks.lock_sites(g)
        ok = len(ls) == 1 and callee_name(ls[0][1]).endswith('RwLock::<T>::read')
        if ok:
            region, gl, rel = locks.held_region(g, ls[0][0])
            calls = [callee_name(g.blocks[b]['term']) for b in region if g.blocks[b]['term']['k'] == 'call']
            ok = all(c.endswith('::unwrap') or c.endswith('::clone') or c.endswith('::deref') for c in calls) and any(c.endswith('::clone') for c in calls)
            ret = paths.show_operand(g, {'k': 'copy', 'pl': {'l': 0, 'p': [], 'ty': ''}})
        R.require(ok, 'snapshot-api', getter + '|clone-under-read-guard', g.where(), 'read guard held only for Arc::clone', 'the getter does not clone the Arc under a read guard held for the clone only')
        s = F.fn(setter)
        ls = locks.lock_sites(s)
        ok = len(ls) == 1 and callee_name(ls[0][1]).endswith('RwLock::<T>::write')
        if ok:
            region, gl, rel = locks.held_region(s, ls[0][0])
            wr = [b for b, blk in enumerate(s.blocks) if not blk['cleanup'] for st in blk['stmts'] if st['k'] == 'assign' and st['lhs']['p'] and st['lhs']['p'][0] == 'deref' and paths.show_operand(s, st['rv']['op']) == 'arg2']
            ok = len(wr) == 1 and (wr[0] in region or wr[0] in rel)
            calls = [callee_name(s.blocks[b]['term']) for b in region if s.blocks[b]['term']['k'] == 'call']
            ok = ok and all(c.endswith('::unwrap') or 'deref' in c for c in calls)
        R.require(ok, 'snapshot-api', setter + '|assign-under-write-guard', s.where(), 'the new Arc is stored through the write guard', 'the setter does not assign its argument through the write guard')
    # ---- (c) catalog snapshot taken once
    cs = [(fn, b, t) for fn in fns for b, t in calls_in(fn, S + 'catalog')]
    hm = F.fn(HANDLE_MESSAGE)
    ok = len(cs) == 1 and cs[0][0].gpath == HANDLE_MESSAGE
    R.require(ok, 'catalog-once', 'server|single-catalog-call', hm.where(cs[0][1]) if cs else hm.where(), 'Server::catalog() is called once, in handle_message', 'Server::catalog() is called from %s' % sorted('%s' % c[0].gpath for c in cs))
    if ok:
        b = cs[0][1]
        hw = calls_in(hm, HMWC)
        cn = calls_in(hm, "server::Context::<'c, 'b, C>::new")
        ok2 = len(hw) == 1 and len(cn) == 1 and hm.dominates(b, cn[0][0]) and hm.dominates(cn[0][0], hw[0][0])
        arg = paths.show_operand(hm, cn[0][1]['args'][0]) if cn else ''
        R.require(ok2 and 'Server::catalog(arg1)' in arg.replace('<C>', ''), 'catalog-once', HANDLE_MESSAGE + '|snapshot-feeds-context', hm.where(b), 'the snapshot is taken before processing and handed to Context::new', 'the catalog snapshot does not dominate Context::new / handle_message_with_context (Context gets %s)' % arg)
        rp = calls_in(hm, 'server::rrl::Rrl::process_response')
    # Context.catalog writers: only Context::new
    wr = effects.writers_of(F, 'server::Context', 'catalog')
    aggs = {gp for gp, fn in F.fns.items() for blk in fn.blocks for st in blk['stmts'] if st['k'] == 'assign' and st['rv']['k'] == 'agg' and st['rv']['def'] == 'server::Context'}
    R.require(not wr.get('catalog') and aggs == {"server::Context::<'c, 'b, C>::new"}, 'catalog-once', 'server::Context.catalog|set-once', '', 'Context.catalog is set only by Context::new', 'Context.catalog is written by %s / Context built in %s' % (sorted(wr.get('catalog', {})), sorted(aggs)))
    # downstream catalog lookups use Context.catalog
    lk = [(fn, b, t) for fn in fns for b, t in fn.calls() if callee_name(t).endswith('Catalog::lookup') or callee_name(t).endswith('Catalog::get')]
    for fn, b, t in lk:
        recv = paths.show_operand(fn, t['args'][0])
        R.require(re.match(r'^arg\d\.catalog$', recv) is not None, 'catalog-once', '%s|lookup-through-context' % fn.gpath, fn.where(b), 'catalog reached through Context.catalog', 'catalog lookup on %s instead of the per-message snapshot' % recv)
    R.floor('catalog-once', 4)
    # ---- (d) key snapshot once
    ks = [(fn, b, t) for fn in fns for b, t in calls_in(fn, S + 'tsig_keys')]
    ok = len(ks) == 1 and ks[0][0].gpath == HMWC
    hw = F.fn(HMWC)
    R.require(ok, 'keys-once', 'server|single-tsig-keys-call', hw.where(ks[0][1]) if ks else hw.where(), 'Server::tsig_keys() is called once, in the TSIG arm', 'Server::tsig_keys() is called from %s' % sorted(c[0].gpath for c in ks))
    if ok:
        b = ks[0][1]
        g = paths.dom_guards(hw, b)
        in_tsig = any(re.match(r'^Type::eq\(PeekRr::rr_type\(.*\),Type\(250_u16\)\) not in \[0\]$', x) for x in g)
        last = any(x.startswith('Ne(') and 'arcount' in x and x.endswith(' in [0]') for x in g)
        R.require(in_tsig and last, 'keys-once', HMWC + '|in-last-tsig-arm', hw.where(b), 'inside the arm for the final TSIG record', 'the key snapshot is not taken inside the last-record TSIG arm (%s)' % g)
        users = [(bb, callee_name(t)) for bb, t in hw.calls() if any('Server::tsig_keys(' in paths.show_operand(hw, a).replace('<C>', '') for a in t['args'])]
        names = sorted(paths.short(n) for bb, n in users if not n.endswith('deref'))
        R.require('server::find_tsig_key_or_write_error' in names or any('find_tsig_key_or_write_error' in n for n in names), 'keys-once', HMWC + '|snapshot-feeds-key-lookup', hw.where(b), 'the snapshot feeds the key lookup', 'the key snapshot is not what find_tsig_key_or_write_error receives (%s)' % names)
    R.floor('keys-once', 3)
    R.floor('snapshot-api', 4)
    R.floor('field-access', 2)
