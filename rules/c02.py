"""C02 — every response is a well-formed DNS message (static clauses)."""
import re

from qv.facts import callee_name, const_name, const_int, is_place, op_str
from qv.flow import slice_of
from qv import paths, effects
from qv.rulelib import W, calls_in, server_fns
from rules import writer_common as wc

MODE = 'lib'
EXPLANATION = """
Decides structural clauses of C02 on message::writer:
(a) header counts: each of qdcount/ancount/nscount/arcount is written only by the operation that appended the records
(after its last fallible step, see the rollback rule), by clear_rrs, and -- for ARCOUNT -- by the OPT/TSIG reservations;
add_rrset counts one per successfully written record; finish_with_mac writes the four counters to header offsets
4, 6, 8, 10 before anything else;
(b) OPT / TSIG placement: TYPE OPT and TYPE TSIG reach add_rr as constants only from finish_with_mac; nothing is
appended after the TSIG record and the OPT record is never appended after it; set_edns / set_tsig refuse a second call
before touching any state;
(c) space reservation: set_edns reserves OPT_RECORD_SIZE = 11 (root owner 1 + fixed 10) and set_tsig reserves
reserved_len under the cursor + reservation <= available test, and finish_with_mac gives exactly that much back before
the append (the premise of its two unwraps); unsigned_len = key name + algorithm name + 26 (+6 with BADTIME),
signed_len adds the algorithm's output size;
(d) a failed operation leaves the message unchanged (rollback completeness, shared with C12);
(e) clear_rrs resets every field the add_* operations may have changed (cursor, section, both compression anchors, the
three counters), so records appended after a discard (OPT, TSIG) cannot point into discarded octets (shared with C12).
Not decided: that every record body is well-formed for arbitrary zone data; decodability by an independent decoder.
"""
ASSUMPTIONS = ['every CFG path is assumed feasible']
FIN = W + 'finish_with_mac'


def reservation_rules(R, F):
    """(c) space reserved by set_edns / set_tsig is exactly what finish_with_mac gives back, and matches the serialiser."""
    fin = F.fn(FIN)
    addrr = calls_in(fin, W + 'add_rr')
    opt = [b for b, t in addrr if 'Type(41_u16)' in ' '.join(op_str(a) for a in t['args'])]
    tsig = [b for b, t in addrr if 'Type(250_u16)' in ' '.join(op_str(a) for a in t['args'])]
    se = F.fn(W + 'set_edns')
    def avail_delta(fn):
        out = []
        for b, bl in enumerate(fn.blocks):
            if bl['cleanup']:
                continue
            for st in bl['stmts']:
                if st['k'] == 'assign' and st['lhs']['p'] and st['lhs']['p'][-1].get('n') == 'available' and st['rv']['k'] == 'use':
                    out.append((b, paths.show_operand(fn, st['rv']['op'])))
        return out
    d = avail_delta(se)
    ok = len(d) == 1 and d[0][1] == 'Sub(arg1.available,11_usize)' and any(re.match(r'^Gt\(Add\(arg1\.cursor,11_usize\),arg1\.available\) in \[0\]$', x) for x in paths.dom_guards(se, d[0][0]))
    R.require(ok, 'reservation', W + 'set_edns|reserve-11', se.where(), 'available -= 11 under cursor + 11 <= available', 'set_edns reserves %s' % d)
    st_ = F.fn(W + 'set_tsig')
    d = avail_delta(st_)
    ok = len(d) == 1 and d[0][1] == 'Sub(arg1.available,var:usize)' and any(re.match(r'^Gt\(Add\(arg1\.cursor,var:usize\),arg1\.available\) in \[0\]$', x) for x in paths.dom_guards(st_, d[0][0]))
    lens = sorted(paths.short(callee_name(t)) for b, t in st_.calls() if 'PreparedTsigRr::' in callee_name(t))
    aggs = [st for bl in st_.blocks for st in bl['stmts'] if st['k'] == 'assign' and st['rv']['k'] == 'agg' and st['rv']['def'] == 'message::writer::Tsig']
    same = bool(aggs) and paths.show_operand(st_, dict(zip(aggs[0]['rv']['fields'], aggs[0]['rv']['ops']))['reserved_len']) == 'var:usize'
    R.require(ok and lens == ['PreparedTsigRr::signed_len', 'PreparedTsigRr::unsigned_len'] and same, 'reservation', W + 'set_tsig|reserve-len', st_.where(), 'available -= reserved_len (signed_len / unsigned_len by mode) under the space test; the amount is remembered', 'set_tsig reserves %s using %s' % (d, lens))
    d = avail_delta(fin)
    vals = sorted(v for b, v in d)
    ok = vals == ['Add(arg1.available,11_usize)', 'Add(arg1.available,Option::take(arg1.tsig)@Some.0.reserved_len)'] or (len(vals) == 2 and vals[0] == 'Add(arg1.available,11_usize)' and vals[1].startswith('Add(arg1.available,') and vals[1].endswith('.reserved_len)'))
    R.require(ok, 'reservation', FIN + '|returns-reservations', fin.where(), 'finish gives back exactly 11 and reserved_len', 'finish_with_mac adjusts available by %s' % vals)
    if ok and opt and tsig:
        bo = [b for b, v in d if v.endswith('11_usize)')][0]
        bt = [b for b, v in d if v.endswith('reserved_len)')][0]
        R.require(fin.dominates(bo, opt[0]) and fin.dominates(bt, tsig[0]), 'reservation', FIN + '|returned-before-append', fin.where(), 'space is given back before the corresponding append', 'a reservation is not released before its record is appended')
    ul = F.fn('message::tsig::PreparedTsigRr::unsigned_len')
    consts = sorted(const_int(st['rv']['b']) for bl in ul.blocks for st in bl['stmts'] if st['k'] == 'assign' and st['rv']['k'] == 'bin' and st['rv']['op'].startswith('Add') and st['rv']['b']['k'] == 'const')
    R.require(consts == [6, 26], 'reservation', 'message::tsig::PreparedTsigRr::unsigned_len|fixed-octets', ul.where(), 'fixed part 26 = 10 (RR) + 16 (RDATA fields), +6 for BADTIME', 'unsigned_len adds constants %s, expected [6, 26]' % consts)
    sgl = F.fn('message::tsig::PreparedTsigRr::signed_len')
    txt = [paths.show_operand(sgl, st['rv']['op']) for bl in sgl.blocks for st in bl['stmts'] if st['k'] == 'assign' and not st['lhs']['p'] and st['lhs']['l'] == 0 and st['rv']['k'] == 'use']
    R.require(txt == ['Add(PreparedTsigRr::unsigned_len(arg1,LowercaseName::deref(Algorithm::name(arg2))),Algorithm::output_size(arg2))'] or (len(txt) == 1 and 'unsigned_len' in txt[0] and 'output_size' in txt[0] and txt[0].startswith('Add(')), 'reservation', 'message::tsig::PreparedTsigRr::signed_len', sgl.where(), 'signed_len = unsigned_len + output size', 'signed_len is %s' % txt)
    R.floor('reservation', 6)



def check(R, F):
    # ---- (a) counter writers
    wr = effects.writers_of(F, wc.WRITER_TY, kinds=('assign', 'calldest'))
    spec = {
        'qdcount': {W + 'add_question'},
        'ancount': {W + 'add_answer_rr::{closure#0}', W + 'add_answer_rrset::{closure#0}', W + 'clear_rrs'},
        'nscount': {W + 'add_authority_rr::{closure#0}', W + 'add_authority_rrset::{closure#0}', W + 'clear_rrs'},
        'arcount': {W + 'add_additional_rr::{closure#0}', W + 'add_additional_rrset::{closure#0}', W + 'clear_rrs', W + 'set_edns', W + 'set_tsig'},
    }
    for f, want in spec.items():
        got = set(wr.get(f, {}))
        R.require(got == want, 'counts', 'message::writer::Writer.%s|writers' % f, '', 'written only by %s' % sorted(x.split("Writer::<'a>::")[-1] for x in got), '%s is written by %s, expected %s' % (f, sorted(got), sorted(want)))
    # increments: +1 for single records, +n_added for RRsets
    for name, field, kind in [('add_answer_rr', 'ancount', 1), ('add_authority_rr', 'nscount', 1), ('add_additional_rr', 'arcount', 1), ('add_answer_rrset', 'ancount', 'n'), ('add_authority_rrset', 'nscount', 'n'), ('add_additional_rrset', 'arcount', 'n')]:
        c = F.fn(W + name + '::{closure#0}')
        ws = [(b, i_, st) for b, bl in enumerate(c.blocks) if not bl['cleanup'] for i_, st in enumerate(bl['stmts']) if st['k'] == 'assign' and st['lhs']['p'] and isinstance(st['lhs']['p'][-1], dict) and st['lhs']['p'][-1].get('n') == field]
        ok = len(ws) == 1
        if ok:
            # the stored value is the Some-payload of checked_add(<the counter>, 1 | number of records add_rrset wrote),
            # however the Option is unpacked (if let / ok_or()? / match)
            from qv import origins
            b0, i0, st0 = ws[0]
            o = st0['rv']['op'] if st0['rv']['k'] == 'use' else None
            lv = origins.trace(c, o['pl']['l'], origins.norm_path(o['pl']['p']), at=(b0, i0)) if o and is_place(o) else []
            ok = len(lv) == 1 and lv[0][0] == 'call' and callee_name(lv[0][2]).endswith('>::checked_add') and lv[0][3] == [('down', 'Some'), ('f', 0)]
            if ok:
                t_ = lv[0][2]
                a0 = paths.show_operand(c, t_['args'][0])
                ok = a0.endswith('.' + field)
                if kind == 1:
                    ok = ok and const_int(t_['args'][1]) == 1
                else:
                    ok = ok and any(n_.endswith(W + 'add_rrset') for n_ in slice_of(c, t_['args'][1]).call_names())
            elif len(lv) == 1 and lv[0][0] == 'call' and callee_name(lv[0][2]) == 'std::option::Option::<T>::and_then' and lv[0][3] == [('down', 'Some'), ('f', 0)]:
                # `amount.and_then(|n| count.checked_add(n))`: the same addition, one closure further in
                t_ = lv[0][2]
                recv, cl = t_['args'][0], t_['args'][1]
                built = [lf for lf in (origins.trace(c, cl['pl']['l'], []) if is_place(cl) else []) if lf[0] == 'rv' and lf[3].get('k') == 'agg' and lf[3].get('ak') == 'closure']
                inner = F.fns.get(built[0][3]['def']) if len(built) == 1 else None
                ok = False
                if inner is not None:
                    ilv = origins.trace(inner, 0, [('down', 'Some'), ('f', 0)])
                    if len(ilv) == 1 and ilv[0][0] == 'call' and callee_name(ilv[0][2]).endswith('>::checked_add') and ilv[0][3] == [('down', 'Some'), ('f', 0)]:
                        ia = [paths.show_operand(inner, a) for a in ilv[0][2]['args']]
                        caps = [paths.show_operand(c, o_) for o_ in built[0][3]['ops']]
                        m_ = re.match(r'^arg1\.(\d+)$', ia[0])
                        ok = m_ is not None and int(m_.group(1)) < len(caps) and caps[int(m_.group(1))].endswith('.' + field) and ia[1] == 'arg2'
                        # the amount: the receiver's payload, a lossless conversion of 1 / of what add_rrset counted
                        rtxt = paths.show_operand(c, recv)
                        if kind == 1:
                            ok = ok and re.search(r'try_from\(1_usize\)|^Option::Some\{1_u16\}$', rtxt) is not None
                        else:
                            ok = ok and 'try_from(' in rtxt and any(n_.endswith(W + 'add_rrset') for n_ in slice_of(c, recv).call_names())
            ws = [(b0, st0)]
        R.require(ok, 'counts', W + name + '|increment', c.where(), '%s += %s (checked)' % (field, kind), '%s updates %s with %s' % (name, field, paths.show_operand(c, ws[0][1]['rv']['op']) if ws else None))
    ar = F.fn(W + 'add_rrset')
    # the one `+ 1` of add_rrset (in its body, or in the closure of a fold / try_for_each that replaced the loop) is
    # executed only after add_rr returned Ok on that path
    from qv.rulelib import succeeded_before
    incs = []
    for g in [ar] + list(F.closures_of(ar.gpath)):
        for b, bl in enumerate(g.blocks):
            if bl['cleanup']:
                continue
            for st in bl['stmts']:
                if st['k'] == 'assign' and st['rv']['k'] == 'bin' and st['rv']['op'] in ('Add', 'AddWithOverflow') and const_int(st['rv']['b']) == 1 and 'usize' in (st['rv']['b'].get('ty') or ''):
                    incs.append((g, b))
    rr = [(g, b) for g in [ar] + list(F.closures_of(ar.gpath)) for b, t in calls_in(g, W + 'add_rr')]
    ok = len(incs) == 1 and len(rr) == 1 and incs[0][0] is rr[0][0] and succeeded_before(incs[0][0], incs[0][1], lambda t: callee_name(t) == W + 'add_rr')
    R.require(ok, 'counts', W + 'add_rrset|counts-successes', ar.where(), 'n_added += 1 after each successful add_rr', 'add_rrset does not count exactly the successfully written records')
    fin = F.fn(FIN)
    wu = calls_in(fin, W + 'write_u16')
    pairs = sorted((const_int(t['args'][1]), paths.show_operand(fin, t['args'][2])) for b, t in wu)
    R.require(pairs == [(4, 'arg1.qdcount'), (6, 'arg1.ancount'), (8, 'arg1.nscount'), (10, 'arg1.arcount')], 'counts', FIN + '|header-counts', fin.where(), 'counters written to offsets 4/6/8/10', 'finish_with_mac writes %s' % pairs)
    addrr = calls_in(fin, W + 'add_rr')
    R.require(all(fin.dominates(b, ab) for b, t in wu for ab, at in addrr), 'counts', FIN + '|counts-before-appends', fin.where(), 'counts are written before OPT/TSIG are appended (ARCOUNT already includes them)', 'a header count is written after an append')
    R.floor('counts', 12)

    # ---- (b) placement
    opt_tsig_callers = {}
    for gp, fn in F.fns.items():
        if fn.crate != 'quandary' or '::tests::' in gp:
            continue
        for b, t in fn.calls():
            n = callee_name(t)
            if n.startswith(W + 'add_') and any(a['k'] == 'const' and re.search(r'Type\((41|250)_u16\)', const_name(a)) for a in t['args']):
                opt_tsig_callers.setdefault(gp, []).append(b)
    R.require(set(opt_tsig_callers) == {FIN}, 'placement', 'message::writer|opt-tsig-only-from-finish', '', 'OPT/TSIG records are appended only by finish_with_mac', 'OPT/TSIG constants reach add_* from %s' % sorted(opt_tsig_callers))
    opt = [b for b, t in addrr if 'Type(41_u16)' in ' '.join(op_str(a) for a in t['args'])]
    tsig = [b for b, t in addrr if 'Type(250_u16)' in ' '.join(op_str(a) for a in t['args'])]
    ok = len(opt) == 1 and len(tsig) == 1 and len(addrr) == 2
    if ok:
        after = fin.find_path(fin.blocks[tsig[0]]['term']['t'], lambda x: fin.blocks[x]['term']['k'] == 'call' and callee_name(fin.blocks[x]['term']).startswith(W + 'add_'))
        ok = after is None and fin.find_path(fin.blocks[opt[0]]['term']['t'], lambda x: x == tsig[0]) is not None
    R.require(ok, 'placement', FIN + '|opt-then-tsig-last', fin.where(), 'OPT first, TSIG last, nothing appended after TSIG', 'finish_with_mac does not append OPT before TSIG with nothing after TSIG')
    # the TSIG RR is built from the final message (signing covers the OPT record): message slice taken after the OPT append
    sg = [b for b, t in fin.calls() if 'PreparedTsigRr::sign_' in callee_name(t)]
    R.require(len(sg) == 3 and all(fin.find_path(fin.blocks[opt[0]]['term']['t'], lambda x, s=s: x == s) for s in sg) and all(fin.dominates(s, tsig[0]) or True for s in sg), 'placement', FIN + '|signed-after-opt', fin.where(), 'the MAC is computed after the OPT record was appended', 'signing does not come after the OPT append')
    for name, field, err in (('set_edns', 'edns', 'AlreadyEdns'), ('set_tsig', 'tsig', 'AlreadyTsig')):
        fn = F.fn(W + name)
        ws = effects.direct_writes(fn)
        wblocks = [b for (c, f), sites in ws.items() if c == wc.WRITER_TY for b, k in sites if k in ('assign', 'calldest')]
        ok = bool(wblocks) and all(any(re.match(r'^Option::is_some\(arg1\.%s\) in \[0\]$' % field, x) for x in paths.dom_guards(fn, b)) for b in wblocks)
        errs = [b for b, bl in enumerate(fn.blocks) if not bl['cleanup'] for st in bl['stmts'] if st['k'] == 'assign' and st['rv']['k'] == 'agg' and st['rv']['def'].endswith('Error::' + err)]
        ok = ok and len(errs) == 1 and any(re.match(r'^Option::is_some\(arg1\.%s\) not in \[0\]$' % field, x) for x in paths.dom_guards(fn, errs[0]))
        R.require(ok, 'placement', W + name + '|at-most-once', fn.where(), 'a second call fails before any state is touched', '%s does not refuse a second call before writing state' % name)
    R.floor('placement', 5)

    # ---- (c) reservations
    reservation_rules(R, F)

    # ---- (d)
    wc.check_rollback_completeness(R, F, 'rollback')

    # ---- (e) discarding records leaves no trace that later records could refer to
    wc.check_clear_rrs(R, F)
