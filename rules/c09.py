"""C09 — EDNS(0) OPT handling (static clauses)."""
import re

from qv.facts import callee_name, const_name, const_int, is_place, op_str
from qv.flow import slice_of
from qv import paths, tables
from qv.rulelib import HMWC, W, calls_in, one_call, callers, server_fns
from rules import writer_common as wc

MODE = 'lib'
EXPLANATION = """
Decides structural clauses of C09:
(a) set_edns has exactly one caller on the request path, inside the additional-section scan under rr_type == OPT,
executed before the OPT record is parsed (an unparseable OPT still yields an OPT response), with the server's
configured payload size as argument; nothing else in server::* or the writer's public API path sets `edns`;
(b) validate_opt maps a non-root owner to extended RCODE FORMERR and a version other than 0 to BADVERS (16), and the
caller returns right after set_extended_rcode;
(c) the EDNS fields packed into the OPT TTL slot never pass through the RFC 2181 TTL clamp: on the read side the
version/flags operand of validate_opt does not derive from any value of type Ttl produced by a clamping constructor;
on the write side the TTL operand of the emitted OPT record does not pass through one;
(d) finish_with_mac emits the OPT record (owner root, TYPE OPT, CLASS = payload size, empty RDATA) exactly when `edns`
is set, and `edns` survives clear_rrs.
Not decided: behaviour for arbitrary OPT placement (C08), payload negotiation (C04).
"""
ASSUMPTIONS = ['every CFG path is assumed feasible', 'a Ttl read from a message is always built by the clamping From<u32> (checked: the reader constructs Ttl only through clamping constructors or the raw accessor)']


def check(R, F):
    hm = F.fn(HMWC)
    # ---- (a)
    cs = callers(F, W + 'set_edns', server_fns(F))
    R.require(len(cs) == 1 and cs[0][0].gpath == HMWC, 'set-edns-site', 'server|single-caller', hm.where(), 'one set_edns call in server::*',
              'set_edns is called from %s, expected exactly one call in handle_message_with_context' % sorted(c[0].gpath for c in cs))
    if cs and cs[0][0].gpath == HMWC:
        fn, b, t = cs[0]
        g = paths.dom_guards(fn, b)
        R.require(any(re.match(r'^Type::eq\(PeekRr::rr_type\(.*\),Type\(41_u16\)\) not in \[0\]$', x) for x in g), 'set-edns-site', HMWC + '|under-opt', fn.where(b),
                  'set_edns is dominated by rr_type == OPT', 'set_edns is not confined to the rr_type == OPT arm')
        arg = paths.show_operand(fn, t['args'][1])
        R.require(arg == 'arg1.edns_udp_payload_size', 'set-edns-site', HMWC + '|payload-argument', fn.where(b), 'argument is self.edns_udp_payload_size', 'set_edns argument is %s, expected the configured payload size' % arg)
        parses = [pb for pb, pt in calls_in(fn, "PeekRr::<'r, 'b>::parse") if any(re.match(r'^Type::eq\(PeekRr::rr_type\(.*\),Type\(41_u16\)\) not in \[0\]$', x) for x in paths.dom_guards(fn, pb))]
        R.require(len(parses) == 1 and fn.dominates(b, parses[0]), 'set-edns-site', HMWC + '|before-parse', fn.where(b), 'set_edns dominates the parse of the OPT record',
                  'set_edns no longer precedes the parse of the OPT record on every path (an unparseable OPT must still yield an EDNS response)')
        # the failure of set_edns is handled (SERVFAIL + return), not unwrapped
        nxt = paths.show_operand(fn, fn.blocks[fn.blocks[b]['term']['t']]['term'].get('args', [None])[0]) if fn.blocks[b]['term']['t'] is not None and fn.blocks[fn.blocks[b]['term']['t']]['term']['k'] == 'call' else ''
        R.require('unwrap' not in callee_name(fn.blocks[fn.blocks[b]['term']['t']]['term']) and 'expect' not in callee_name(fn.blocks[fn.blocks[b]['term']['t']]['term']), 'set-edns-site', HMWC + '|failure-handled', fn.where(b), 'set_edns failure is tested, not unwrapped', 'set_edns result is unwrapped')
    R.floor('set-edns-site', 5)

    # ---- (b)
    vo = F.fn('server::validate_opt')
    rows = []
    for b, blk in enumerate(vo.blocks):
        for st in blk['stmts']:
            if st['k'] == 'assign' and st['rv']['k'] == 'agg' and st['rv']['def'].endswith('Option::Some') and st['rv']['ops']:
                rows.append((const_name(st['rv']['ops'][0]) if st['rv']['ops'][0]['k'] == 'const' else op_str(st['rv']['ops'][0]), paths.direct_guards(vo, b), b))
    codes = {}
    for val, g, b in rows:
        m = re.search(r'ExtendedRcode\((\d+)_u16\)', val)
        codes[int(m.group(1)) if m else val] = (g, b)
    ok1 = 1 in codes and any(re.match(r'^Name::is_root\(.*\) in \[0\]$', x) for x in codes[1][0])
    R.require(ok1, 'validate-opt', 'server::validate_opt|owner-not-root->FORMERR', vo.where(codes[1][1]) if 1 in codes else vo.where(), 'non-root owner -> ExtendedRcode::FORMERR', 'validate_opt: no Some(ExtendedRcode 1) arm under !owner.is_root(); rows %s' % [(r[0], r[1]) for r in rows])
    # "version != 0": the version is bits 16..23 of the raw TTL field, extracted as (ttl >> 16) as u8 or masked with 0x00ff0000
    VER = r'^Ne\((cast\(Shr\(.*,16_\w+\)\),0_u8|BitAnd\(.*,16711680_u32\),0_u32)\) not in \[0\]$'
    ok16 = 16 in codes and any(re.match(VER, x) for x in codes[16][0])
    R.require(ok16, 'validate-opt', 'server::validate_opt|version-nonzero->BADVERS', vo.where(codes[16][1]) if 16 in codes else vo.where(), 'version != 0 -> BADVERS(16)', 'validate_opt: no Some(ExtendedRcode 16) arm under version != 0; rows %s' % [(r[0], r[1]) for r in rows])
    R.require(set(codes) == {1, 16}, 'validate-opt', 'server::validate_opt|only-two-errors', vo.where(), 'exactly FORMERR and BADVERS', 'validate_opt returns codes %s, expected exactly {1, 16}' % sorted(map(str, codes)))
    # version is bits 16..23 of the TTL field: (x >> 16) as u8
    if 16 in codes:
        edge = ([x for x in codes[16][0] if re.match(VER, x)] or [x for x in codes[16][0] if x.startswith('Ne(')] or ['?'])[0]
        R.require(re.match(VER, edge) is not None, 'validate-opt', 'server::validate_opt|version-bits', vo.where(), 'version = (ttl field >> 16) as u8', 'EDNS version is not extracted as (ttl >> 16) as u8: %s' % edge)
    # caller: set_extended_rcode(code) then return (no further response mutation)
    from qv.rulelib import mutates_response
    for b, t in calls_in(hm, W + 'set_extended_rcode'):
        bad = paths.none_after(hm, b, lambda x: hm.blocks[x]['term']['k'] == 'call' and mutates_response(hm, hm.blocks[x]['term']))
        R.require(bad is None, 'validate-opt', HMWC + '|return-after-extended-rcode', hm.where(b), 'returns after set_extended_rcode', 'processing continues after the OPT error was set: ' + (paths.fmt_path(hm, bad) if bad else ''))
        arg = paths.show_operand(hm, t['args'][1])
        R.require('validate_opt' in arg, 'validate-opt', HMWC + '|extended-rcode-from-validate-opt', hm.where(b), 'extended RCODE is validate_opt\'s result', 'set_extended_rcode argument %s does not come from validate_opt' % arg)
    R.floor('validate-opt', 6)

    # ---- (c) never through the clamp
    clamps = wc.clamping_ttl_constructors(F)
    # read side: slice the version operand inside validate_opt; interprocedurally follow parameters to the call site
    ver_ops = []
    for b, blk in enumerate(vo.blocks):
        for st in blk['stmts']:
            if st['k'] == 'assign' and st['rv']['k'] == 'bin' and (st['rv']['op'] == 'Shr' or (st['rv']['op'] == 'BitAnd' and const_int(st['rv']['b']) == 0x00ff0000)):
                ver_ops.append((b, st['rv']['a']))
    R.require(len(ver_ops) >= 1, 'opt-ttl-raw', 'server::validate_opt|version-source', vo.where(), 'version shift found', 'cannot find the version extraction in validate_opt')
    for b, o in ver_ops:
        sl = slice_of(vo, o)
        ttl_typed = sorted({vo.local_ty(n[1]) for n in sl.nodes if n[0] == 'local' and vo.local_ty(n[1]) == 'rr::ttl::Ttl'} |
                           {n[1] for n in sl.nodes if n[0] == 'place' and n[2] and n[2][-1] == 'ttl'})
        through = sorted(n for n in sl.call_names() if n in clamps)
        detail_bad = 'the EDNS version/flags are read from a Ttl value (%s)%s: Ttl values read from a message have passed the RFC 2181 clamp (values above 2^31-1 become 0), so an OPT TTL field with the DO bit or a high extended-RCODE byte loses its version' % (ttl_typed, (' through ' + str(through)) if through else '')
        ok = not ttl_typed and not through
        if ok:
            # follow parameters into the (single) caller
            for pidx in sorted(sl.params()):
                for cfn, cb, ct in callers(F, 'server::validate_opt'):
                    s2 = slice_of(cfn, ct['args'][pidx - 1])
                    names = s2.call_names()
                    thr2 = sorted(n for n in names if n in clamps or n.endswith("PeekRr::<'r, 'b>::ttl") or n.endswith('::ttl'))
                    typed2 = any(n[0] == 'local' and cfn.local_ty(n[1]) == 'rr::ttl::Ttl' for n in s2.nodes)
                    if pidx == 1 and vo.local_ty(1).startswith('&message::reader::ReadRr'):
                        continue  # the record itself (owner check); only flagged if the version derived from its .ttl above
                    if thr2 or typed2:
                        ok = False
                        detail_bad = 'validate_opt\'s argument %d derives from a clamped TTL in %s (%s)' % (pidx, cfn.gpath, thr2)
        R.require(ok, 'opt-ttl-raw', 'server::validate_opt|version-not-clamped', vo.where(b), 'EDNS version derives from the raw OPT TTL field, not from a clamped Ttl', detail_bad)
    # the reader builds Ttl only through clamping constructors (premise of the rule above) or exposes the raw field
    wc.check_ttl_not_clamped_on_write(R, F, 'opt-ttl-raw')

    # ---- (d) emission
    fin = F.fn(wc.FINISH)
    opt = [(b, t) for b, t in calls_in(fin, W + 'add_rr') if 'Type(41_u16)' in ' '.join(op_str(a) for a in t['args'])]
    R.require(len(opt) == 1, 'opt-emission', wc.FINISH + '|single', fin.where(), 'one OPT emission', '%d OPT emissions in finish_with_mac' % len(opt))
    if len(opt) == 1:
        b, t = opt[0]
        g = paths.dom_guards(fin, b)
        R.require(any(re.match(r'^discr\(arg1\.edns\) in \[1\]$', x) for x in g), 'opt-emission', wc.FINISH + '|iff-edns', fin.where(b), 'emitted under edns == Some', 'OPT emission is not guarded by edns.is_some(): %s' % g)
        owner = paths.show_operand(fin, t['args'][1])
        klass = paths.show_operand(fin, t['args'][3])
        rdata = paths.show_operand(fin, t['args'][5])
        R.require('Name::root()' in owner and 'udp_payload_size' in klass and 'Rdata::empty()' in rdata, 'opt-emission', wc.FINISH + '|fields', fin.where(b),
                  'owner root, class = payload size, empty RDATA', 'OPT record fields: owner=%s class=%s rdata=%s' % (owner, klass, rdata))
    from qv import effects
    ew = effects.writers_of(F, wc.WRITER_TY, 'edns', kinds=('assign', 'calldest'))
    R.require(set(ew.get('edns', {})) == {W + 'set_edns'}, 'opt-emission', 'message::writer|edns-writers', '', 'edns is assigned only by set_edns (never cleared)', 'Writer.edns is assigned by %s' % sorted(ew.get('edns', {})))
    R.floor('opt-emission', 4)
    R.floor('opt-ttl-raw', 4)
