"""C08 — malformed requests are answered with FORMERR (static clauses)."""
import re

from qv.facts import callee_name, const_name, op_str, is_place
from qv.flow import slice_of
from qv import paths
from qv.rulelib import (HMWC, HANDLE_QUERY, HANDLE_MESSAGE, server_fns, is_set_rcode, is_set_ext_rcode,
                        rcode_arg_value, mutates_response, enum_variant)

MODE = 'lib'
EXPLANATION = """
Decides three structural clauses of C08 on the MIR of server::*:
(a) FORMERR is final: from every call set_rcode(FORMERR) / set_extended_rcode(..) no CFG path to a return passes a
call that receives &mut Writer / &mut Context (interprocedurally: the same holds after the call site of the
function containing it, up to handle_message);
(b) every malformed-input arm the property lists is a FORMERR arm: the 11 expected branch conditions (Err of
read_question, Err of peek_rr x2, OPT/TSIG in answer/authority, second OPT, Err of parse for OPT and TSIG, TSIG not
last, FormErr of ReadTsigRr::try_from, octets after the last record, QUERY without question) each directly control a
set_rcode(FORMERR) call;
(c) scan order is message order: mark < answer+authority loop < additional loop < at_eom < rewind in dominance order,
and the loop bounds derive from ANCOUNT+NSCOUNT and ARCOUNT;
(d) FORMERR is not pre-empted: in the OPT arm the duplicate-OPT test is decided before set_edns is called (set_edns fails
with AlreadyEdns on a second OPT and that failure is answered SERVFAIL), and no non-FORMERR RCODE is set in the scan before
the record's own FORMERR tests;
(e) a counted record is 'delimited' only if it lies inside the message: peek_rr / skip_rr succeed only with
owner_end + 10 <= rr_end <= len(octets) (the PeekRr / Reader invariants of C15, re-proved here), so a record cut short by
even one octet takes the Err arm that is answered FORMERR.
(f) handle_query is dominated by the reads of ANCOUNT, NSCOUNT, ARCOUNT and by the end-of-message test.
Not decided: which of two simultaneous errors wins for arbitrary octets (value-level).
"""
ASSUMPTIONS = [
    'every CFG path of the MIR is assumed feasible (over-approximation); unwind edges excluded',
    'Writer/Context are mutated only through calls that receive them by &mut (borrow checker)',
]

FORMERR = 1


def _tsig_index_ranges(hm):
    """End expressions of the `0..end` ranges whose loop index is compared with ARCOUNT (the TSIG-is-last test)."""
    from qv import origins
    out = []
    cmps = [(b, i, st) for b, bl in enumerate(hm.blocks) if not bl['cleanup'] for i, st in enumerate(bl['stmts'])
            if st['k'] == 'assign' and st['rv']['k'] == 'bin' and st['rv']['op'] in ('Ne', 'Eq') and not st['lhs']['p']]
    for b, i_, st_ in cmps:
        sd = (b, i_, 'assign', st_)
        txt = '%s,%s' % (paths.show_operand(hm, st_['rv']['a']), paths.show_operand(hm, st_['rv']['b']))
        if 'Reader::arcount(' not in txt or 'range::next(' not in txt:
            continue
        for o in (sd[3]['rv']['a'], sd[3]['rv']['b']):
            if not is_place(o):
                continue
            # through `index + 1` if need be
            cands = [o]
            d2 = hm.single_def(o['pl']['l']) if not o['pl']['p'] else None
            if d2 and d2[2] == 'assign' and d2[3]['rv']['k'] == 'use' and is_place(d2[3]['rv']['op']) and d2[3]['rv']['op']['pl']['p']:
                d3 = hm.single_def(d2[3]['rv']['op']['pl']['l'])
                if d3 and d3[2] == 'assign' and d3[3]['rv']['k'] == 'bin':
                    cands = [d3[3]['rv']['a'], d3[3]['rv']['b']]
            elif d2 and d2[2] == 'assign' and d2[3]['rv']['k'] == 'bin':
                cands = [d2[3]['rv']['a'], d2[3]['rv']['b']]
            for c in cands:
                if not is_place(c):
                    continue
                for lf in origins.trace(hm, c['pl']['l'], origins.norm_path(c['pl']['p']), at=(b, 0)):
                    if lf[0] == 'call' and callee_name(lf[2]).endswith('::next') and 'Range' in callee_name(lf[2]):
                        it = lf[2]['args'][0]
                        base = hm.canon({'l': it['pl']['l'], 'p': it['pl']['p'] + ['deref'], 'ty': ''}) if is_place(it) else None
                        d4 = hm.single_def(base['l']) if base and not base['p'] else None
                        if d4 and d4[2] == 'call' and is_place(d4[3]['args'][0]):
                            d5 = hm.single_def(d4[3]['args'][0]['pl']['l'])
                            if d5 and d5[2] == 'assign' and d5[3]['rv']['k'] == 'agg' and len(d5[3]['rv']['ops']) == 2:
                                out.append(paths.show_operand(hm, d5[3]['rv']['ops'][1]))
    return out


def check(R, F):
    fns = server_fns(F)
    hm = F.fn(HMWC)
    hq = F.fn(HANDLE_QUERY)

    # ---- (a) FORMERR is final
    sites = []
    for fn in fns:
        for b, t in fn.calls():
            if is_set_rcode(t) and rcode_arg_value(fn, t) == FORMERR:
                sites.append((fn, b, t, 'set_rcode(FORMERR)'))
            elif is_set_ext_rcode(t):
                sites.append((fn, b, t, 'set_extended_rcode'))
    nth = {}
    for fn, b, t, what in sites:
        guards = paths.direct_guards(fn, b)
        gkey = ' & '.join(guards) or 'unconditional'
        k = (fn.gpath, gkey)
        nth[k] = nth.get(k, 0) + 1
        key = '%s|%s|%s#%d' % (fn.gpath, what, gkey, nth[k])
        bad = paths.none_after(fn, b, lambda x: fn.blocks[x]['term']['k'] == 'call' and mutates_response(fn, fn.blocks[x]['term']))
        if bad:
            tt = fn.blocks[bad[-1]]['term']
            R.bad('formerr-final', key, fn.where(b),
                  'after %s at %s a path continues to %s (%s) instead of returning: %s'
                  % (what, fn.where(b), callee_name(tt), fn.where(bad[-1]), paths.fmt_path(fn, bad)))
            continue
        # interprocedural: after the enclosing function returns to its caller(s) inside server::*
        ok = True
        detail = 'every path from the call reaches return without touching the response'
        frontier = [fn]
        seen = set()
        while frontier and ok:
            g = frontier.pop()
            if g.gpath in seen or g.gpath == HANDLE_MESSAGE:
                continue
            seen.add(g.gpath)
            for caller in fns:
                for cb, ct in caller.calls():
                    if g in F.resolve_callee(caller, ct):
                        if caller.gpath == HANDLE_MESSAGE:
                            continue
                        bad2 = paths.none_after(caller, cb, lambda x: caller.blocks[x]['term']['k'] == 'call' and mutates_response(caller, caller.blocks[x]['term']))
                        if bad2:
                            ok = False
                            tt = caller.blocks[bad2[-1]]['term']
                            detail = 'after returning to %s (%s) the response is modified by %s at %s' % (caller.gpath, caller.where(cb), callee_name(tt), caller.where(bad2[-1]))
                        frontier.append(caller)
        R.require(ok, 'formerr-final', key, fn.where(b), detail, detail)
    R.floor('formerr-final', 12, '10 set_rcode(FORMERR) in handle_message_with_context + 1 in handle_query + set_extended_rcode')

    # ---- (b) the expected malformed-input arms are FORMERR arms
    formerr_guards = []
    for fn, b, t, what in sites:
        if what != 'set_rcode(FORMERR)':
            continue
        dg, ag = paths.direct_guards(fn, b), paths.dom_guards(fn, b)
        formerr_guards.append((fn, b, dg, ag))
        # a site controlled by a computed boolean (the result of a helper that was extracted, a `let bad = ..`) is
        # controlled by each of the conditions under which that boolean takes the value tested
        for g in dg:
            for arm in paths.computed_bool_arms(g) or []:
                conds = [v for c in arm for v in paths.guard_variants(c)]
                formerr_guards.append((fn, b, conds, ag + conds))
    v0 = enum_variant(F, 'message::tsig::FromReadRrError', 'FormErr')

    def has(direct_re, trans_re=None, fnpath=HMWC):
        out = []
        for fn, b, dg, ag in formerr_guards:
            if fn.gpath != fnpath:
                continue
            if any(re.search(direct_re, g) for g in dg) and (trans_re is None or any(re.search(trans_re, g) for g in ag)):
                out.append((fn, b))
        return out
    OPT_EQ = r'Type::eq\(PeekRr::rr_type\(.*\),Type\(41_u16\)\) not in \[0\]'
    TSIG_EQ = r'Type::eq\(PeekRr::rr_type\(.*\),Type\(250_u16\)\) not in \[0\]'
    expected = [
        ('question-unparseable', r'^discr\(Reader::read_question\(arg2\.received\)\) (not in \[0\]|in \[1\])$', None, 1, HMWC),
        ('record-undelimitable', r'^discr\(Reader::peek_rr\(arg2\.received\)\) (not in \[0\]|in \[1\])$', None, 2, HMWC),
        ('opt-or-tsig-outside-additional', r'^true-when\{PeekRr::rr_type\(.*\)\.0 in \[41, 250\]\} not in \[0\]$', None, 1, HMWC),
        ('second-opt', r'^var:bool not in \[0\]$', OPT_EQ, 1, HMWC),
        ('opt-unparseable', r'^discr\(PeekRr::parse\(.*\)\) (not in \[0\]|in \[1\])$', OPT_EQ, 1, HMWC),
        # index != arcount - 1, or index + 1 != arcount
        ('tsig-not-last', r'^Ne\((range::next\(.*\)@Some\.0,Sub\(cast\(Reader::arcount\(arg2\.received\)\),1_usize\)|Add\(range::next\(.*\)@Some\.0,1_usize\),cast\(Reader::arcount\(arg2\.received\)\))\) not in \[0\]$', TSIG_EQ, 1, HMWC),
        ('tsig-unparseable', r'^discr\(PeekRr::parse\(.*\)\) (not in \[0\]|in \[1\])$', TSIG_EQ, 1, HMWC),
        ('tsig-class-or-ttl', r"^discr\(ReadTsigRr(<'a>)?::try_from\(.*\)@Err\.0\) in \[%d\]$" % v0, TSIG_EQ, 1, HMWC),
        ('trailing-octets', r'^Reader::at_eom\(arg2\.received\) in \[0\]$', None, 1, HMWC),
        ('query-without-question', r'^discr\(arg2\.question\) in \[0\]$', None, 1, HANDLE_QUERY),
    ]
    # conditions evaluated inside closures (a scan loop written as `try_for_each(|..| ..)`) are not visible here
    closure_scan = any(callee_name(t).endswith(('Reader::<\'a>::peek_rr', 'PeekRr::<\'_, \'_>::rr_type')) or 'peek_rr' in callee_name(t) for c in F.closures_of(HMWC) for b, t in c.calls())
    for name, dre, tre, n, fp in expected:
        hits = has(dre, tre, fp)
        fn = F.fn(fp)
        if len(hits) < n and closure_scan and fp == HMWC and name in ('record-undelimitable', 'opt-or-tsig-outside-additional'):
            R.bad('formerr-arm', '%s|%s' % (fp, name), fn.where(), 'part of the record scan runs inside a closure; the %s condition cannot be located there: shape not recognised' % name)
            continue
        R.require(len(hits) >= n, 'formerr-arm', '%s|%s' % (fp, name), fn.where(hits[0][1]) if hits else fn.where(),
                  '%d set_rcode(FORMERR) site(s) directly controlled by the %s condition' % (len(hits), name),
                  'no set_rcode(FORMERR) call is controlled by the %s condition (expected %d): that malformed input is no longer answered with FORMERR' % (name, n))
    # the index in the TSIG-is-last test counts the records of the ADDITIONAL section: it is produced by a loop over
    # 0..ARCOUNT (not over the whole message)
    ends = _tsig_index_ranges(hm)
    R.require(bool(ends) and all(e == 'cast(Reader::arcount(arg2.received))' for e in ends), 'formerr-arm', HMWC + '|tsig-index-counts-additional', hm.where(),
              'the TSIG position is compared with an index that runs over 0..ARCOUNT', 'the index compared with ARCOUNT in the TSIG-is-last test runs over 0..%s, not over the additional section' % ends)
    # the OPT owner check: validate_opt returns ExtendedRcode::FORMERR under !is_root
    vo = F.fn('server::validate_opt')
    found = False
    for b, blk in enumerate(vo.blocks):
        for st in blk['stmts']:
            if st['k'] == 'assign' and st['rv']['k'] == 'agg' and st['rv']['def'].endswith('Option::Some') and st['rv']['ops'] and 'ExtendedRcode(1_u16)' in op_str(st['rv']['ops'][0]):
                g = paths.direct_guards(vo, b)
                if any(re.search(r'Name::is_root\(.*owner.*\)', x) and x.endswith('in [0]') for x in g):
                    found = True
    R.require(found, 'formerr-arm', 'server::validate_opt|opt-owner-not-root', vo.where(),
              'validate_opt yields ExtendedRcode::FORMERR exactly under !owner.is_root()',
              'validate_opt no longer maps a non-root OPT owner to ExtendedRcode::FORMERR')

    # ---- (d) the duplicate-OPT decision precedes the step that fails on a duplicate
    second = has(r'^var:bool not in \[0\]$', OPT_EQ, HMWC)
    se = paths.call_blocks(hm, lambda n: n.endswith("Writer::<'a>::set_edns"))
    ok = len(second) == 1 and len(se) == 1
    detail = 'expected one duplicate-OPT FORMERR site and one set_edns call, found %d and %d' % (len(second), len(se))
    if ok:
        fb = second[0][1]
        tests = [p_ for (p_, s_) in hm.control_deps().get(fb, ()) if re.match(r'^var:bool not in \[0\]$', paths.explain_edge(hm, p_, s_) or '')]
        ok = bool(tests) and all(hm.dominates(p_, se[0]) for p_ in tests)
        detail = 'set_edns (which fails on a second OPT, answered SERVFAIL) is reachable before the duplicate-OPT test: a request with two OPT records gets SERVFAIL instead of FORMERR'
    R.require(ok, 'formerr-first', HMWC + '|second-opt-before-set_edns', hm.where(se[0]) if se else hm.where(), 'the duplicate-OPT test dominates set_edns', detail)
    # no other RCODE is set inside the two scan loops before a FORMERR test of the same arm: every non-FORMERR
    # set_rcode site in the scan must be dominated by the arm's first FORMERR decision or lie after all of them
    others = [(b, rcode_arg_value(hm, t)) for b, t in hm.calls() if is_set_rcode(t) and rcode_arg_value(hm, t) != FORMERR]
    for b, code in others:
        g = paths.dom_guards(hm, b)
        if not any(re.search(OPT_EQ, x) for x in g):
            continue
        late = [fb for fn_, fb, dg, ag in formerr_guards if fn_.gpath == HMWC and any(re.search(OPT_EQ, x) for x in ag) and any(re.match(r'^var:bool', x) for x in dg) and hm.find_path(b, lambda x, fb=fb: x == fb) and not hm.find_path(fb, lambda x: x == b)]
        R.require(not late, 'formerr-first', HMWC + '|rcode-%s-in-opt-arm' % code, hm.where(b), 'RCODE %s in the OPT arm is set only after the duplicate-OPT decision' % code,
                  'RCODE %s is set (and returned) in the OPT arm before the duplicate-OPT FORMERR test was reached' % code)
    R.floor('formerr-first', 2)

    # ---- (f) opcode dispatch only after the whole message was scanned
    disp = [b for b, t in hm.calls() if callee_name(t) == HANDLE_QUERY]
    reads = {w: [b for b, t in hm.calls() if callee_name(t).endswith("Reader::<'a>::" + w)] for w in ('ancount', 'nscount', 'arcount', 'at_eom')}
    if disp and all(reads.values()):
        bad_d = [b for b in disp if not all(any(hm.dominates(rb, b) for rb in bs) for bs in reads.values())]
        R.require(not bad_d, 'scan-before-dispatch', HMWC + '|counts-and-eom-read-first', hm.where(disp[0]), 'query processing starts only after ANCOUNT/NSCOUNT/ARCOUNT were read and the end-of-message test ran',
                  'handle_query is reachable at %s without the section counts having been read and the end-of-message test having run: counted-but-missing records would not be answered FORMERR' % [hm.where(b) for b in bad_d])
    else:
        R.bad('scan-before-dispatch', HMWC + '|counts-and-eom-read-first', hm.where(), 'cannot find the handle_query call and the ancount/nscount/arcount/at_eom reads')

    # ---- (c) scan order is message order
    def first_call(pred):
        bs = paths.call_blocks(hm, pred)
        return bs
    mark = first_call(lambda n: n.endswith("Reader::<'a>::mark"))
    rewind = first_call(lambda n: n.endswith("Reader::<'a>::rewind"))
    peeks = first_call(lambda n: n.endswith("Reader::<'a>::peek_rr"))
    eom = first_call(lambda n: n.endswith("Reader::<'a>::at_eom"))
    rq = first_call(lambda n: n.endswith("Reader::<'a>::read_question"))
    ok = len(mark) == 1 and len(rewind) == 1 and len(peeks) == 2 and len(eom) == 1 and len(rq) == 1
    if ok:
        p1, p2 = sorted(peeks, key=lambda b: len(hm.doms(b)))
        chain = [mark[0], p1, p2, eom[0], rewind[0]]
        names = ['mark', 'answer/authority peek_rr', 'additional peek_rr', 'at_eom', 'rewind']
        for i in range(len(chain) - 1):
            a, b = chain[i], chain[i + 1]
            # a must precede b on every path: a dominates b, or (for loops that may run zero times) every path to b
            # passes the loop header that controls a
            dom = hm.dominates(a, b)
            if not dom:
                # zero-iteration loops: accept if b is unreachable from entry when the loop header of a is removed
                hdrs = [p for (p, s) in hm.control_deps().get(a, ())]
                dom = any(hm.dominates(h, b) for h in hdrs) and b in hm.reachable(a)
            R.require(dom, 'scan-order', '%s|%s<%s' % (HMWC, names[i], names[i + 1]), hm.where(b),
                      '%s precedes %s on every path' % (names[i], names[i + 1]),
                      '%s no longer precedes %s on every path' % (names[i], names[i + 1]))
        # loop bounds
        for which, pb, want in (('answer/authority', p1, ('ancount', 'nscount')), ('additional', p2, ('arcount',))):
            got = set()
            for (p, s) in hm.transitive_control_edges(pb):
                sw = hm.blocks[p]['term']
                sl = slice_of(hm, sw['op'])
                for n in sl.call_names():
                    for w in ('ancount', 'nscount', 'arcount'):
                        if n.endswith("Reader::<'a>::" + w):
                            got.add(w)
            # the additional loop is nested after the first loop's exit edge, so it is also control dependent on it
            need = set(want)
            R.require(need <= got and (which == 'additional' or 'arcount' not in got), 'scan-order', '%s|%s-loop-bound' % (HMWC, which), hm.where(pb),
                      'loop over the %s section is bounded by %s' % (which, '+'.join(want)),
                      'loop over the %s section is bounded by %s, expected %s' % (which, sorted(got), '+'.join(want)))
        # every iteration consumes the record it peeked at: from each peek_rr call, every path that comes back to
        # the same call (the loop's back edge) passes PeekRr::skip or PeekRr::parse
        for which, pb in (('answer/authority', p1), ('additional', p2)):
            consume = set(paths.call_blocks(hm, lambda n: n.endswith("PeekRr::<'r, 'b>::skip") or n.endswith("PeekRr::<'r, 'b>::parse")))
            succ = hm.succs()[pb]
            path = None
            for s0 in succ:
                path = hm.find_path(s0, lambda x: x == pb, avoid=consume)
                if path:
                    break
            R.require(path is None, 'scan-advance', '%s|%s-loop' % (HMWC, which), hm.where(pb),
                      'every iteration of the %s scan consumes the peeked record (skip or parse) before peeking again' % which,
                      'a path returns to peek_rr without skipping or parsing the record just peeked at, so the same record is '
                      'scanned again and the scan never reaches the end of the message: ' + (paths.fmt_path(hm, [pb] + path) if path else ''))
    else:
        R.bad('scan-order', HMWC + '|shape', hm.where(), 'expected exactly 1 mark, 1 rewind, 2 peek_rr, 1 at_eom, 1 read_question call; got %s' % [len(mark), len(rewind), len(peeks), len(eom), len(rq)])
    R.floor('formerr-arm', 11)
    R.floor('scan-order', 6)
    R.floor('scan-advance', 2)

    # ---- (e) delimitation: the reader's invariants (shared with C15)
    from rules import c15, e5
    c15.check_invariants(R, F, e5.make_summary(F))
