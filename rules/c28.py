"""C28 — RRL counts correctly under concurrency (static clauses)."""
import re

from qv.facts import callee_name, is_place
from qv import paths, locks, effects
from qv.rulelib import calls_in

MODE = 'lib'
EXPLANATION = """
The bucket is `Vec<Mutex<Entry>>`, so an Entry is reachable only through a MutexGuard (type-level). The check decides
that process_response performs its whole read-modify-write on one bucket inside ONE critical section:
(a) Rrl.buckets has type Vec<Mutex<Entry>> and Entry's fields are touched only by Rrl::new (construction) and
process_response;
(b) process_response acquires exactly one lock, on the bucket selected by the key hash;
(c) every access to Entry.key / count / last_refill (the key comparison, the refill, the count >= limit test, the
increment, the collision overwrite) lies in the region where that one guard is held, and the guard is not released and
re-acquired in between (no release block can reach an access);
(d) no other lock is acquired while the guard is held (no nested critical section, no deadlock through this path).
With Rust's aliasing rules this is the atomicity of check-and-increment for every schedule.
"""
ASSUMPTIONS = ['std::sync::Mutex provides mutual exclusion', 'every CFG path is assumed feasible']
PR = 'server::rrl::Rrl::process_response'


def check(R, F):
    st = F.struct('server::rrl::Rrl')
    bty = [f['ty'] for v in st['variants'] for f in v['fields'] if f['name'] == 'buckets']
    R.require(bty == ['std::vec::Vec<std::sync::Mutex<server::rrl::Entry>>'], 'bucket-type', 'server::rrl::Rrl|buckets', '', 'buckets: Vec<Mutex<Entry>>', 'Rrl.buckets has type %s: entries are no longer individually mutex-protected' % bty)
    touch = set()
    for gp, fn in F.fns.items():
        for b, blk in enumerate(fn.blocks):
            if blk['cleanup']:
                continue
            from qv.facts import block_reads, block_writes
            for pl in block_reads(fn, b) + block_writes(fn, b):
                for cont, f in effects.place_field_chain(fn, fn.canon(pl)):
                    if cont == 'server::rrl::Entry':
                        touch.add(gp)
    R.require(touch <= {PR, 'server::rrl::Rrl::new'} and PR in touch, 'bucket-type', 'server::rrl::Entry|accessors', '', 'Entry fields are accessed only in %s' % sorted(touch), 'Entry fields are accessed by %s' % sorted(touch))
    pr = F.fn(PR)
    ls = locks.lock_sites(pr)
    R.require(len(ls) == 1 and ls[0][2] == 'server::rrl::Entry', 'single-section', PR + '|one-lock', pr.where(ls[0][0]) if ls else pr.where(), 'exactly one lock() on a bucket', '%d lock acquisitions in process_response (%s)' % (len(ls), [x[2] for x in ls]))
    if len(ls) != 1:
        return
    lb, lt, cls = ls[0]
    recv = paths.show_operand(pr, lt['args'][0])
    R.require('index(arg1.buckets' in recv.replace('Vec<T, A>::', '').replace('Index<I>>::', '') or 'arg1.buckets' in recv, 'single-section', PR + '|locks-selected-bucket', pr.where(lb), 'locks buckets[hash(key) % len]', 'the lock is taken on %s' % recv)
    region, g, rel = locks.held_region(pr, lb)
    n = 0
    for field in ('key', 'count', 'last_refill'):
        acc = locks.field_readers(pr, 'server::rrl::Entry', field) | locks.field_writers(pr, 'server::rrl::Entry', field)
        for b in sorted(acc):
            n += 1
            inside = b in region or b in rel
            after_release = any(pr.find_path(r, lambda x: x == b) for r in rel if r != b)
            R.require(inside and not after_release, 'single-section', '%s|%s-access#%d' % (PR, field, sorted(acc).index(b)), pr.where(b), 'Entry.%s accessed while the guard is held' % field,
                      'Entry.%s is accessed at %s %s' % (field, pr.where(b), 'after the guard may have been released (a release block reaches it)' if after_release else 'outside the region where the guard is held'))
    R.floor('single-section', 8, 'lock + selected bucket + accesses to key/count/last_refill')
    nested = [(b, callee_name(pr.blocks[b]['term'])) for b in region if pr.blocks[b]['term']['k'] == 'call' and callee_name(pr.blocks[b]['term']) in locks.LOCK_FNS and b != lb]
    R.require(not nested, 'single-section', PR + '|no-nested-lock', pr.where(), 'no lock acquired while the bucket guard is held', 'nested acquisition while the bucket guard is held: %s' % nested)
    # the guard is released on every path to return
    rets = pr.ret_blocks()
    leak = None
    for r in rets:
        p = pr.find_path(lt['t'], lambda x: x == r, avoid=rel)
        if p:
            leak = p
    R.require(leak is None, 'single-section', PR + '|released-on-all-exits', pr.where(), 'guard dropped on every path to return', 'a path reaches return with the guard never dropped')
    R.extra['exhaustive'] = True
