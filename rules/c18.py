"""C18 — RDATA reading and validation are total and consistent (static clauses)."""
import re

from qv.facts import callee_name, const_int, is_place
from qv import paths, origins
from qv.flow import slice_of
from qv.bounds import Analyzer, lin, add, le, lt, eq, fmt
from rules import e5, namewire
from rules import rdata_tables as rt

MODE = 'lib'
TECHNIQUE = 'static analysis: panic-site census over rustc MIR with dominating-guard linear entailment (Fourier-Motzkin) and verified callee summaries; dispatch-table extraction and sibling comparison; def-use slices'
EXPLANATION = """
Decides on the MIR of rr/rdata/*, for ANY (class, type, message, cursor, rdlength):
(a) totality of Rdata::read and Rdata::validate and everything they dispatch to (found through the function pointers in
the dispatch table): every panic-capable site is discharged by linear entailment from dominating guards and verified
summaries (prepare_to_read_rdata: Ok(buf) => len(buf) = cursor + rdlength <= len(message); name decoding; counted
prefixes of character-strings and options), by the Vec-assembled-from-bounded-pieces lemma for the five decompressing
readers, or by the closure lemma (the validating closure only ever receives prepare_to_read_rdata's buffer);
(b) summary used by the reader: Rdata::read = Ok(_) => cursor + rdlength <= len(message): every arm of the dispatch goes
through prepare_to_read_rdata with read's own (message, cursor, rdlength) before it can succeed;
(c) sibling tables: read and validate dispatch on exactly the same (type, class) keys; an arm of read either validates
in place with the validator that validate uses for that key, or decompresses with the reader of the same type; unknown
types go through prepare_to_read_rdata only;
(d) every decompressing reader starts with prepare_to_read_rdata, accepts only if the consumed length equals RDLENGTH
(the Ok return is guarded by a length equation over len(buf), cursor and the on-the-wire name lengths) and never uses an
uncompressed length (wire_repr().len()) as an offset into the message;
(e) looping validators consume everything: validate_as_opt / validate_as_txt return Ok only with offset >= len.
(f) pointer width: the writer builds compression pointers only through HintPointer::new, which answers Some only for
offsets <= 16383, so `0xc000 | p` decodes back to p (a necessary condition of the compressed write-then-read round trip).
Not decided: "accepts exactly what the RFC allows" and the write-then-read round trip (value-level).
"""
ASSUMPTIONS = ['every CFG path is assumed feasible', 'unsafe DST construction of Name (name/mod.rs) is trusted', 'std Vec/slice APIs behave as documented']
RD = 'rr::rdata::'
ROOTS = [rt.READ, rt.VALIDATE]
# unsafe dynamically-sized-type plumbing of Name: layout arithmetic on lengths the type has already validated (DESIGN §8)
TRUSTED = ('name::Name::initialize_into', 'name::Name::make_fat_pointer_mut', 'name::Name::size_required_for', 'name::Name::wire_repr', 'name::new_boxed_name',
           'name::Name::len', 'rr::rdata::Rdata::from_unchecked', '<rr::rdata::Rdata as std::borrow::ToOwned>::to_owned')
CLO = rt.READ + '::{closure#1}::{closure#0}'


def read_closure_premise(F, fn, b):
    """The in-place validating closure of Rdata::read is only ever applied (by Result::and_then) to the buffer that
    prepare_to_read_rdata(message, cursor, rdlength) returned, and indexes it from that same cursor."""
    c1 = F.fn(rt.READ + '::{closure#1}')
    built = [(bb, i, st) for bb, blk in enumerate(c1.blocks) for i, st in enumerate(blk['stmts']) if st['k'] == 'assign' and st['rv']['k'] == 'agg' and st['rv'].get('ak') == 'closure' and st['rv']['def'] == CLO]
    others = [g.gpath for g in F.fns.values() if g.gpath != c1.gpath for blk in g.blocks for st in blk['stmts'] if st['k'] == 'assign' and st['rv']['k'] == 'agg' and st['rv'].get('ak') == 'closure' and st['rv']['def'] == CLO]
    if len(built) != 1 or others:
        return False, 'the closure is built %d times in closure#1 and in %s' % (len(built), others)
    prep = [(bb, t) for bb, t in c1.calls() if callee_name(t) == RD + 'helpers::prepare_to_read_rdata']
    andt = [(bb, t) for bb, t in c1.calls() if callee_name(t) == 'std::result::Result::<T, E>::and_then']
    if len(prep) != 1 or len(andt) != 1:
        return False, 'expected one prepare_to_read_rdata and one and_then in closure#1'
    pargs = [paths.show_operand(c1, a) for a in prep[0][1]['args']]
    recv = paths.show_operand(c1, andt[0][1]['args'][0])
    cap0 = paths.show_operand(c1, built[0][2]['rv']['ops'][0])
    same_cursor = pargs[1] in ('arg1.1', '(*arg1.1)') or pargs[1].endswith('arg1.1') or pargs[1] == 'arg1.1'
    ok = pargs[0].endswith('arg1.0') and 'arg1.1' in pargs[1] and 'arg1.2' in pargs[2] and recv.startswith('helpers::prepare_to_read_rdata(') and 'arg1.1' in cap0
    # inside the closure: the index starts at capture .0 and the converted slice is that index
    idx = [t for bb, t in fn.calls() if 'Index<' in callee_name(t)]
    ok2 = len(idx) == 1 and paths.show_operand(fn, idx[0]['args'][0]) in ('arg2', 'reborrow(arg2)') and 'arg1.0' in paths.show_operand(fn, idx[0]['args'][1])
    # premise on the read side: the captures of closure#1 are read's own (message, cursor, rdlength)
    rd = F.fn(rt.READ)
    caps = [[paths.show_operand(rd, o) for o in st['rv']['ops']] for blk in rd.blocks for st in blk['stmts'] if st['k'] == 'assign' and st['rv']['k'] == 'agg' and st['rv'].get('ak') == 'closure' and st['rv']['def'] == rt.READ + '::{closure#1}']
    ok3 = len(caps) == 1 and len(caps[0]) == 3 and all(x in c for x, c in zip(('arg3', 'arg4', 'arg5'), caps[0]))
    return ok and ok2 and ok3, 'and_then(prepare_to_read_rdata(message, cursor, rdlength), |buf| .. &buf[cursor..] ..): args %s, captured cursor %s, closure#1 captures %s; hence cursor <= len(buf) and len(buf) - cursor = rdlength <= 65535' % (pargs, cap0, caps)


EXCEPTIONS = {
    (CLO, 'range-index', 1): ('buf is prepare_to_read_rdata\'s result: len(buf) = cursor + rdlength', read_closure_premise),
    (CLO, 'unwrap', 1): ('len(buf) - cursor = rdlength <= 65535', read_closure_premise),
}
for _g in ('std13::<impl rr::rdata::Rdata>::read_soa', 'std13::<impl rr::rdata::Rdata>::read_mx', 'srv::<impl rr::rdata::Rdata>::read_in_srv', 'std13::<impl rr::rdata::Rdata>::read_ch_a', 'std13::<impl rr::rdata::Rdata>::read_minfo'):
    EXCEPTIONS[(RD + _g, 'unwrap', 1)] = ('the Vec is assembled from pieces whose lengths sum to far less than 65535', e5.vec_pieces_bound)


def readers_in_table(F):
    tab, b = rt.extract(F.fn(rt.READ))
    out = {}
    for k, effs in tab.items():
        for e in effs:
            m = re.match(r'^read::\{closure#(\d)\}(?:\((.*)\))?$', e)
            if m:
                out[k] = (int(m.group(1)), m.group(2))
    return out


def check_tables(R, F):
    rtab = readers_in_table(F)
    vtab, _ = rt.extract(F.fn(rt.VALIDATE))
    vfirst = {k: (v[0] if v else None) for k, v in vtab.items()}
    keys_r = {k for k in rtab if k[0] != '_'}
    keys_v = {k for k, v in vfirst.items() if k[0] != '_' and v}
    R.require(keys_r == keys_v, 'tables', 'rr::rdata|read-validate-same-keys', '', '%d (type, class) keys in both tables' % len(keys_r),
              'read and validate dispatch on different (type, class) keys: only in read %s, only in validate %s' % (sorted(keys_r - keys_v, key=str), sorted(keys_v - keys_r, key=str)))
    pair = {'helpers::validate_name': 'helpers::read_name_rdata'}
    for k in sorted(keys_r & keys_v, key=str):
        kind, fnn = rtab[k]
        v = vfirst[k]
        if kind == 1:
            ok = fnn == v
            why = 'read validates key %s in place with %s but validate uses %s' % (k, fnn, v)
        else:
            want = pair.get(v) or v.replace('validate_as_', 'read_')
            ok = fnn == want
            why = 'read decompresses key %s with %s but validate uses %s (expected reader %s)' % (k, fnn, v, want)
        R.require(ok, 'tables', 'rr::rdata|key-%s/%s' % k, '', 'read: %s(%s), validate: %s' % ('validate in place' if kind == 1 else 'decompress', fnn, v), why)
    d = rtab.get(('_', '*'))
    R.require(d is not None and d[0] == 1 and (d[1] is None or 'closure' in (d[1] or '')), 'tables', 'rr::rdata|unknown-types-unvalidated', '', 'unknown types: length check only', 'the fall-through arm of read is %s' % (d,))
    R.floor('tables', 22)


def check_readers(R, F, S):
    rtab = readers_in_table(F)
    readers = sorted({fnn for k, (kind, fnn) in rtab.items() if kind == 0 and fnn})
    for short in readers:
        cands = [g for g in F.fns if g.endswith('::' + short.split('::')[-1]) and g.startswith(RD)]
        fn = F.fn(cands[0])
        prep = [(b, t) for b, t in fn.calls() if callee_name(t) == RD + 'helpers::prepare_to_read_rdata']
        oks = namewire.ok_blocks(fn)
        ok = len(prep) == 1 and e5.forwards_to(fn, prep[0][1], (RD + 'helpers::prepare_to_read_rdata',)) and all(fn.dominates(prep[0][0], b) for b in range(len(fn.blocks)) if b != prep[0][0] and not fn.blocks[b]['cleanup'] and b in fn.reachable(0) and b != 0)
        R.require(ok, 'readers', fn.gpath + '|starts-with-prepare', fn.where(), 'prepare_to_read_rdata(message, cursor, rdlength) dominates everything else', '%s does not start by checking RDLENGTH against the message with its own arguments' % short)
        # Ok only under a length equation
        okl = bool(oks)
        det = []
        for b in oks:
            g = paths.dom_guards(fn, b)
            eqs = [x for x in g if re.match(r'^Ne\(.*\) in \[0\]$|^Eq\(.*\) not in \[0\]$', x) and 'slice::len' in x and ('arg2' in x)]
            if not eqs:
                okl = False
                det.append('Ok at %s is not guarded by a consumed-length equation' % fn.where(b))
            for x in eqs:
                if 'wire_repr' in x:
                    okl = False
                    det.append('the length equation uses an uncompressed length: %s' % x[:120])
        R.require(okl, 'readers', fn.gpath + '|accepts-only-exact-length', fn.where(), 'Ok only if the fields consumed exactly RDLENGTH octets', '; '.join(det) or 'no Ok return')
        # offsets into the message never come from uncompressed lengths
        bad = []
        for b, t in fn.calls():
            n = callee_name(t)
            if ('Index<' in n or n.endswith('<impl [T]>::get')) and len(t['args']) == 2:
                base = paths.show_operand(fn, t['args'][0])
                if 'prepare_to_read_rdata' not in base and 'arg1' not in base:
                    continue
                sl = slice_of(fn, t['args'][1])
                if any(x.endswith('Name::wire_repr') for x in sl.call_names()):
                    bad.append(fn.where(b))
            if n == 'name::Name::try_from_compressed':
                sl = slice_of(fn, t['args'][1])
                if any(x.endswith('Name::wire_repr') for x in sl.call_names()):
                    bad.append(fn.where(b))
        R.require(not bad, 'readers', fn.gpath + '|offsets-from-wire-lengths', fn.where(), 'message offsets derive from cursor, constants and on-the-wire name lengths only',
                  'an offset into the message is computed from an UNCOMPRESSED name length (wire_repr().len()) at %s: wrong as soon as the name is compressed on the wire' % bad)
    R.floor('readers', 18)
    # (e) looping validators consume everything
    for short, counter in (('opt::<impl rr::rdata::Rdata>::validate_as_opt', 'offset'), ('std13::<impl rr::rdata::Rdata>::validate_as_txt', 'offset')):
        fn = F.fn(RD + short)
        an = Analyzer(fn, F, S)
        off = namewire.local_named(fn, counter)
        oks = namewire.ok_blocks(fn)
        good = off is not None and len(oks) >= 1
        det = 'no `%s` counter / Ok return' % counter
        for b in oks if good else []:
            ok, unmet = e5.prove_at(an, b, 0, [le(lin('len:(*_1).octets'), lin('L%d' % off))])
            if not ok:
                good = False
                det = 'at %s cannot prove %s' % (fn.where(b), unmet)
        R.require(good, 'consumes-all', fn.gpath, fn.where(), 'Ok only with %s >= len(rdata): no octets are left unexamined' % counter, 'the validator can return Ok with octets left unexamined: ' + det)
    R.floor('consumes-all', 2)


def check_read_post(R, F, S):
    """(b) Rdata::read = Ok => cursor + rdlength <= len(message)."""
    rd = F.fn(rt.READ)
    rtab = readers_in_table(F)
    # every arm calls closure#0 or closure#1, whose captures are read's own (message, cursor, rdlength)
    caps = {}
    for blk in rd.blocks:
        for st in blk['stmts']:
            if st['k'] == 'assign' and st['rv']['k'] == 'agg' and st['rv'].get('ak') == 'closure':
                caps[st['rv']['def']] = [paths.show_operand(rd, o) for o in st['rv']['ops']]
    ok = all(len(caps.get(rt.READ + '::{closure#%d}' % i, [])) == 3 and all(x in c for x, c in zip(('arg3', 'arg4', 'arg5'), caps[rt.READ + '::{closure#%d}' % i])) for i in (0, 1))
    c0 = F.fn(rt.READ + '::{closure#0}')
    ind = [t for b, t in c0.calls() if not callee_name(t)]
    ok0 = len(ind) == 1 and [paths.show_operand(c0, a) for a in ind[0]['args']] == ['arg1.0', 'arg1.1', 'arg1.2']
    arms = all(v[0] in (0, 1) for v in rtab.values()) and len(rtab) >= 21
    R.require(ok and ok0 and arms, 'read-post', rt.READ + '|every-arm-checks-rdlength', rd.where(), 'every arm runs reader(message, cursor, rdlength) or prepare_to_read_rdata(message, cursor, rdlength) before succeeding',
              'an arm of Rdata::read can succeed without checking cursor + rdlength against the message (captures %s)' % caps)
    # the postcondition of prepare_to_read_rdata itself: proved at its Ok return
    pp = F.fn(RD + 'helpers::prepare_to_read_rdata')
    an = Analyzer(pp, F, S)
    good = False
    det = 'no Ok return'
    for b in namewire.ok_blocks(pp):
        idx = [(bb, t) for bb, t in pp.calls() if 'Index<' in callee_name(t) and pp.dominates(bb, b)]
        if len(idx) == 1 and 'RangeTo' in paths.show_operand(pp, idx[0][1]['args'][1]) and paths.show_operand(pp, idx[0][1]['args'][0]) in ('arg1', 'reborrow(arg1)'):
            agg = an._range_agg(idx[0][1]['args'][1])
            if agg:
                an._site = (idx[0][0], None)
                end = agg[1][0]
                ok1, unmet = e5.prove_at(an, idx[0][0], None, eq(end, add(lin('L2'), lin('L3'))) + [le(end, lin('len:(*_1)'))])
                good, det = ok1, unmet
    if not good:
        # the same computation as one Option chain: cursor.checked_add(rdlength).and_then(|end| message.get(..end)).ok_or(..)
        # Some(buf) <=> end = cursor + rdlength did not overflow and end <= len(message), buf = message[..end]
        from qv import origins
        lv = origins.trace(pp, 0, [('down', 'Ok'), ('f', 0)])
        if len(lv) == 1 and lv[0][0] == 'call' and callee_name(lv[0][2]) == 'std::option::Option::<T>::and_then' and lv[0][3] == [('down', 'Some'), ('f', 0)]:
            t_ = lv[0][2]
            recv = paths.show_operand(pp, t_['args'][0])
            built = [lf for lf in (origins.trace(pp, t_['args'][1]['pl']['l'], []) if is_place(t_['args'][1]) else []) if lf[0] == 'rv' and lf[3].get('k') == 'agg' and lf[3].get('ak') == 'closure']
            inner = F.fns.get(built[0][3]['def']) if len(built) == 1 else None
            caps = [paths.show_operand(pp, o) for o in built[0][3]['ops']] if built else []
            if inner is not None and re.match(r'^num::checked_add\((arg2,cast\(arg3\)|cast\(arg3\),arg2)\)$', recv):
                gets = [(bb, tt) for bb, tt in inner.calls() if callee_name(tt) == 'core::slice::<impl [T]>::get']
                if len(gets) == 1 and len([1 for bb, tt in inner.calls()]) == 1 and gets[0][1]['dest']['l'] == 0 and not gets[0][1]['dest']['p']:
                    ga = [paths.show_operand(inner, a) for a in gets[0][1]['args']]
                    m_ = re.match(r'^arg1\.(\d+)$', ga[0])
                    good = m_ is not None and int(m_.group(1)) < len(caps) and caps[int(m_.group(1))] in ('arg1', 'reborrow(arg1)') and ga[1] in ('ops::RangeTo{arg2}', 'RangeTo{arg2}')
                    det = 'the Option chain does not slice message[..cursor + rdlength]' if not good else ''
    R.require(good, 'read-post', RD + 'helpers::prepare_to_read_rdata|post', pp.where(), 'Ok(&message[..end]) with end = cursor + rdlength <= len(message)', 'prepare_to_read_rdata summary does not hold: ' + det)
    R.floor('read-post', 2)


def check(R, F):
    S = e5.make_summary(F)
    reach = sorted(g for g in F.reachable_fns(ROOTS) if F.fns[g].crate == 'quandary')
    trusted = [g for g in reach if g in TRUSTED]
    fns = [F.fns[g] for g in reach if g not in TRUSTED and not g.startswith('name::wire::') and not g.startswith('name::Name::')]
    exc = dict(EXCEPTIONS)
    n = e5.run_sites(R, F, fns, 'totality', exceptions=exc, S=S)
    R.floor('totality', 50, 'panic-capable sites counted in the functions reachable from Rdata::read / Rdata::validate')
    R.extra['panic_sites'] = n
    R.extra['functions_analysed'] = [f.gpath for f in fns]
    R.extra['trusted_functions'] = trusted
    R.note('name::wire / Name wrappers are covered by the C14 rules (their summaries are re-established below)')
    e5.check_pres(R, F, S, 'totality.pre', only=('name::wire::parse_pointer',))
    check_read_post(R, F, S)
    for gp, mn in ((RD + 'std13::validate_character_string', 1), (RD + 'opt::validate_option', 4)):
        e5.verify_post(R, F, S, 'summary', gp, [((), 'Ok(n) => %d <= n <= len(octets)' % mn, lambda an, e, mn=mn: [le(lin(c=mn), e), le(e, lin('len:(*_1)'))])])
    namewire.check_all(R, F, S, 'summary')
    R.floor('summary', 14)
    check_tables(R, F)
    check_readers(R, F, S)
    # (f) a structural necessary condition of "written with compression reads back the same": the pointer the writer
    # emits for an RDATA name decodes to the offset it was made from, i.e. that offset fits the 14 bits (seed C18-e)
    from rules import c13
    c13.check_pointer_14bit(R, F, 'pointer-width')
    R.floor('pointer-width', 1)
    # accessor premise of the length modelling: Rdata::len() is octets.len()
    ln = F.fn('rr::rdata::Rdata::len')
    txt = [paths.show_operand(ln, st['rv']['op']) for blk in ln.blocks for st in blk['stmts'] if st['k'] == 'assign' and not st['lhs']['p'] and st['lhs']['l'] == 0 and st['rv']['k'] == 'use']
    calls = [paths.short(callee_name(t)) for b, t in ln.calls()]
    R.require(calls == ['slice::len'] and 'octets' in paths.show_operand(ln, list(ln.calls())[0][1]['args'][0]), 'rdata-accessors', 'rr::rdata::Rdata::len', ln.where(), 'Rdata::len() = self.octets.len()', 'Rdata::len is no longer octets.len(): %s' % calls)
