"""(TYPE, CLASS) dispatch tables of the five sibling functions over RDATA (used by C13, C18, C19, C24)."""
import re

from qv.facts import callee_name, const_name, is_place, op_str
from qv import paths, tables
from qv.flow import slice_of

EQUALS = 'rr::rdata::Rdata::equals'
VALIDATE = 'rr::rdata::Rdata::validate'
READ = 'rr::rdata::Rdata::read'
COMPONENTS = 'rr::rdata::Rdata::components'
PARSE_RDATA = 'zone_file::record::<impl zone_file::Parser<S>>::parse_rdata'

IGNORE = ('::deref', 'Deref>::deref', 'Rdata::octets', 'AsRef', 'Borrow', 'Try>::branch', 'from_residual', 'Class as std::cmp::PartialEq>::eq',
          'Type as std::cmp::PartialEq>::eq')


def type_switch(fn):
    """The switch on the RR type code (a `.0: u16` field of a Type argument) with the most arms."""
    best = None
    for b, blk in enumerate(fn.blocks):
        t = blk['term']
        if blk['cleanup'] or t['k'] != 'switch' or not is_place(t['op']):
            continue
        c = fn.canon(t['op']['pl'])
        if not c['p'] or not isinstance(c['p'][-1], dict) or c['p'][-1].get('n') != '0':
            continue
        basety = fn.local_ty(c['l'])
        if 'rr_type::Type' not in basety and 'rr_type::Type' not in (c['p'][-2].get('ty', '') if len(c['p']) > 1 and isinstance(c['p'][-2], dict) else ''):
            continue
        if best is None or len(t['targets']) > len(fn.blocks[best]['term']['targets']):
            best = b
    return best


def class_guard(fn, b):
    """Class constant C such that block b is dominated by the true edge of `class == C` (None if unguarded)."""
    out = []
    for g in paths.dom_guards(fn, b):
        m = re.match(r'^Class::eq\(.*,Class\((\d+)_u16\)\) not in \[0\]$', g) or re.match(r'^Class::eq\(Class\((\d+)_u16\),.*\) not in \[0\]$', g) \
            or re.match(r'^Class::ne\(.*,Class\((\d+)_u16\)\) in \[0\]$', g) or re.match(r'^Class::ne\(Class\((\d+)_u16\),.*\) in \[0\]$', g)
        if m:
            out.append(int(m.group(1)))
    return out[-1] if out else None


def effect_name(fn, t):
    """Name of the effect of a call: the callee, plus fn-item constant arguments (the reader / validator passed to
    a dispatch closure)."""
    n = callee_name(t) or ''
    items = [a['def'] for a in t['args'] if a['k'] == 'const' and a.get('def')]
    for a in t['args']:
        if is_place(a):
            for c in sorted(slice_of(fn, a, through_calls=False).consts()):
                if c.startswith('fn '):
                    items.append(c[3:])
    if not n and is_place(t.get('fn')):
        n = 'indirect'
    s = paths.short(n)
    if '{closure#' in n:
        s = n.split('::')[-2] + '::' + n.split('::')[-1]
    if items:
        s += '(' + ','.join(paths.short(i) for i in items) + ')'
    return s


def extract(fn):
    """{(type value or '_', class or '*'): [effect names]} for the function's match on the RR type."""
    b = type_switch(fn)
    if b is None:
        return None, None
    rows = tables.table(fn, b)
    out = {}
    excl = set()
    for r in rows:
        if not r['otherwise']:
            excl |= r['region']
    for r in rows:
        region = r['region']
        if r['otherwise']:
            # the default arm is also the target of failed class guards: take everything reachable from it that is
            # not exclusive to another arm
            region = fn.reachable(r['target'], avoid={b}) - excl
        effs = {}
        for name, cargs, bb in tables.region_calls(fn, region):
            if any(x in name for x in IGNORE):
                continue
            cg = class_guard(fn, bb)
            effs.setdefault(cg if cg is not None else '*', []).append(effect_name(fn, fn.blocks[bb]['term']))
        keys = r['values'] if not r['otherwise'] else r['values'] + ['_']
        for v in keys:
            for cg, e in effs.items():
                out[(v, cg)] = e
            if not effs:
                out[(v, '*')] = []
    return out, b


def first_effects(tab):
    return {k: (v[0] if v else None) for k, v in tab.items()}
