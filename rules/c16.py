"""C16 — domain name text form, equality and ordering are consistent (static clauses)."""
import re

from qv.facts import callee_name, const_name, const_int, is_place
from qv import paths
from qv.rulelib import calls_in

MODE = 'lib'
EXPLANATION = """
Decides structural clauses of C16 on src/name:
(a) one normaliser: Label::eq compares with eq_ignore_ascii_case, Label::cmp compares the ASCII-LOWER-cased octets pair by
pair and falls back to the lengths (RFC 4034 §6.1: lower case, shorter first), Label::hash feeds the length and the
ASCII-lower-cased octets -- all three fold ASCII case and nothing else; Name::eq / cmp / hash reach octets only through
those (eq: equal label counts and pairwise Label::eq; cmp: labels compared right-to-left with Label::cmp, then label
counts; hash: every label's hash);
(b) escaping: Label's Display writes "\\." for '.', "\\\\" for '\\', the character itself only for other ASCII graphic
octets and "\\DDD" (three digits) for everything else -- no other path writes label octets; parse_escape accepts exactly
three digits with value <= 255, or one arbitrary octet; Name::from_str splits labels only at an unescaped '.';
(c) limits: NameBuilder::try_push / try_push_slice refuse to grow a label beyond 63 octets before touching the buffer,
the buffer is an ArrayVec<u8, 255>, next_label refuses an empty non-terminal label and a full buffer, finish refuses a
name without the terminating null label.
(shared) the subdomain relation Name::eq_or_subdomain_of compares whole labels right to left through Label::eq, never raw
wire octets (a length octet inside a label must not be mistaken for a label boundary).
(shared) octet-level ASCII case folding (eq_ignore_ascii_case, to/make_ascii_lowercase on octets) is called only from the
name-label code: RDATA outside embedded names is compared octet for octet.
Not decided: round trip and total-order laws on arbitrary names (value-level).
"""
ASSUMPTIONS = ['every CFG path is assumed feasible', 'core ascii helpers trusted']
OCT = r"Iter<'a, T>::next\(iter::into_iter\(Label::octets\(arg1\)\)\)@Some\.0"


def names(fn):
    return [paths.short(callee_name(t)) for b, t in fn.calls()]


def _ddd_in_range(F, pe, site):
    """Where parse_escape returns (value as u8, 3): the facts in force imply value <= 255 (the narrowing loses nothing)
    and at least three octets remain -- decided by the linear engine, whatever way the comparisons are spelled."""
    from qv.bounds import Analyzer, le, lin
    from rules import e5
    b, st = site
    A = Analyzer(pe, F, e5.make_summary(F))
    o = st['rv']['ops'][0]
    if not is_place(o) or o['pl']['p']:
        return False
    sd = pe.single_def(o['pl']['l'])
    if not sd or sd[2] != 'assign' or sd[3]['rv']['k'] != 'cast' or not sd[3]['rv']['ck'].startswith('IntToInt'):
        return False
    A._site = (sd[0], sd[1])
    v = A.ev_op(sd[3]['rv']['op'])
    L = lin(A.atom_len({'l': 1, 'p': ['deref'], 'ty': ''}))
    if v is None:
        return False
    ok, _, _ = A.prove(sd[0], sd[1], [le(v, lin(c=255)), le(lin(c=3), L)])
    return ok


def check(R, F):
    from rules.name_rules import check_raw_name_comparisons
    check_raw_name_comparisons(R, F)
    from rules.name_rules import check_case_folding_callers
    check_case_folding_callers(R, F)

    from rules.name_rules import check_label_suffix
    check_label_suffix(R, F)

    # ---- (a)
    le = F.fn('<name::label::Label as std::cmp::PartialEq>::eq')
    cs = [t for b, t in le.calls() if callee_name(t).endswith('eq_ignore_ascii_case')]
    ok = len(cs) == 1 and sorted(paths.show_operand(le, a) for a in cs[0]['args']) == ['Label::octets(arg1)', 'Label::octets(arg2)'] and not [n for n in names(le) if n not in ('Label::octets', 'ascii::eq_ignore_ascii_case')]
    R.require(ok, 'normaliser', le.gpath, le.where(), 'octets().eq_ignore_ascii_case(other.octets())', 'Label::eq is computed by %s' % names(le))
    lc = F.fn('<name::label::Label as std::cmp::Ord>::cmp')
    clos = {c.gpath.split('::')[-1]: c for c in F.closures_of(lc.gpath)}
    c0, c1 = clos.get('{closure#0}'), clos.get('{closure#1}')
    ok = c0 is not None and c1 is not None
    if ok:
        n0 = names(c0)
        lows = [t for b, t in c0.calls() if callee_name(t).endswith('to_ascii_lowercase')]
        ups = [n for n in n0 if 'upper' in n]
        cmp0 = [t for b, t in c0.calls() if callee_name(t).endswith('::cmp')]
        ok = len(lows) == 2 and not ups and len(cmp0) == 1 and all('to_ascii_lowercase' in paths.show_operand(c0, a) for a in cmp0[0]['args'])
        args = sorted(paths.show_operand(c0, t['args'][0]) for t in lows)
        ok = ok and args == ['arg2.0', 'arg2.1']
        n1 = names(c1)
        ok = ok and n1.count('slice::len') == 2 and any(n.endswith('::cmp') for n in n1)
        seq = names(lc)
        ok = ok and 'Iterator::zip' in seq and 'Iterator::find_map' in seq and 'Option::unwrap_or_else' in seq and 'Iterator::rev' not in seq
    R.require(ok, 'normaliser', lc.gpath, lc.where(), 'pairwise cmp of to_ascii_lowercase octets, then lengths', 'Label::cmp does not compare ASCII-lower-cased octets left to right and then the lengths (RFC 4034 §6.1)')
    lh = F.fn('<name::label::Label as std::hash::Hash>::hash')
    w8 = [t for b, t in lh.calls() if callee_name(t).endswith('Hasher::write_u8')]
    ok = len(w8) == 2
    if ok:
        a = [paths.show_operand(lh, t['args'][1]) for t in w8]
        ok = any(x == 'cast(slice::len(Label::octets(arg1)))' for x in a) and any('Map<I, F>::next' in x or 'to_ascii_lowercase' in x for x in a)
        mp = [t for b, t in lh.calls() if callee_name(t).endswith('Iterator::map')]
        ok = ok and len(mp) == 1 and 'to_ascii_lowercase' in paths.show_operand(lh, mp[0]['args'][1])
    R.require(ok, 'normaliser', lh.gpath, lh.where(), 'hash(len) then hash of each to_ascii_lowercase octet', 'Label::hash does not feed the length and the ASCII-lower-cased octets')
    ne = F.fn('<name::Name as std::cmp::PartialEq>::eq')
    cl = F.closures_of(ne.gpath)
    ok = names(ne) == ['Name::len', 'Name::len', 'Name::labels', 'Name::labels', 'Iterator::zip', 'Iterator::all'] and len(cl) == 1 and any('Label as std::cmp::PartialEq' in callee_name(t) or callee_name(t).endswith('PartialEq<&B> for &A>::eq') for b, t in cl[0].calls())
    R.require(ok, 'normaliser', ne.gpath, ne.where(), 'equal label counts and pairwise Label equality', 'Name::eq is computed by %s' % names(ne))
    nc = F.fn('<name::Name as std::cmp::Ord>::cmp')
    seq = names(nc)
    cl = F.closures_of(nc.gpath)
    lab = any(callee_name(t) == '<name::label::Label as std::cmp::Ord>::cmp' for c in cl for b, t in c.calls())
    ln = any(names(c).count('Name::len') == 2 for c in cl)
    ok = seq.count('Iterator::rev') == 2 and seq.count('Name::labels') == 2 and 'Iterator::zip' in seq and 'Iterator::find_map' in seq and lab and ln
    R.require(ok, 'normaliser', nc.gpath, nc.where(), 'labels compared right to left with Label::cmp, then label counts', 'Name::cmp is not the right-to-left label comparison of RFC 4034 §6.1 (%s)' % seq)
    nh = F.fn('<name::Name as std::hash::Hash>::hash')
    R.require(names(nh) == ['Name::labels', 'I::into_iter', "Labels<'a>::next", 'Label::hash'], 'normaliser', nh.gpath, nh.where(), 'hash of every label', 'Name::hash is computed by %s' % names(nh))
    R.floor('normaliser', 6)

    # ---- (b) escaping
    lf = F.fn('<name::label::Label as std::fmt::Display>::fmt')
    ws = [(b, t) for b, t in lf.calls() if callee_name(t).endswith('Formatter::<\'a>::write_str') or callee_name(t).endswith('Formatter::write_str') or callee_name(t).endswith("Formatter::<'_>::write_str")]
    ws = [(b, t) for b, t in lf.calls() if 'write_str' in callee_name(t)]
    wf = [(b, t) for b, t in lf.calls() if 'write_fmt' in callee_name(t)]
    rows = {}
    for b, t in ws:
        rows[paths.show_operand(lf, t['args'][1])] = paths.dom_guards(lf, b)
    E46n, E46y = 'Eq(%s,46_u8) in [0]', 'Eq(%s,46_u8) not in [0]'
    def has(g, rx):
        return any(re.match(rx, x) for x in g)
    ok = has(rows.get('"\\\\."', []), r'^Eq\(%s,46_u8\) not in \[0\]$' % OCT) and has(rows.get('"\\\\\\\\"', []), r'^Eq\(%s,92_u8\) not in \[0\]$' % OCT) and len(ws) == 2
    R.require(ok, 'escaping', lf.gpath + '|dot-and-backslash', lf.where(), "'.' -> \\. and '\\' -> \\\\", 'Label Display escapes: %s' % {k: [x[-40:] for x in v] for k, v in rows.items()})
    ok = len(wf) == 2
    kinds = {}
    for b, t in wf:
        g = paths.dom_guards(lf, b)
        tmpl = paths.show_operand(lf, t['args'][1])
        gr = has(g, r'^num::is_ascii_graphic\(%s\) not in \[0\]$' % OCT)
        ngr = has(g, r'^num::is_ascii_graphic\(%s\) in \[0\]$' % OCT)
        notdot = has(g, r'^Eq\(%s,46_u8\) in \[0\]$' % OCT) and has(g, r'^Eq\(%s,92_u8\) in \[0\]$' % OCT)
        if tmpl.startswith('Arguments::new(b"\\xc0\\x00"'):
            kinds['raw'] = gr and notdot
        elif tmpl.startswith('Arguments::new(b"\\x01\\\\'):
            kinds['ddd'] = ngr and notdot and '\\x03' in tmpl
    R.require(ok and kinds == {'raw': True, 'ddd': True}, 'escaping', lf.gpath + '|raw-only-if-graphic', lf.where(), 'raw character only for graphic octets other than . and \; \\DDD with three digits otherwise', 'Label Display writes octets raw / as \\DDD under the wrong conditions: %s' % kinds)
    pe = F.fn('name::parse_escape')
    oks = [(b, st) for b, bl in enumerate(pe.blocks) if not bl['cleanup'] for st in bl['stmts'] if st['k'] == 'assign' and st['rv']['k'] == 'agg' and st['rv']['ak'] == 'tuple' and len(st['rv']['ops']) == 2]
    lens = sorted(const_int(st['rv']['ops'][1]) for b, st in oks)
    gd = [paths.dom_guards(pe, b, variants=False) for b, st in oks if const_int(st['rv']['ops'][1]) == 3]
    ok = lens == [1, 3] and gd and _ddd_in_range(F, pe, [(b, st) for b, st in oks if const_int(st['rv']['ops'][1]) == 3][0]) and sum(1 for x in gd[0] if 'is_ascii_digit' in x and x.endswith('not in [0]')) >= 3
    R.require(ok, 'escaping', pe.gpath, pe.where(), '\\DDD needs three digits and value <= 255; otherwise one octet', 'parse_escape accepts lengths %s under %s' % (lens, gd[0] if gd else None))
    fs = F.fn('name::<impl std::str::FromStr for std::boxed::Box<name::Name>>::from_str')
    nl = calls_in(fs, 'name::builder::NameBuilder::next_label')
    esc = calls_in(fs, 'name::parse_escape')
    ok = len(nl) == 1 and len(esc) == 1 and has(paths.dom_guards(fs, nl[0][0]), r'^Eq\(.*,46_u8\) not in \[0\]$') and has(paths.dom_guards(fs, nl[0][0]), r'^Eq\(.*,92_u8\) in \[0\]$') and has(paths.dom_guards(fs, esc[0][0]), r'^Eq\(.*,92_u8\) not in \[0\]$')
    R.require(ok, 'escaping', fs.gpath, fs.where(), 'label break only at an unescaped dot; backslash starts an escape', 'Name::from_str does not break labels exactly at unescaped dots')
    R.floor('escaping', 4)

    # ---- (c) limits
    B = 'name::builder::NameBuilder::'
    tp = F.fn(B + 'try_push')
    pushes = [b for b, t in tp.calls() if 'ArrayVec' in callee_name(t) and 'try_push' in callee_name(t)]
    ok = len(pushes) == 1 and has(paths.dom_guards(tp, pushes[0]), r'^Ge\(arg1\.label_len,(63_u8|cast\(.*MAX_LABEL_LEN.*\)|cast\(63_usize\))\) in \[0\]$')
    R.require(ok, 'limits', B + 'try_push', tp.where(), 'pushes only while label_len < 63', 'try_push grows the label under %s' % (paths.dom_guards(tp, pushes[0]) if pushes else None))
    ts = F.fn(B + 'try_push_slice')
    ext = [b for b, t in ts.calls() if 'try_extend_from_slice' in callee_name(t)]
    ok = len(ext) == 1 and has(paths.dom_guards(ts, ext[0]), r'^Gt\(Add\(cast\(arg1\.label_len\),slice::len\(arg2\)\),63_usize\) in \[0\]$')
    R.require(ok, 'limits', B + 'try_push_slice', ts.where(), 'extends only if label_len + len <= 63', 'try_push_slice extends under %s' % (paths.dom_guards(ts, ext[0]) if ext else None))
    tys = {}
    for fn_ in (tp, F.fn(B + 'next_label')):
        for bl in fn_.blocks:
            for st in bl['stmts']:
                if st['k'] == 'assign':
                    for pl in [st['lhs']] + [x for x in [st['rv'].get('pl'), (st['rv'].get('op') if isinstance(st['rv'].get('op'), dict) else {}).get('pl')] if x]:
                        for p in pl['p']:
                            if isinstance(p, dict) and p.get('n') in ('wire_repr', 'label_offsets'):
                                tys[p['n']] = p['ty']
    R.require(tys.get('wire_repr') == 'arrayvec::ArrayVec<u8, 255>' and tys.get('label_offsets') == 'arrayvec::ArrayVec<u8, 128>', 'limits', 'name::builder::NameBuilder|capacities', '', 'wire_repr capacity 255, label_offsets capacity 128', 'NameBuilder buffers: %s' % tys)
    nl = F.fn(B + 'next_label')
    ps = [b for b, t in nl.calls() if callee_name(t).endswith('ArrayVec::<T, CAP>::push')]
    ok = len(ps) == 2 and all(has(paths.dom_guards(nl, b), r'^NameBuilder::is_fully_qualified\(arg1\) in \[0\]$') and has(paths.dom_guards(nl, b), r'^ArrayVec::is_full\(arg1\.wire_repr\) in \[0\]$') for b in ps)
    R.require(ok, 'limits', B + 'next_label', nl.where(), 'new label only after a non-empty label and with room left', 'next_label pushes without the empty-label and full-buffer tests')
    fi = F.fn(B + 'finish')
    nb = [b for b, t in fi.calls() if callee_name(t).endswith('name::new_boxed_name')]
    ok = len(nb) == 1 and has(paths.dom_guards(fi, nb[0]), r'^NameBuilder::is_fully_qualified\(arg1\) not in \[0\]$')
    R.require(ok, 'limits', B + 'finish', fi.where(), 'finish only with a terminating null label', 'finish builds a name without requiring the terminating null label')
    R.floor('limits', 5)
