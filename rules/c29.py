"""C29 — worker pools run every accepted task and shut down cleanly (static clauses)."""
import re

from qv.facts import callee_name, const_name, is_place, op_str
from qv.flow import slice_of
from qv import paths, locks, effects
from qv.rulelib import calls_in

MODE = 'lib'
EXPLANATION = """
Decides the hand-off and shutdown protocol of src/thread.rs on every CFG path (hence for every interleaving, since all
shared state is behind the two mutexes):
(a) wake-up discipline: a worker that has announced itself available (available_workers += 1) may retract the
announcement and return only on a path where, since it last (re)acquired the pool guard -- by lock() or by returning from
Condvar::wait / wait_timeout -- it has looked at `queue` again; this includes the linger-timeout exit (a task handed
over while the timeout fires is otherwise stranded); a submitter pushes only on a path where, since it last (re)acquired
the guard, it has re-tested `shutting_down` and `available_workers > queue.len()`;
(b) counter pairing: every `thread_count += 1` is followed, on every path, by the decrement on spawn failure or by moving
the RAII handle into the spawned closure; both handle Drop impls reach end_thread on every path except the documented
parent-thread early return; end_thread decrements and wakes the waiters when the count reaches zero under shutting_down;
(c) every queue.push_back is in the region where the pool guard is held; tasks leave the queue only through pop_front
in pool_worker_loop, whose result is called after the guard was dropped;
(d) the lock-order graph over {GroupRecords, PoolRecords} is acyclic and has no self edge;
(e) await_shutdown waits while !shutting_down || thread_count > 0; shut_down sets the flag under the lock, shuts every
pool down and notifies; ThreadPool::shut_down_without_removing sets the flag and wakes both condition variables.
Not decided: liveness under OS scheduling; spurious wake-ups beyond what (a) covers.
"""
ASSUMPTIONS = ['std Mutex/Condvar semantics', 'every CFG path is assumed feasible', 'tasks are Box<dyn FnOnce() + Send>: run at most once (type-level)']
T = 'thread::'
POOL = 'thread::PoolRecords'
GROUP = 'thread::GroupRecords'


def acquisition_blocks(fn, cls):
    """Blocks after which the guard of class cls was (re)acquired: successors of lock() and wait*() calls."""
    out = []
    for b, t, c in locks.lock_sites(fn):
        if c == cls:
            out.append((b, 'lock'))
    for b, t in locks.wait_sites(fn):
        out.append((b, callee_name(t).split('::')[-1]))
    return out


WAIT_WHILE_AVAIL = set()


def wait_while_pred_covers(F, fn, t):
    """The predicate closure handed to wait_while is true only under !shutting_down && available_workers <= queue.len()."""
    clos = [c for c in F.closures_of(fn.gpath) if c.gpath.split('::')[-1] in paths.show_operand(fn, t['args'][2])]
    if len(clos) != 1:
        return False
    c = clos[0]
    ok = False
    for b, blk in enumerate(c.blocks):
        for st in blk['stmts']:
            if st['k'] != 'assign' or st['lhs']['p'] or st['lhs']['l'] != 0:
                continue
            g = paths.all_guards(c, b)
            if st['rv']['k'] == 'use' and st['rv']['op']['k'] == 'const':
                if const_name(st['rv']['op']) == 'true':
                    return False        # an unconditional `true` arm: no information
                continue
            if st['rv']['k'] == 'bin' and st['rv']['op'] in ('Le', 'Ge', 'Lt', 'Gt'):
                a_, b_ = paths.show_operand(c, st['rv']['a']), paths.show_operand(c, st['rv']['b'])
                le = (st['rv']['op'] == 'Le' and 'available_workers' in a_ and 'VecDeque' in b_) or (st['rv']['op'] == 'Ge' and 'available_workers' in b_ and 'VecDeque' in a_)
                if le and any(x.endswith('.shutting_down in [0]') for x in g):
                    ok = True
                else:
                    return False
            else:
                return False
    return ok


def check(R, F):
    WAIT_WHILE_AVAIL.clear()
    pw = F.fn(T + 'pool_worker_loop')
    # ---- (a) worker side
    q_readers = locks.field_readers(pw, POOL, 'queue')
    dec = []
    for b, blk in enumerate(pw.blocks):
        if blk['cleanup']:
            continue
        for st in blk['stmts']:
            if st['k'] == 'assign' and st['lhs']['p'] and st['lhs']['p'][-1].get('n') == 'available_workers':
                txt = paths.show_operand(pw, st['rv']['op']) if st['rv']['k'] == 'use' else ''
                if txt.startswith('Sub('):
                    dec.append(b)
    pops = [b for b, t in pw.calls() if callee_name(t).endswith('VecDeque::<T, A>::pop_front')]
    rets = set(pw.ret_blocks())
    acq = acquisition_blocks(pw, POOL)
    R.require(len(acq) >= 3 and len(dec) >= 3, 'wakeup', T + 'pool_worker_loop|anchors', pw.where(), '%d acquisition points, %d retractions' % (len(acq), len(dec)), 'expected lock + wait + wait_timeout and three available_workers decrements; found %d / %d' % (len(acq), len(dec)))
    for d in dec:
        # a retraction that leads to return without popping a task
        leaves = pw.find_path(d, lambda x: x in rets, avoid=set(pops)) is not None
        if not leaves:
            # retraction after taking a task: must be dominated by the pop
            R.require(any(pw.dominates(p, d) for p in pops), 'wakeup', T + 'pool_worker_loop|retract-after-pop', pw.where(d), 'availability retracted after taking a task', 'available_workers is decremented without a task having been taken and without returning')
            continue
        g = [x for x in paths.dom_guards(pw, d) if 'timed_out' in x or 'checked_duration_since' in x]
        which = 'timeout' if any('timed_out' in x for x in g) else ('deadline-passed' if any('checked_duration_since' in x for x in g) else 'other')
        bad = None
        for ab, kind in acq:
            t = pw.blocks[ab]['term']
            if t['t'] is None:
                continue
            p = pw.find_path(t['t'], lambda x: x == d, avoid=q_readers - {d})
            if p is not None and d not in q_readers:
                bad = (ab, kind, p)
                break
        R.require(bad is None, 'wakeup', T + 'pool_worker_loop|exit@%s' % which, pw.where(d),
                  'the worker leaves only after re-reading `queue` under the guard it holds',
                  'after %s returned the guard (%s) the worker retracts its availability and returns without looking at `queue` again: a task pushed by a submitter that saw this worker as available is stranded (%s)'
                  % (bad[1] if bad else '', pw.where(bad[0]) if bad else '', paths.fmt_path(pw, [bad[0]] + bad[2]) if bad else ''))
    # the shutting_down exit (documented: availability is irrelevant after shutdown) and every other return must be
    # preceded by a retraction or by the shutting_down test
    for r in rets:
        pass
    R.floor('wakeup', 4, 'anchors + timeout exit + deadline exit + retraction after pop')
    # ---- (a) submitter side
    for name in ('ThreadPool::submit', 'ThreadPool::submit_or_spawn'):
        fn = F.fn(T + name)
        pushes = [b for b, t in fn.calls() if callee_name(t).endswith('VecDeque::<T, A>::push_back')]
        sd_tests = set()
        av_tests = set()
        for b, blk in enumerate(fn.blocks):
            t = blk['term']
            if t['k'] == 'switch' and not blk['cleanup']:
                txt = paths.show_operand(fn, t['op'])
                if txt.endswith('.shutting_down') or '.shutting_down' in txt and 'Not(' in txt:
                    sd_tests.add(b)
                if 'available_workers' in txt and 'VecDeque' in txt and txt.startswith('Gt('):
                    av_tests.add(b)
        # Condvar::wait_while(guard, pred) returns only when pred is false; if pred is `!shutting_down && available <= queued`
        # then its return is an availability test for every path on which shutting_down is then found false
        for wb, wt in [(b, t) for b, t in fn.calls() if callee_name(t).endswith('Condvar::wait_while')]:
            if wait_while_pred_covers(F, fn, wt):
                av_tests.add(wb)
                WAIT_WHILE_AVAIL.add((fn.gpath, wb))
        R.require(len(pushes) == 1 and sd_tests and av_tests, 'submit', T + name + '|anchors', fn.where(), 'one push_back, tests present', 'expected one push_back and tests of shutting_down and available_workers > queue.len(); found %d pushes, %d/%d tests' % (len(pushes), len(sd_tests), len(av_tests)))
        acq = acquisition_blocks(fn, POOL)
        for pb in pushes:
            for tests, what in ((sd_tests, 'shutting_down'), (av_tests, 'available_workers > queue.len()')):
                bad = None
                for ab, kind in acq:
                    t = fn.blocks[ab]['term']
                    if t['t'] is None or ab in tests:
                        continue          # (a wait_while whose predicate covers the test is itself the test)
                    p = fn.find_path(t['t'], lambda x: x == pb, avoid=tests)
                    if p is not None:
                        bad = (ab, kind, p)
                        break
                R.require(bad is None, 'submit', '%s|push-after-%s' % (T + name, 'shutdown-test' if what == 'shutting_down' else 'availability-test'), fn.where(pb),
                          'the task is queued only after %s was (re)tested under the current guard' % what,
                          'a path from %s (%s) reaches push_back without testing %s again: %s' % (bad[1] if bad else '', fn.where(bad[0]) if bad else '', what, paths.fmt_path(fn, [bad[0]] + bad[2]) if bad else ''))
            # on the tested edge: shutting_down is false, availability is true
            g = paths.dom_guards(fn, pb)
            okd = any(re.search(r'\.shutting_down in \[0\]$', x) for x in g) or any(re.search(r'\.shutting_down not in \[0\]$', x) is None and 'shutting_down' in x and x.endswith('in [0]') for x in g)
            oka = any(x.startswith('Gt(') and 'available_workers' in x and x.endswith('not in [0]') for x in g)
            if not oka and okd:
                # after wait_while(.., !shutting_down && available <= queued) and a shutting_down == false test: available > queued
                sdb = [p_ for s_ in fn.doms(pb) for p_ in fn.preds()[s_] if fn.blocks[p_]['term']['k'] == 'switch' and p_ in sd_tests]
                oka = any((fn.gpath, wb) in WAIT_WHILE_AVAIL and fn.dominates(wb, pb) and any(fn.dominates(wb, p_) for p_ in sdb) for wb in av_tests)
            # (in `submit` the loop exit is a join of one edge; fall back to the control-dependence edges)
            if not (okd and oka):
                ag = paths.all_guards(fn, pb)
                okd = okd or any('shutting_down' in x and x.endswith('in [0]') and 'not in' not in x for x in ag)
                oka = oka or any(x.startswith('Gt(') and 'available_workers' in x and x.endswith('not in [0]') for x in ag)
            R.require(okd and oka, 'submit', T + name + '|push-polarity', fn.where(pb), 'pushed under !shutting_down && available_workers > queue.len()', 'push_back is not on the (!shutting_down, available > queued) edge: %s' % g)
            # pushed inside the held region, then a worker is notified
            ls = [x for x in locks.lock_sites(fn) if x[2] == POOL]
            region, gl, rel = locks.held_region(fn, ls[0][0]) if ls else (set(), set(), set())
            nb = fn.blocks[pb]['term']['t']
            notif = nb is not None and any(callee_name(fn.blocks[x]['term']).endswith('Condvar::notify_one') and 'task_wakeup' in paths.show_operand(fn, fn.blocks[x]['term']['args'][0]) for x in fn.reachable(nb) if fn.blocks[x]['term']['k'] == 'call' and fn.dominates(pb, x))
            R.require(pb in region and notif, 'submit', T + name + '|push-under-guard-then-notify', fn.where(pb), 'push under the pool guard, then task_wakeup.notify_one()', 'push_back outside the held region or without waking a worker')
    R.floor('submit', 8)

    # ---- (b) counter pairing
    for name, handle in (('start_oneshot', 'thread::OneshotHandle'), ('start_respawnable', 'thread::RespawnableHandle')):
        fn = F.fn(T + name)
        incs = []
        decs = []
        for b, blk in enumerate(fn.blocks):
            if blk['cleanup']:
                continue
            for st in blk['stmts']:
                if st['k'] == 'assign' and st['lhs']['p'] and st['lhs']['p'][-1].get('n') == 'thread_count' and st['rv']['k'] == 'use':
                    txt = paths.show_operand(fn, st['rv']['op'])
                    (incs if txt.startswith('Add(') else decs).append(b)
        spawn = [b for b, t in fn.calls() if callee_name(t).endswith('thread::Builder::spawn')]
        handles = [b for b, blk in enumerate(fn.blocks) for st in blk['stmts'] if st['k'] == 'assign' and st['rv']['k'] == 'agg' and st['rv']['def'].startswith(handle)]
        ok = len(incs) == 1 and len(decs) == 1 and len(spawn) == 1 and len(handles) == 1 and fn.dominates(incs[0], spawn[0]) and fn.dominates(handles[0], spawn[0])
        if ok:
            # the decrement runs exactly where spawn is known to have failed (is_err(), a match on Err, `?` residual, ...)
            from qv.rulelib import failed_before
            ok = failed_before(fn, decs[0], lambda t_: callee_name(t_).endswith('thread::Builder::spawn'))
            # the closure handed to spawn captures the handle
            st = [s for blk in fn.blocks for s in blk['stmts'] if s['k'] == 'assign' and s['rv']['k'] == 'agg' and s['rv']['ak'] == 'closure']
            cap = any(any(is_place(o) and handle.split('::')[-1] in fn.local_ty(o['pl']['l']) for o in s['rv']['ops']) for s in st)
            ok = ok and cap
        R.require(ok, 'pairing', T + name + '|count-paired', fn.where(), 'thread_count += 1 is undone on spawn failure, otherwise owned by the handle moved into the thread', 'thread_count increment is not paired with (decrement on spawn failure | handle moved into the spawned closure)')
        # the spawned closure runs the task and then drops the handle
        for c in F.closures_of(fn.gpath):
            if any(handle.split('::')[-1] in l['ty'] for l in c.locals):
                pass
    for path in ('<thread::OneshotHandle as std::ops::Drop>::drop', '<thread::RespawnableHandle<F> as std::ops::Drop>::drop'):
        fn = F.fn(path)
        et = [b for b, t in fn.calls() if callee_name(t) == T + 'end_thread']
        rets = fn.ret_blocks()
        ok = len(et) == 1
        bad = None
        if ok:
            for r in rets:
                p = fn.find_path(0, lambda x: x == r, avoid={et[0]})
                if p:
                    # allowed only through the parent-thread early return
                    g_on_path = set()
                    for x in p:
                        g_on_path |= set(paths.direct_guards(fn, x))
                    if not any(re.search(r'ThreadId.*eq\(.*parent.*\) not in \[0\]|PartialEq.*parent.*not in \[0\]|eq\(.*\.parent\) not in \[0\]', x) for x in g_on_path):
                        bad = p
        R.require(ok and bad is None, 'pairing', path + '|reaches-end-thread', fn.where(), 'every exit except the parent-thread return goes through end_thread', 'a path leaves the handle\'s Drop without end_thread: %s' % (paths.fmt_path(fn, bad) if bad else 'no end_thread call'))
    en = F.fn(T + 'end_thread')
    decs = [paths.show_operand(en, st['rv']['op']) for blk in en.blocks for st in blk['stmts'] if st['k'] == 'assign' and st['lhs']['p'] and st['lhs']['p'][-1].get('n') == 'thread_count' and st['rv']['k'] == 'use']
    nb = [b for b, t in en.calls() if callee_name(t).endswith('Condvar::notify_all')]
    ok = len(decs) == 1 and decs[0].startswith('Sub(') and decs[0].endswith(',1_usize)') and len(nb) == 1
    if ok:
        g = paths.dom_guards(en, nb[0])
        ok = any('shutting_down' in x and x.endswith('not in [0]') for x in g) and any(re.match(r'^Eq\(.*thread_count,0_usize\) not in \[0\]$', x) for x in g)
    R.require(ok, 'pairing', T + 'end_thread|decrement-and-wake', en.where(), 'thread_count -= 1; notify_all when shutting down and zero', 'end_thread does not decrement by one and wake the shutdown waiters at zero')
    R.floor('pairing', 5)

    # ---- (c) queue discipline
    qw = {}
    for gp, fn in F.fns.items():
        if not gp.startswith('thread::') or '::tests::' in gp:
            continue
        for b, t in fn.calls():
            n = callee_name(t)
            if 'VecDeque' in n and (n.endswith('push_back') or n.endswith('push_front') or n.endswith('pop_front') or n.endswith('pop_back') or n.endswith('::clear') or n.endswith('::drain')):
                qw.setdefault(n.split('::')[-1], set()).add(gp)
    R.require(qw.get('push_back') == {T + 'ThreadPool::submit', T + 'ThreadPool::submit_or_spawn'} and qw.get('pop_front') == {T + 'pool_worker_loop'} and set(qw) == {'push_back', 'pop_front'}, 'queue', 'thread|queue-operations', '',
              'tasks enter through submit/submit_or_spawn and leave through pool_worker_loop only', 'queue operations: %s' % {k: sorted(v) for k, v in qw.items()})
    ls = [x for x in locks.lock_sites(pw) if x[2] == POOL]
    region, gl, rel = locks.held_region(pw, ls[0][0]) if ls else (set(), set(), set())
    R.require(len(pops) == 1 and pops[0] in region, 'queue', T + 'pool_worker_loop|pop-under-guard', pw.where(pops[0]) if pops else pw.where(), 'pop_front under the pool guard', 'pop_front is outside the held region')
    # the popped task is called after the guard is released
    calls_task = [b for b, t in pw.calls() if 'FnOnce' in callee_name(t) or 'call_once' in callee_name(t)]
    ok = len(calls_task) == 1 and calls_task[0] not in region and any(pw.find_path(r, lambda x: x == calls_task[0]) for r in rel) and 'pop_front' in paths.show_operand(pw, pw.blocks[calls_task[0]]['term']['args'][0])
    R.require(ok, 'queue', T + 'pool_worker_loop|run-outside-guard', pw.where(calls_task[0]) if calls_task else pw.where(), 'the popped task runs after the guard is dropped', 'the popped task is not run exactly once after releasing the pool guard')
    R.floor('queue', 3)

    # ---- (d) lock order
    scope = [fn for gp, fn in F.fns.items() if gp.startswith('thread::') or gp.startswith('<thread::')]
    edges = locks.lock_order_edges(F, scope)
    es = sorted({(a, b) for a, b, fn, blk in edges})
    cyc = locks.find_cycle(edges)
    where = ''
    if cyc:
        for a, b, fn, blk in edges:
            if a == cyc[0] and b == cyc[1]:
                where = '%s at %s' % (fn.gpath, fn.where(blk))
    R.require(cyc is None, 'lock-order', 'thread|acyclic', '', 'lock-order edges %s: acyclic' % es, 'lock-order cycle %s (first edge in %s): two threads taking the locks in opposite order deadlock' % (cyc, where))
    R.require((GROUP, POOL) in es, 'lock-order', 'thread|group-then-pool', '', 'GroupRecords -> PoolRecords observed (shut_down, start_pool)', 'expected the GroupRecords -> PoolRecords nesting to exist (anchor): edges %s' % es, nontrivial=False)
    R.floor('lock-order', 2)

    # ---- (e) shutdown predicates
    aw = F.fn(T + 'ThreadGroup::await_shutdown')
    clos = F.closures_of(aw.gpath)
    ok = len(clos) == 1 and len(calls_in(aw, 'std::sync::Condvar::wait_while')) == 1
    if ok:
        c = clos[0]
        conds = set()
        for b, blk in enumerate(c.blocks):
            t = blk['term']
            if t['k'] == 'switch':
                conds.add(paths.show_operand(c, t['op']))
        rets_ = [paths.show_operand(c, st['rv']['op']) if st['rv']['k'] == 'use' else '%s(%s,%s)' % (st['rv']['op'], paths.show_operand(c, st['rv']['a']), paths.show_operand(c, st['rv']['b'])) for blk in c.blocks for st in blk['stmts'] if st['k'] == 'assign' and not st['lhs']['p'] and st['lhs']['l'] == 0]
        ok = any('shutting_down' in x for x in conds) and any(x.startswith('Gt(') and 'thread_count' in x and x.endswith(',0_usize)') for x in rets_) and 'true' in rets_
    R.require(ok, 'shutdown', T + 'ThreadGroup::await_shutdown|predicate', aw.where(), 'waits while !shutting_down || thread_count > 0', 'await_shutdown\'s predicate is not !shutting_down || thread_count > 0')
    sd = F.fn(T + 'ThreadGroup::shut_down')
    w = [b for b, blk in enumerate(sd.blocks) for st in blk['stmts'] if st['k'] == 'assign' and st['lhs']['p'] and st['lhs']['p'][-1].get('n') == 'shutting_down' and const_name(st['rv'].get('op', {'k': 'const', 'val': ''})) == 'true']
    ls = locks.lock_sites(sd)
    region, gl, rel = locks.held_region(sd, ls[0][0]) if ls else (set(), set(), set())
    nt = [b for b, t in sd.calls() if callee_name(t).endswith('Condvar::notify_all')]
    ps = [b for b, t in sd.calls() if callee_name(t).endswith('ThreadPool::shut_down_without_removing')]
    R.require(len(w) == 1 and w[0] in region and len(nt) == 1 and len(ps) == 1 and sd.dominates(w[0], nt[0]), 'shutdown', T + 'ThreadGroup::shut_down|flag-pools-notify', sd.where(), 'sets shutting_down under the lock, shuts pools down, notifies', 'ThreadGroup::shut_down does not set the flag under the lock, shut down every pool and notify')
    sp = F.fn(T + 'ThreadPool::shut_down_without_removing')
    w = [b for b, blk in enumerate(sp.blocks) for st in blk['stmts'] if st['k'] == 'assign' and st['lhs']['p'] and st['lhs']['p'][-1].get('n') == 'shutting_down' and const_name(st['rv'].get('op', {'k': 'const', 'val': ''})) == 'true']
    nts = sorted(paths.show_operand(sp, t['args'][0]) for b, t in sp.calls() if callee_name(t).endswith('Condvar::notify_all'))
    R.require(len(w) == 1 and nts == ['arg1.available_wakeup', 'arg1.task_wakeup'], 'shutdown', T + 'ThreadPool::shut_down_without_removing|flag-and-wake-both', sp.where(), 'sets the flag, wakes workers and blocked submitters', 'pool shutdown does not set the flag and notify_all on both condition variables (%s)' % nts)
    # group start_* reject after shutdown began
    for name in ('ThreadGroup::start_oneshot', 'ThreadGroup::start_respawnable', 'ThreadGroup::start_pool'):
        fn = F.fn(T + name)
        inner = [b for b, t in fn.calls() if callee_name(t) in (T + 'start_oneshot', T + 'start_respawnable', T + 'start_pool_workers')]
        ok = len(inner) == 1 and any(re.search(r'\.shutting_down in \[0\]$', x) for x in paths.dom_guards(fn, inner[0]))
        R.require(ok, 'shutdown', T + name + '|rejects-after-shutdown', fn.where(), 'threads are started only under !shutting_down', 'threads can be started without testing shutting_down under the lock')
    R.floor('shutdown', 6)
