"""C26 — RRL token bucket over time (static clauses)."""
import re

from qv.facts import callee_name, const_name, const_int, is_place, op_str
from qv.flow import slice_of
from qv import paths, effects, tables
from qv.rulelib import W, calls_in, enum_variants

MODE = 'lib'
EXPLANATION = """
Decides structural clauses of C26 on server::rrl:
(a) elapsed-time arithmetic cannot overflow: no value derived from Duration::as_secs / subsec_nanos reaches a narrowing
integer cast or a raw (wrapping / overflow-checked) Add, Sub or Mul; it may only flow through saturating_*, checked_*,
try_from, min/max and widening casts -- idle periods of years must not wrap the refill;
(b) rate x window is computed only from fields that RrlParams::new admitted under checked_mul, and no other function
writes those fields;
(c) should_slip: slip == 0 -> false, slip == 1 -> true;
(d) action arms: the limited+slip arm calls clear_rrs then set_tc(true); the limited+drop arm clears send_response; the
send arm increments the count under count < limit; refill subtracts from the count with saturation and moves
last_refill by the whole elapsed seconds (now - fractional part).
(r) the refill (clock read) dominates every comparison of the bucket count with the limit.
Not decided: step-by-step agreement with a reference bucket over time histories (no clock in a static analysis).
"""
ASSUMPTIONS = ['Instant/Duration from std are trusted', 'every CFG path is assumed feasible']

PR = 'server::rrl::Rrl::process_response'
INT_W = {'u8': 8, 'u16': 16, 'u32': 32, 'u64': 64, 'usize': 64, 'u128': 128, 'i8': 8, 'i16': 16, 'i32': 32, 'i64': 64, 'isize': 64, 'i128': 128}
TIME_SRC = ('std::time::Duration::as_secs', 'std::time::Duration::subsec_nanos', 'std::time::Duration::as_millis', 'std::time::Duration::as_nanos', 'std::time::Duration::as_micros', 'std::time::Duration::subsec_millis', 'std::time::Duration::subsec_micros', 'std::time::Duration::as_secs_f64', 'std::time::Duration::as_secs_f32')


def time_derived(fn, o):
    if not is_place(o):
        return False
    sl = slice_of(fn, o, call_filter=lambda n: not (n.startswith('core::num::') and ('saturating' in n or 'checked' in n)) and 'try_from' not in n and 'TryFrom' not in n)
    return any(n in TIME_SRC for n in sl.call_names())


def check_refill_first(R, F):
    """The bucket is refilled (the clock is read and count lowered) before its count is compared with the limit, on every
    path: every branch on `count` vs `limit` in process_response is dominated by the Instant::duration_since call.  A
    refill that only happens once the bucket is exhausted lets tokens left over from before an idle period be spent on
    top of the refilled capacity."""
    pr = F.fn('server::rrl::Rrl::process_response')
    clock = [b for b, t in pr.calls() if callee_name(t).endswith('Instant::duration_since')]
    tests = []
    for b, blk in enumerate(pr.blocks):
        t = blk['term']
        if blk['cleanup'] or t['k'] != 'switch':
            continue
        txt = paths.show_operand(pr, t['op'])
        if re.match(r'^(Ge|Lt|Gt|Le)\(', txt) and '.count' in txt and ('limit' in txt or re.search(r'\.1\)?$|_\d+\.1', txt) or 'rate_and_limit_for_category' in txt):
            tests.append((b, txt))
    if not clock or not tests:
        R.bad('refill-first', 'server::rrl::Rrl::process_response|clock-then-limit', pr.where(), 'cannot find the clock read (%d) and the count/limit test (%d)' % (len(clock), len(tests)))
        return
    late = [(b, txt) for b, txt in tests if not any(pr.dominates(c, b) for c in clock)]
    R.require(not late, 'refill-first', 'server::rrl::Rrl::process_response|clock-then-limit', pr.where(tests[0][0]), 'every count/limit test comes after the refill (%d tests)' % len(tests),
              'the count is compared with the limit before the bucket was refilled (%s): leftover tokens and the refilled capacity add up' % [t for b, t in late])


def check(R, F):
    check_refill_first(R, F)
    pr = F.fn(PR)
    # ---- (a)
    n = 0
    srcs = [b for b, t in pr.calls() if callee_name(t) in TIME_SRC]
    R.require(len(srcs) >= 2, 'elapsed-arith', PR + '|time-sources', pr.where(), '%d Duration accessors' % len(srcs), 'expected the elapsed time to be read through Duration::as_secs / subsec_nanos; found %d accessor calls' % len(srcs))
    for b, blk in enumerate(pr.blocks):
        if blk['cleanup']:
            continue
        for i, st in enumerate(blk['stmts']):
            if st['k'] != 'assign':
                continue
            rv = st['rv']
            if rv['k'] == 'cast' and rv['ck'].startswith('IntToInt') and time_derived(pr, rv['op']):
                src_ty = rv['op']['pl']['ty']
                dst_ty = rv['ty']
                n += 1
                ok = INT_W.get(src_ty, 0) <= INT_W.get(dst_ty, 0) and not (src_ty.startswith('u') and dst_ty.startswith('i') and INT_W.get(src_ty) == INT_W.get(dst_ty))
                R.require(ok, 'elapsed-arith', '%s|cast-%s-to-%s#%s' % (PR, src_ty, dst_ty, paths.show_operand(pr, rv['op'])), pr.where(b, i),
                          'widening cast of an elapsed-time value', 'an elapsed-time value (%s) is narrowed from %s to %s: after %s of idle time the high bits are lost and the refill is wrong' % (
                              paths.show_operand(pr, rv['op']), src_ty, dst_ty, '2^32 seconds' if dst_ty == 'u32' else 'a long period'))
            if rv['k'] == 'bin' and rv['op'].replace('WithOverflow', '') in ('Add', 'Sub', 'Mul', 'Shl') and (time_derived(pr, rv['a']) or time_derived(pr, rv['b'])):
                n += 1
                R.bad('elapsed-arith', '%s|raw-%s#%s' % (PR, rv['op'].replace('WithOverflow', ''), paths.show_operand(pr, rv['a']) + ',' + paths.show_operand(pr, rv['b'])), pr.where(b, i),
                      'raw %s on an elapsed-time value (%s, %s): it overflows (panics in debug, wraps in release) for long idle periods; use saturating/checked arithmetic' % (rv['op'], paths.show_operand(pr, rv['a']), paths.show_operand(pr, rv['b'])))
    # the refill subtraction itself saturates, and last_refill uses checked_sub
    sat = calls_in(pr, 'core::num::<impl u32>::saturating_sub')
    R.require(len(sat) == 1 and paths.show_operand(pr, sat[0][1]['args'][0]).endswith('.count'), 'elapsed-arith', PR + '|refill-saturating-sub', pr.where(sat[0][0]) if sat else pr.where(), 'count = count.saturating_sub(refill)', 'the refill no longer subtracts from the count with saturating_sub')
    if sat:
        # the subtrahend must be rate x whole elapsed seconds through saturating/checked multiplication
        sl = slice_of(pr, sat[0][1]['args'][1])
        names = sl.call_names()
        ok = any(n2 == 'std::time::Duration::as_secs' for n2 in names) and any('saturating_mul' in n2 or 'checked_mul' in n2 for n2 in names) and any('rate_and_limit_for_category' in n2 for n2 in names)
        R.require(ok, 'elapsed-arith', PR + '|refill-amount', pr.where(sat[0][0]), 'refill = rate (x) whole elapsed seconds with saturating/checked multiplication',
                  'the refill amount is not rate x as_secs() combined by a saturating/checked multiplication (multiplications in its derivation: %s)' % sorted(paths.short(x) for x in names if 'mul' in x.lower()))
    cs = [t for b, t in pr.calls() if callee_name(t).endswith('Instant::checked_sub')]
    ok = len(cs) == 1 and 'subsec_nanos' in paths.show_operand(pr, cs[0]['args'][1]) and 'Instant::now' in paths.show_operand(pr, cs[0]['args'][0])
    R.require(ok, 'elapsed-arith', PR + '|last-refill-whole-seconds', pr.where(), 'last_refill = now - fractional part (checked)', 'last_refill is not advanced to now minus the fractional part with checked_sub')
    R.floor('elapsed-arith', 5)

    # ---- (b)
    newp = F.fn('server::rrl::RrlParams::new')
    cm = calls_in(newp, 'core::num::<impl u32>::checked_mul')
    pairs = sorted((paths.show_operand(newp, t['args'][0]), paths.show_operand(newp, t['args'][1])) for b, t in cm)
    wide_tests = []
    if not pairs:
        # equivalent form: the product is computed in u64 and compared with u32::MAX
        for b, blk in enumerate(newp.blocks):
            t = blk['term']
            if blk['cleanup'] or t['k'] != 'switch':
                continue
            txt = paths.show_operand(newp, t['op'])
            m = re.match(r'^Gt\(Mul\((?:\w+::from|cast)\((arg\d)\),(?:\w+::from|cast)\((arg\d)\)\),(?:\w+::from\(u32::MAX\)|cast\(u32::MAX\)|4294967295_u64)\)$', txt)
            if m and 'u64' in newp.local_ty(t['op']['pl']['l'] if False else t['op']['pl']['l']) or m:
                if m:
                    pairs.append((m.group(1), m.group(2)))
                    wide_tests.append(b)
        pairs = sorted(pairs)
    any_tests = []
    if not pairs:
        # equivalent form: `[r1, r2, r3].iter().any(|r| r.checked_mul(window).is_none())`
        for b, t in newp.calls():
            if not callee_name(t).endswith('Iterator>::any') or len(t['args']) != 2:
                continue
            m = re.match(r"^slice::iter\(cast\(array\{(arg\d),(arg\d),(arg\d)\}\)\)$", paths.show_operand(newp, t['args'][0]))
            m2 = re.match(r'^new::(\{closure#\d+\})\{(arg\d)\}$', paths.show_operand(newp, t['args'][1]))
            c = F.fns.get(newp.gpath + '::' + m2.group(1)) if m2 else None
            if m and c is not None:
                cc = [(paths.show_operand(c, tt['args'][0]), paths.show_operand(c, tt['args'][1])) for bb, tt in c.calls() if callee_name(tt).endswith('checked_mul')]
                rets = [paths.show_operand(c, st['rv']['op']) for bl in c.blocks for st in bl['stmts'] if st['k'] == 'assign' and st['lhs']['l'] == 0 and st['rv']['k'] == 'use']
                isn = [tt for bb, tt in c.calls() if callee_name(tt).endswith('Option::<T>::is_none') and tt['dest']['l'] == 0] or [1 for r_ in rets if r_.startswith('Option::is_none(num::checked_mul(')]
                if cc in ([('arg2', 'arg1.0')], [('arg1.0', 'arg2')]) and isn:
                    pairs = sorted((a, m2.group(2)) for a in m.groups())
                    any_tests.append(b)
    R.require(pairs == [('arg1', 'arg4'), ('arg2', 'arg4'), ('arg3', 'arg4')], 'rate-window', 'server::rrl::RrlParams::new|checked-products', newp.where(),
              'each rate x window is admitted under checked_mul', 'RrlParams::new checks products %s, expected each of the three rates times the window' % pairs)
    okb = [b for b, blk in enumerate(newp.blocks) for st in blk['stmts'] if st['k'] == 'assign' and st['rv']['k'] == 'agg' and st['rv']['def'] == 'server::rrl::RrlParams']
    ok = len(okb) == 1
    if ok:
        g = paths.dom_guards(newp, okb[0])
        for b, t in cm:
            pass
        # the Ok construction must not be reachable on an edge where a product overflowed
        for b, t in cm:
            nb = t['t']
            # find the is_none test consuming this product
            ok = ok and any('checked_mul' in x for x in g)
        if wide_tests:
            ok = ok and all(any(x.startswith('Gt(Mul(') and x.endswith(' in [0]') for x in g) for _ in wide_tests)
        if any_tests:
            ok = ok and any(re.match(r"^Iter<'a, T>::any\(.*\) in \[0\]$", x) for x in g)
    R.require(ok, 'rate-window', 'server::rrl::RrlParams::new|constructed-after-checks', newp.where(), 'the parameters are built only when no product overflowed', 'RrlParams is constructed without the checked_mul tests dominating it')
    wr = effects.writers_of(F, 'server::rrl::RrlParams')
    for f in ('noerror_rate', 'nxdomain_rate', 'error_rate', 'window'):
        R.require(not wr.get(f), 'rate-window', 'server::rrl::RrlParams|%s-immutable' % f, '', 'no function assigns %s after construction' % f, '%s is assigned by %s' % (f, sorted(wr.get(f, {}))))
    rl = F.fn('server::rrl::Rrl::rate_and_limit_for_category')
    # by value provenance: under each category the returned rate is that category's rate field, and the returned limit is
    # a product of the window and that same rate -- however the arms and the multiplication are arranged
    from qv import origins
    cats = enum_variants(F, 'server::rrl::Category')

    def arm_of(b):
        allowed = set(range(len(cats)))
        for g in paths.dom_guards(rl, b, variants=False):
            m = re.match(r'^discr\(arg2\) (in|not in) \[([\d, ]+)\]$', g)
            if m:
                vs = {int(x) for x in m.group(2).split(',')}
                allowed &= vs if m.group(1) == 'in' else (allowed - vs)
        return tuple(sorted(cats[k] for k in allowed))

    def rate_leaves(leaves):
        out = set()
        for lf in leaves:
            if lf[0] == 'rv' and lf[3].get('k') == 'use':
                out.add((arm_of(lf[1]), paths.show_operand(rl, lf[3]['op'])))
            else:
                out.add((('?',), str(lf[0])))
        return out
    r0 = rate_leaves(origins.trace(rl, 0, [('f', 0)]))
    r1, others = set(), []
    for lf in origins.trace(rl, 0, [('f', 1)]):
        if lf[0] == 'rv' and lf[3].get('k') == 'bin' and lf[3]['op'].startswith('Mul'):
            ops = [lf[3]['a'], lf[3]['b']]
            w = [o for o in ops if paths.show_operand(rl, o) == 'arg1.params.window']
            rest = [o for o in ops if paths.show_operand(rl, o) != 'arg1.params.window']
            if len(w) == 1 and len(rest) == 1 and is_place(rest[0]):
                arm = arm_of(lf[1])
                for a2, f2 in rate_leaves(origins._from_operand(rl, lf[1], lf[2], rest[0], [], set(), 0)):
                    r1.add((tuple(sorted(set(a2) & set(arm))) if a2 != ('?',) else a2, f2))
                continue
        others.append(lf[0])
    want = {(('NoError',), 'arg1.params.noerror_rate'), (('NxDomain',), 'arg1.params.nxdomain_rate'), (('Error',), 'arg1.params.error_rate')}
    r1 = {x for x in r1 if x[0]}
    R.require(r0 == want and r1 == want and not others, 'rate-window', 'server::rrl::Rrl::rate_and_limit_for_category|products', rl.where(), 'limit = rate x window over the admitted fields, per category',
              'per category the function returns rate %s and limit = window x %s (other limit sources: %s); expected the category\'s own rate field in both' % (sorted(r0), sorted(r1), others))
    R.floor('rate-window', 7)

    # ---- (c)
    ss = F.fn('server::rrl::Rrl::should_slip')
    # decided by the linear engine, whatever form the three-way test takes (if / else-if chain, match on the integer):
    # `false` is returned only with slip == 0, `true` only with slip == 1, and the random draw happens only with slip >= 2
    from qv.bounds import Analyzer, eq as eq_, le, lin
    from rules import e5
    A = Analyzer(ss, F, e5.make_summary(F))
    SLIP = lin('P:(*_1).params.slip')
    rows = {'false': [], 'true': []}
    for b, blk in enumerate(ss.blocks):
        for i, st in enumerate(blk['stmts']):
            if not blk['cleanup'] and st['k'] == 'assign' and not st['lhs']['p'] and st['lhs']['l'] == 0 and st['rv']['k'] == 'use' and st['rv']['op']['k'] == 'const':
                rows.setdefault(const_name(st['rv']['op']), []).append((b, i))
    okf = len(rows['false']) >= 1 and all(A.prove(b, i, eq_(SLIP, lin()))[0] for b, i in rows['false'])
    R.require(okf, 'should-slip', 'server::rrl::Rrl::should_slip|zero-never', ss.where(), 'slip == 0 -> false', 'should_slip returns the constant false on a path on which slip == 0 is not implied')
    okt = len(rows['true']) >= 1 and all(A.prove(b, i, eq_(SLIP, lin(c=1)))[0] for b, i in rows['true'])
    R.require(okt, 'should-slip', 'server::rrl::Rrl::should_slip|one-always', ss.where(), 'slip == 1 -> true', 'should_slip returns the constant true on a path on which slip == 1 is not implied')
    draws = [b for b, t in ss.calls() if 'gen_range' in callee_name(t)]
    okd = len(draws) == 1 and A.prove(draws[0], None, [le(lin(c=2), SLIP)])[0]
    R.require(okd, 'should-slip', 'server::rrl::Rrl::should_slip|draw-only-above-one', ss.where(draws[0]) if draws else ss.where(), 'the random draw only with slip >= 2', 'the random draw is reachable with slip < 2')
    gr = calls_in(ss, 'gen_range')
    R.require(len([1 for b, t in ss.calls() if 'gen_range' in callee_name(t)]) == 1, 'should-slip', 'server::rrl::Rrl::should_slip|random-otherwise', ss.where(), 'random 1-in-slip otherwise', 'should_slip no longer draws from 0..slip otherwise')
    R.floor('should-slip', 4)

    # ---- (d) action arms
    lim = None
    for b, blk in enumerate(pr.blocks):
        t = blk['term']
        if t['k'] == 'switch':
            e = paths.explain_edge(pr, b, t['otherwise'])
            if e and re.match(r'^Ge\(.*\.count,.*rate_and_limit_for_category\(.*\)\.1\) not in', e):
                lim = b
    if lim is None:
        R.bad('actions', PR + '|limit-test', pr.where(), 'cannot find the count >= limit test')
    else:
        rows = tables.table(pr, lim)
        limited = [r for r in rows if r['otherwise']][0]
        under = [r for r in rows if 0 in r['values']][0]
        # send arm
        incs = [(b, st) for b in under['region'] for st in pr.blocks[b]['stmts'] if st['k'] == 'assign' and st['lhs']['p'] and st['lhs']['p'][-1].get('n') == 'count']
        ok = len(incs) == 1 and paths.show_operand(pr, incs[0][1]['rv']['op']).startswith('Add(') and paths.show_operand(pr, incs[0][1]['rv']['op']).endswith('.count,1_u32)')
        acts = {c for c in under['consts'] if 'Action::' in c}
        R.require(ok and acts == {'agg server::rrl::Action::Send'}, 'actions', PR + '|send-arm', pr.where(under['target']), 'count += 1 and Action::Send under count < limit', 'the send arm does not increment the count by one and record Send (%s, %s)' % ([paths.show_operand(pr, x[1]['rv']['op']) for x in incs], acts))
        cnt_writes_lim = [b for b in limited['region'] for st in pr.blocks[b]['stmts'] if st['k'] == 'assign' and st['lhs']['p'] and st['lhs']['p'][-1].get('n') == 'count']
        R.require(not cnt_writes_lim, 'actions', PR + '|limited-no-count', pr.where(limited['target']), 'limited responses do not consume tokens', 'the count is modified on the limited arm')
        slipsw = [b for b in limited['region'] if pr.blocks[b]['term']['k'] == 'switch' and 'should_slip' in (paths.explain_edge(pr, b, pr.blocks[b]['term']['otherwise']) or '')]
        if len(slipsw) != 1:
            R.bad('actions', PR + '|slip-test', pr.where(), 'cannot find the should_slip test on the limited arm')
        else:
            r2 = tables.table(pr, slipsw[0])
            slip = [r for r in r2 if r['otherwise']][0]
            drop = [r for r in r2 if 0 in r['values']][0]
            cl = [b for n2, ca, b in slip['calls'] if n2 == W + 'clear_rrs']
            tc = [b for n2, ca, b in slip['calls'] if n2 == W + 'set_tc' and ca[1] == 'true']
            R.require(len(cl) == 1 and len(tc) == 1 and pr.dominates(cl[0], tc[0]) and 'agg server::rrl::Action::Slip' in slip['consts'], 'actions', PR + '|slip-arm', pr.where(slip['target']), 'slip: clear_rrs, then set_tc(true)', 'the slip arm does not clear the records and then set TC')
            sr = [st for b in drop['region'] for st in pr.blocks[b]['stmts'] if st['k'] == 'assign' and st['lhs']['p'] and st['lhs']['p'][-1].get('n') == 'send_response' and st['rv']['k'] == 'use' and const_name(st['rv']['op']) == 'false']
            R.require(len(sr) == 1 and 'agg server::rrl::Action::Drop' in drop['consts'] and not any(n2.startswith(W) for n2, ca, b in drop['calls']), 'actions', PR + '|drop-arm', pr.where(drop['target']), 'drop: send_response = false', 'the drop arm does not clear send_response (or touches the response)')
    R.floor('actions', 4)
