"""Rules over message::writer shared by C02, C04, C09, C12."""
import re

from qv.facts import callee_name, const_name, const_int, is_place, op_str
from qv.flow import slice_of
from qv import paths, tables, effects
from qv.rulelib import W, calls_in, one_call

WRITER_TY = 'message::writer::Writer'
ROLLBACK = W + 'with_rollback'
FINISH = W + 'finish_with_mac'
COUNTERS = ('qdcount', 'ancount', 'nscount', 'arcount')


def err_blocks(fn):
    """Blocks that produce an Err return value: `_0 = Result::Err{..}` or `_0 = from_residual(..)`."""
    out = set()
    for b, blk in enumerate(fn.blocks):
        if blk['cleanup']:
            continue
        for st in blk['stmts']:
            if st['k'] == 'assign' and not st['lhs']['p'] and st['lhs']['l'] == 0 and st['rv']['k'] == 'agg' and st['rv']['def'].endswith('Result::Err'):
                out.add(b)
        t = blk['term']
        if t['k'] == 'call' and not t['dest']['p'] and t['dest']['l'] == 0 and 'from_residual' in callee_name(t):
            out.add(b)
    return out


def rollback_closures(F):
    """Closures passed to Writer::with_rollback: [(parent fn, closure fn)]."""
    out = []
    for gp, fn in F.fns.items():
        if not gp.startswith(W) or '{closure' in gp:
            continue
        for b, t in calls_in(fn, ROLLBACK):
            sl = slice_of(fn, t['args'][1], through_calls=False)
            for bb, blk in enumerate(fn.blocks):
                for st in blk['stmts']:
                    if st['k'] == 'assign' and st['rv']['k'] == 'agg' and st['rv']['ak'] == 'closure' and ('local', st['lhs']['l']) in sl.nodes:
                        c = F.fns.get(st['rv']['def'])
                        if c is not None:
                            out.append((fn, c))
    return out


def clamping_ttl_constructors(F):
    """Functions returning rr::ttl::Ttl whose body contains the RFC 2181 clamp (a comparison with i32::MAX)."""
    out = []
    for gp, fn in F.fns.items():
        if not (gp.startswith('rr::ttl::') or gp.startswith('<rr::ttl::')):
            continue
        if fn.local_ty(0) != 'rr::ttl::Ttl':
            continue
        cmp_ = False
        const_ttl = False
        for blk in fn.blocks:
            for st in blk['stmts']:
                if st['k'] == 'assign' and st['rv']['k'] == 'bin' and st['rv']['op'] in ('Gt', 'Ge', 'Lt', 'Le'):
                    cmp_ = True
                if st['k'] == 'assign' and st['rv']['k'] == 'agg' and st['rv']['def'] == 'rr::ttl::Ttl' and st['rv']['ops'] and st['rv']['ops'][0]['k'] == 'const':
                    const_ttl = True
        # a comparison on the argument plus a constant result on one arm: the RFC 2181 §8 clamp
        has = cmp_ and const_ttl
        if has:
            out.append(gp)
    return out


def check_rollback_completeness(R, F, rule='rollback'):
    wr = F.fn(ROLLBACK)
    dw = effects.direct_writes(wr)
    restored = {f for (c, f), sites in dw.items() if c == WRITER_TY and any(k == 'assign' for b, k in sites)}
    # every restore is on the is_err edge, every restored field was saved before the call of f
    call_f = [(b, t) for b, t in wr.calls() if 'FnOnce' in callee_name(t) or 'call_once' in callee_name(t)]
    ok_shape = len(call_f) == 1
    saved = set()
    if ok_shape:
        fb = call_f[0][0]
        for b, blk in enumerate(wr.blocks):
            if blk['cleanup'] or not wr.dominates(b, fb):
                continue
            for st in blk['stmts']:
                if st['k'] == 'assign' and st['rv']['k'] == 'use' and is_place(st['rv']['op']):
                    ch = effects.place_field_chain(wr, wr.canon(st['rv']['op']['pl']))
                    if ch and ch[-1][0] == WRITER_TY:
                        saved.add(ch[-1][1])
        for (c, f), sites in dw.items():
            if c != WRITER_TY:
                continue
            for b, k in sites:
                if k != 'assign':
                    continue
                g = paths.dom_guards(wr, b)
                ok_shape = ok_shape and any(re.match(r'^Result::is_err\(.*\) not in \[0\]$', x) for x in g)
    R.require(ok_shape and restored and restored <= saved, rule, ROLLBACK + '|restores-what-it-saves', wr.where(),
              'with_rollback saves %s before f and restores exactly those on the is_err edge' % sorted(restored),
              'with_rollback: restored fields %s, saved %s, or a restore is not confined to the is_err edge' % (sorted(restored), sorted(saved)))
    pairs = rollback_closures(F)
    for parent, clo in pairs:
        tw = effects.transitive_writes(F, [clo.gpath], WRITER_TY)
        fields = set(tw)
        extra = fields - restored
        # fields that rollback does not restore may only be written by the closure itself, after its last fallible
        # step (no Err return reachable after the write) -- these are the section counters
        bad = []
        for f in sorted(extra):
            writers = tw[f]
            if writers != {clo.gpath}:
                bad.append('%s is written by %s (reachable from the closure) but not restored by with_rollback' % (f, sorted(writers - {clo.gpath})))
                continue
            eb = err_blocks(clo)
            for (c, ff), sites in effects.direct_writes(clo).items():
                if c == WRITER_TY and ff == f:
                    for b, k in sites:
                        p = clo.find_path(b, lambda x: x in eb and x != b)
                        if p:
                            bad.append('%s is written at %s and an error return is still reachable afterwards (%s): a failed operation would leave it changed' % (f, clo.where(b), paths.fmt_path(clo, p)))
        R.require(not bad, rule, '%s|closure-effects' % clo.gpath, clo.where(),
                  'fields written under rollback: %s; unrestored ones (%s) are written only after the last fallible step' % (sorted(fields), sorted(extra)),
                  '; '.join(bad))
    R.floor(rule, 8, 'with_rollback itself + 7 closures (add_question, 6 add_*)')
    return restored


def check_ttl_not_clamped_on_write(R, F, rule='opt-ttl-raw'):
    """The TTL operand of the OPT record emitted by finish_with_mac carries the extended-RCODE bits: it must not pass
    through a clamping Ttl constructor."""
    fin = F.fn(FINISH)
    clamps = clamping_ttl_constructors(F)
    R.require(len(clamps) >= 1, rule, 'rr::ttl|clamping-constructors', '', 'clamping constructors: %s' % clamps, 'no Ttl constructor with the RFC 2181 clamp found (anchor for the rule)')
    found = False
    for b, t in calls_in(fin, W + 'add_rr'):
        if 'Type(41_u16)' not in ' '.join(op_str(a) for a in t['args']):
            continue
        found = True
        ttl_idx = [i for i, a in enumerate(t['args']) if is_place(a) and a['pl']['ty'] == 'rr::ttl::Ttl']
        sl = slice_of(fin, t['args'][ttl_idx[0]]) if ttl_idx else None
        through = sorted(n for n in (sl.call_names() if sl else []) if n in clamps)
        from_bits = sl is not None and any(fp and fp[-1] == 'extended_rcode_upper_bits' for fp in sl.field_paths())
        R.require(sl is not None and not through and from_bits, rule, FINISH + '|opt-ttl', fin.where(b),
                  'OPT TTL derives from extended_rcode_upper_bits without a clamping constructor',
                  'the OPT TTL field (extended RCODE / version / flags) is built through %s, which clamps values above 2^31-1 to 0: extended RCODEs >= 2048 would be emitted as 0' % through if through else 'OPT TTL does not derive from extended_rcode_upper_bits')
    R.require(found, rule, FINISH + '|opt-emission', fin.where(), 'OPT emission found', 'finish_with_mac no longer emits the OPT record through add_rr(Type::OPT)')
