"""Rules over message::writer shared by C02, C04, C09, C12."""
import re

from qv.facts import callee_name, const_name, const_int, is_place, op_str
from qv.flow import slice_of
from qv import paths, tables, effects
from qv.rulelib import W, calls_in, one_call

WRITER_TY = 'message::writer::Writer'
ROLLBACK = W + 'with_rollback'
FINISH = W + 'finish_with_mac'
COUNTERS = ('qdcount', 'ancount', 'nscount', 'arcount')


def err_blocks(fn):
    """Blocks that produce an Err return value: `_0 = Result::Err{..}` or `_0 = from_residual(..)`."""
    out = set()
    for b, blk in enumerate(fn.blocks):
        if blk['cleanup']:
            continue
        for st in blk['stmts']:
            if st['k'] == 'assign' and not st['lhs']['p'] and st['lhs']['l'] == 0 and st['rv']['k'] == 'agg' and st['rv']['def'].endswith('Result::Err'):
                out.add(b)
        t = blk['term']
        if t['k'] == 'call' and not t['dest']['p'] and t['dest']['l'] == 0 and 'from_residual' in callee_name(t):
            out.add(b)
    return out


def rollback_closures(F):
    """Closures passed to Writer::with_rollback: [(parent fn, closure fn)]."""
    out = []
    for gp, fn in F.fns.items():
        if not gp.startswith(W) or '{closure' in gp:
            continue
        for b, t in calls_in(fn, ROLLBACK):
            sl = slice_of(fn, t['args'][1], through_calls=False)
            for bb, blk in enumerate(fn.blocks):
                for st in blk['stmts']:
                    if st['k'] == 'assign' and st['rv']['k'] == 'agg' and st['rv']['ak'] == 'closure' and ('local', st['lhs']['l']) in sl.nodes:
                        c = F.fns.get(st['rv']['def'])
                        if c is not None:
                            out.append((fn, c))
    return out


def clamping_ttl_constructors(F):
    """Functions returning rr::ttl::Ttl whose body contains the RFC 2181 clamp (a comparison with i32::MAX)."""
    out = []
    for gp, fn in F.fns.items():
        if not (gp.startswith('rr::ttl::') or gp.startswith('<rr::ttl::')):
            continue
        if fn.local_ty(0) != 'rr::ttl::Ttl':
            continue
        cmp_ = False
        const_ttl = False
        for blk in fn.blocks:
            for st in blk['stmts']:
                if st['k'] == 'assign' and st['rv']['k'] == 'bin' and st['rv']['op'] in ('Gt', 'Ge', 'Lt', 'Le'):
                    cmp_ = True
                if st['k'] == 'assign' and st['rv']['k'] == 'agg' and st['rv']['def'] == 'rr::ttl::Ttl' and st['rv']['ops'] and st['rv']['ops'][0]['k'] == 'const':
                    const_ttl = True
        # a comparison on the argument plus a constant result on one arm: the RFC 2181 §8 clamp
        has = cmp_ and const_ttl
        if has:
            out.append(gp)
    return out


def check_rollback_completeness(R, F, rule='rollback'):
    wr = F.fn(ROLLBACK)
    dw = effects.direct_writes(wr)
    restored = {f for (c, f), sites in dw.items() if c == WRITER_TY and any(k == 'assign' for b, k in sites)}
    # every restore is on the is_err edge, every restored field was saved before the call of f
    call_f = [(b, t) for b, t in wr.calls() if 'FnOnce' in callee_name(t) or 'call_once' in callee_name(t)]
    ok_shape = len(call_f) == 1
    saved = set()
    if ok_shape:
        fb = call_f[0][0]
        for b, blk in enumerate(wr.blocks):
            if blk['cleanup'] or not wr.dominates(b, fb):
                continue
            for st in blk['stmts']:
                if st['k'] == 'assign' and st['rv']['k'] == 'use' and is_place(st['rv']['op']):
                    ch = effects.place_field_chain(wr, wr.canon(st['rv']['op']['pl']))
                    if ch and ch[-1][0] == WRITER_TY:
                        saved.add(ch[-1][1])
        for (c, f), sites in dw.items():
            if c != WRITER_TY:
                continue
            for b, k in sites:
                if k != 'assign':
                    continue
                g = paths.dom_guards(wr, b)
                ok_shape = ok_shape and any(re.match(r'^Result::is_err\(.*\) not in \[0\]$', x) for x in g)
    R.require(ok_shape and restored and restored <= saved, rule, ROLLBACK + '|restores-what-it-saves', wr.where(),
              'with_rollback saves %s before f and restores exactly those on the is_err edge' % sorted(restored),
              'with_rollback: restored fields %s, saved %s, or a restore is not confined to the is_err edge' % (sorted(restored), sorted(saved)))
    pairs = rollback_closures(F)
    for parent, clo in pairs:
        tw = effects.transitive_writes(F, [clo.gpath], WRITER_TY)
        fields = set(tw)
        extra = fields - restored
        # fields that rollback does not restore may only be written by the closure itself, after its last fallible
        # step (no Err return reachable after the write) -- these are the section counters
        bad = []
        for f in sorted(extra):
            writers = tw[f]
            if writers != {clo.gpath}:
                bad.append('%s is written by %s (reachable from the closure) but not restored by with_rollback' % (f, sorted(writers - {clo.gpath})))
                continue
            eb = err_blocks(clo)
            for (c, ff), sites in effects.direct_writes(clo).items():
                if c == WRITER_TY and ff == f:
                    for b, k in sites:
                        p = clo.find_path(b, lambda x: x in eb and x != b)
                        if p:
                            bad.append('%s is written at %s and an error return is still reachable afterwards (%s): a failed operation would leave it changed' % (f, clo.where(b), paths.fmt_path(clo, p)))
        R.require(not bad, rule, '%s|closure-effects' % clo.gpath, clo.where(),
                  'fields written under rollback: %s; unrestored ones (%s) are written only after the last fallible step' % (sorted(fields), sorted(extra)),
                  '; '.join(bad))
    R.floor(rule, 8, 'with_rollback itself + 7 closures (add_question, 6 add_*)')
    return restored


def check_ttl_not_clamped_on_write(R, F, rule='opt-ttl-raw'):
    """The TTL operand of the OPT record emitted by finish_with_mac carries the extended-RCODE bits: it must not pass
    through a clamping Ttl constructor."""
    fin = F.fn(FINISH)
    clamps = clamping_ttl_constructors(F)
    R.require(len(clamps) >= 1, rule, 'rr::ttl|clamping-constructors', '', 'clamping constructors: %s' % clamps, 'no Ttl constructor with the RFC 2181 clamp found (anchor for the rule)')
    found = False
    for b, t in calls_in(fin, W + 'add_rr'):
        if 'Type(41_u16)' not in ' '.join(op_str(a) for a in t['args']):
            continue
        found = True
        ttl_idx = [i for i, a in enumerate(t['args']) if is_place(a) and a['pl']['ty'] == 'rr::ttl::Ttl']
        sl = slice_of(fin, t['args'][ttl_idx[0]]) if ttl_idx else None
        through = sorted(n for n in (sl.call_names() if sl else []) if n in clamps)
        from_bits = sl is not None and any(fp and fp[-1] == 'extended_rcode_upper_bits' for fp in sl.field_paths())
        R.require(sl is not None and not through and from_bits, rule, FINISH + '|opt-ttl', fin.where(b),
                  'OPT TTL derives from extended_rcode_upper_bits without a clamping constructor',
                  'the OPT TTL field (extended RCODE / version / flags) is built through %s, which clamps values above 2^31-1 to 0: extended RCODEs >= 2048 would be emitted as 0' % through if through else 'OPT TTL does not derive from extended_rcode_upper_bits')
    R.require(found, rule, FINISH + '|opt-emission', fin.where(), 'OPT emission found', 'finish_with_mac no longer emits the OPT record through add_rr(Type::OPT)')


HEADER_SETTERS = ['set_id', 'set_qr', 'set_opcode', 'set_aa', 'set_tc', 'set_rd', 'set_ra', 'set_rcode', 'set_extended_rcode']


def octets_writers(F):
    """Writer methods that write into the buffer: index_mut / copy / fill on `octets`, or indexed stores."""
    out = {}
    for gp, fn in F.fns.items():
        if not gp.startswith('message::writer::'):
            continue
        hits = []
        for b, blk in enumerate(fn.blocks):
            if blk['cleanup']:
                continue
            for st in blk['stmts']:
                if st['k'] == 'assign' and st['lhs']['p']:
                    c = fn.canon(st['lhs'])
                    names = [p['n'] for p in c['p'] if isinstance(p, dict) and 'f' in p]
                    if names[:1] == ['octets'] and any(isinstance(p, dict) and ('idx' in p or 'cidx' in p) for p in c['p']) and effects.strip_ty(fn.local_ty(c['l'])) == WRITER_TY:
                        hits.append(b)
            t = blk['term']
            if t['k'] == 'call':
                n = callee_name(t)
                if ('IndexMut' in n or 'index_mut' in n or n.endswith('copy_from_slice') or n.endswith('::fill') or 'copy_within' in n) and t['args'] and is_place(t['args'][0]):
                    sl = slice_of(fn, t['args'][0], through_calls=True)
                    if any(fp[:1] == ('octets',) for fp in sl.field_paths()) or any('octets' in n2 for n2 in sl.places()):
                        hits.append(b)
        if hits:
            out[gp] = sorted(set(hits))
    return out



def check_no_overrun(R, F):
    """`octets` is written only by bounded writers; try_push's copy is dominated by the space test."""
    ow = octets_writers(F)
    allowed = {W + s for s in HEADER_SETTERS} | {W + 'new', W + 'try_from_template_impl', W + 'write'}
    for gp in sorted(ow):
        fn = F.fns[gp]
        R.require(gp in allowed, 'octets-writers', gp, fn.where(ow[gp][0]), 'allowed buffer writer',
                  '%s writes into the message buffer but is not one of the bounded writers (header setters, write_u16, constructors, try_push)' % gp)
    R.floor('octets-writers', 10)
    # the raw writer `write` is called only by try_push (under the space test) and write_u16
    wcallers = sorted({fn.gpath for fn in F.fns.values() for b, t in calls_in(fn, W + 'write')})
    R.require(wcallers == sorted([W + 'try_push', W + 'write_u16']), 'octets-writers', W + 'write|callers', F.fn(W + 'write').where(),
              'raw write is called only by try_push and write_u16', 'the unchecked raw writer is called by %s, expected only try_push and write_u16' % wcallers)
    tp = F.fn(W + 'try_push')
    for b, t in calls_in(tp, W + 'write'):
        ok = False
        for s_ in tp.doms(b):
            for p in tp.preds()[s_]:
                sw = tp.blocks[p]['term']
                if sw['k'] == 'switch' and not tp.dominates(s_, p):
                    txt = paths.explain_edge(tp, p, s_)
                    if txt and re.match(r'^Ge\(Sub\(arg1\.available,arg1\.cursor\),slice::len\(arg2\)\) not in \[0\]$', txt):
                        ok = True
        pos = paths.show_operand(tp, t['args'][1])
        R.require(ok and pos == 'arg1.cursor', 'try-push-guard', W + 'try_push|write', tp.where(b),
                  'write(cursor, data) is dominated by available - cursor >= len(data)', 'the buffer write in try_push is not dominated by the available - cursor >= len(data) test, or does not write at the cursor (%s)' % pos)
    # cursor advances by exactly len(data) after the write
    dwp = effects.direct_writes(tp)
    for b, k in dwp.get((WRITER_TY, 'cursor'), []):
        st = [s2 for s2 in tp.blocks[b]['stmts'] if s2['k'] == 'assign' and s2['lhs']['p'] and s2['lhs']['p'][-1].get('n') == 'cursor']
        txt = paths.show_operand(tp, st[0]['rv']['op']) if st else '?'
        R.require(txt == 'Add(arg1.cursor,slice::len(arg2))', 'try-push-guard', W + 'try_push|advance', tp.where(b), 'cursor += len(data)', 'try_push advances the cursor by %s' % txt)
    R.floor('try-push-guard', 2)
    # write_u16 callers: constant header offsets or the RDLENGTH slot reserved in add_rr
    for fn, b, t in [(fn, b, t) for fn in F.fns.values() if fn.gpath.startswith('message::writer::') for b, t in calls_in(fn, W + 'write_u16')]:
        a = t['args'][1]
        if a['k'] == 'const':
            v = int(re.match(r'(\d+)', const_name(a)).group(1))
            R.require(v + 2 <= 12, 'write-u16-offset', '%s|const-%d' % (fn.gpath, v), fn.where(b), 'header offset %d' % v, 'write_u16 at constant offset %d is outside the header' % v)
        else:
            # must be the saved cursor taken after the `available - cursor >= 2` test
            txt = paths.show_operand(fn, a)
            g = paths.dom_guards(fn, b)
            ok = any(re.search(r'Lt\(Sub\(.*available.*cursor.*\),2_usize\) in \[0\]', x) for x in g) and 'cursor' in txt
            R.require(ok, 'write-u16-offset', '%s|%s' % (fn.gpath, 'rdlength-slot'), fn.where(b), 'RDLENGTH slot reserved under available - cursor >= 2',
                      'write_u16 at a variable offset (%s) that is not the RDLENGTH slot reserved under the available - cursor >= 2 test' % txt)
    R.floor('write-u16-offset', 5)

