"""Rules over message::writer shared by C02, C04, C09, C12."""
import re

from qv.facts import callee_name, const_name, const_int, is_place, op_str
from qv.flow import slice_of
from qv import paths, tables, effects, origins
from qv.rulelib import W, calls_in, one_call

WRITER_TY = 'message::writer::Writer'
ROLLBACK = W + 'with_rollback'
FINISH = W + 'finish_with_mac'
COUNTERS = ('qdcount', 'ancount', 'nscount', 'arcount')


def err_blocks(fn):
    """Blocks that produce an Err return value: `_0 = Result::Err{..}` or `_0 = from_residual(..)`."""
    out = set()
    for b, blk in enumerate(fn.blocks):
        if blk['cleanup']:
            continue
        for st in blk['stmts']:
            if st['k'] == 'assign' and not st['lhs']['p'] and st['lhs']['l'] == 0 and st['rv']['k'] == 'agg' and st['rv']['def'].endswith('Result::Err'):
                out.add(b)
        t = blk['term']
        if t['k'] == 'call' and not t['dest']['p'] and t['dest']['l'] == 0 and 'from_residual' in callee_name(t):
            out.add(b)
    return out


def rollback_closures(F):
    """Closures passed to Writer::with_rollback: [(parent fn, closure fn)]."""
    out = []
    for gp, fn in F.fns.items():
        if not gp.startswith(W) or '{closure' in gp:
            continue
        for b, t in calls_in(fn, ROLLBACK):
            sl = slice_of(fn, t['args'][1], through_calls=False)
            for bb, blk in enumerate(fn.blocks):
                for st in blk['stmts']:
                    if st['k'] == 'assign' and st['rv']['k'] == 'agg' and st['rv']['ak'] == 'closure' and ('local', st['lhs']['l']) in sl.nodes:
                        c = F.fns.get(st['rv']['def'])
                        if c is not None:
                            out.append((fn, c))
    return out


def clamping_ttl_constructors(F):
    """Functions returning rr::ttl::Ttl whose body contains the RFC 2181 clamp (a comparison with i32::MAX)."""
    out = []
    for gp, fn in F.fns.items():
        if not (gp.startswith('rr::ttl::') or gp.startswith('<rr::ttl::')):
            continue
        if fn.local_ty(0) != 'rr::ttl::Ttl':
            continue
        cmp_ = False
        const_ttl = False
        for blk in fn.blocks:
            for st in blk['stmts']:
                if st['k'] == 'assign' and st['rv']['k'] == 'bin' and st['rv']['op'] in ('Gt', 'Ge', 'Lt', 'Le'):
                    cmp_ = True
                if st['k'] == 'assign' and st['rv']['k'] == 'agg' and st['rv']['def'] == 'rr::ttl::Ttl' and st['rv']['ops'] and st['rv']['ops'][0]['k'] == 'const':
                    const_ttl = True
        # a comparison on the argument plus a constant result on one arm: the RFC 2181 §8 clamp
        has = cmp_ and const_ttl
        if has:
            out.append(gp)
    return out


def _fallible_local_call(fn, b):
    """Block b ends in a call to a function of this crate that returns a Result (a step that can still fail)."""
    t = fn.blocks[b]['term']
    if fn.blocks[b]['cleanup'] or t['k'] != 'call':
        return False
    n = callee_name(t)
    if n.startswith(('std::', 'core::', 'alloc::', '<std::', '<core::', '<alloc::')):
        return False
    dty = fn.local_ty(t['dest']['l']) if not t['dest']['p'] else ''
    return dty.startswith('std::result::Result')


def check_rollback_completeness(R, F, rule='rollback'):
    wr = F.fn(ROLLBACK)
    dw = effects.direct_writes(wr)
    restored = {f for (c, f), sites in dw.items() if c == WRITER_TY and any(k == 'assign' for b, k in sites)}
    # every restore is on the is_err edge, every restored field was saved before the call of f
    call_f = [(b, t) for b, t in wr.calls() if 'FnOnce' in callee_name(t) or 'call_once' in callee_name(t)]
    ok_shape = len(call_f) == 1
    saved = set()
    if ok_shape:
        fb = call_f[0][0]
        for b, blk in enumerate(wr.blocks):
            if blk['cleanup'] or not wr.dominates(b, fb):
                continue
            for st in blk['stmts']:
                if st['k'] == 'assign' and st['rv']['k'] == 'use' and is_place(st['rv']['op']):
                    ch = effects.place_field_chain(wr, wr.canon(st['rv']['op']['pl']))
                    if ch and ch[-1][0] == WRITER_TY:
                        saved.add(ch[-1][1])
        for (c, f), sites in dw.items():
            if c != WRITER_TY:
                continue
            for b, k in sites:
                if k != 'assign':
                    continue
                g = paths.dom_guards(wr, b)
                ok_shape = ok_shape and any(re.match(r'^Result::is_err\(.*\) not in \[0\]$', x) for x in g)
    R.require(ok_shape and restored and restored <= saved, rule, ROLLBACK + '|restores-what-it-saves', wr.where(),
              'with_rollback saves %s before f and restores exactly those on the is_err edge' % sorted(restored),
              'with_rollback: restored fields %s, saved %s, or a restore is not confined to the is_err edge' % (sorted(restored), sorted(saved)))
    pairs = rollback_closures(F)
    for parent, clo in pairs:
        tw = effects.transitive_writes(F, [clo.gpath], WRITER_TY)
        fields = set(tw)
        extra = fields - restored
        # fields that rollback does not restore may only be written by the closure itself, after its last fallible
        # step (no Err return reachable after the write) -- these are the section counters
        bad = []
        for f in sorted(extra):
            writers = tw[f]
            if writers != {clo.gpath}:
                bad.append('%s is written by %s (reachable from the closure) but not restored by with_rollback' % (f, sorted(writers - {clo.gpath})))
                continue
            eb = err_blocks(clo)
            for (c, ff), sites in effects.direct_writes(clo).items():
                if c == WRITER_TY and ff == f:
                    for b, k in sites:
                        p = clo.find_path(b, lambda x: x != b and (x in eb or _fallible_local_call(clo, x)))
                        if p is None and k == 'assign' and _fallible_local_call(clo, b):
                            p = [b]      # the store is followed, in its own block, by a call that can still fail
                        if p:
                            bad.append('%s is written at %s and an error return is still reachable afterwards (%s): a failed operation would leave it changed' % (f, clo.where(b), paths.fmt_path(clo, p)))
        R.require(not bad, rule, '%s|closure-effects' % clo.gpath, clo.where(),
                  'fields written under rollback: %s; unrestored ones (%s) are written only after the last fallible step' % (sorted(fields), sorted(extra)),
                  '; '.join(bad))
    R.floor(rule, 8, 'with_rollback itself + 7 closures (add_question, 6 add_*)')
    return restored


def check_ttl_not_clamped_on_write(R, F, rule='opt-ttl-raw'):
    """The TTL operand of the OPT record emitted by finish_with_mac carries the extended-RCODE bits: it must not pass
    through a clamping Ttl constructor."""
    fin = F.fn(FINISH)
    clamps = clamping_ttl_constructors(F)
    R.require(len(clamps) >= 1, rule, 'rr::ttl|clamping-constructors', '', 'clamping constructors: %s' % clamps, 'no Ttl constructor with the RFC 2181 clamp found (anchor for the rule)')
    found = False
    for b, t in calls_in(fin, W + 'add_rr'):
        if 'Type(41_u16)' not in ' '.join(op_str(a) for a in t['args']):
            continue
        found = True
        ttl_idx = [i for i, a in enumerate(t['args']) if is_place(a) and a['pl']['ty'] == 'rr::ttl::Ttl']
        sl = slice_of(fin, t['args'][ttl_idx[0]]) if ttl_idx else None
        through = sorted(n for n in (sl.call_names() if sl else []) if n in clamps)
        from_bits = sl is not None and any(fp and fp[-1] == 'extended_rcode_upper_bits' for fp in sl.field_paths())
        R.require(sl is not None and not through and from_bits, rule, FINISH + '|opt-ttl', fin.where(b),
                  'OPT TTL derives from extended_rcode_upper_bits without a clamping constructor',
                  'the OPT TTL field (extended RCODE / version / flags) is built through %s, which clamps values above 2^31-1 to 0: extended RCODEs >= 2048 would be emitted as 0' % through if through else 'OPT TTL does not derive from extended_rcode_upper_bits')
    R.require(found, rule, FINISH + '|opt-emission', fin.where(), 'OPT emission found', 'finish_with_mac no longer emits the OPT record through add_rr(Type::OPT)')


HEADER_SETTERS = ['set_id', 'set_qr', 'set_opcode', 'set_aa', 'set_tc', 'set_rd', 'set_ra', 'set_rcode', 'set_extended_rcode']


def octets_writers(F):
    """Writer methods that write into the buffer: index_mut / copy / fill on `octets`, or indexed stores."""
    out = {}
    for gp, fn in F.fns.items():
        if not gp.startswith('message::writer::'):
            continue
        hits = []
        for b, blk in enumerate(fn.blocks):
            if blk['cleanup']:
                continue
            for st in blk['stmts']:
                if st['k'] == 'assign' and st['lhs']['p']:
                    c = fn.canon(st['lhs'])
                    names = [p['n'] for p in c['p'] if isinstance(p, dict) and 'f' in p]
                    if names[:1] == ['octets'] and any(isinstance(p, dict) and ('idx' in p or 'cidx' in p) for p in c['p']) and effects.strip_ty(fn.local_ty(c['l'])) == WRITER_TY:
                        hits.append(b)
            t = blk['term']
            if t['k'] == 'call':
                n = callee_name(t)
                if ('IndexMut' in n or 'index_mut' in n or n.endswith('copy_from_slice') or n.endswith('::fill') or 'copy_within' in n) and t['args'] and is_place(t['args'][0]):
                    sl = slice_of(fn, t['args'][0], through_calls=True)
                    if any(fp[:1] == ('octets',) for fp in sl.field_paths()) or any('octets' in n2 for n2 in sl.places()):
                        hits.append(b)
        if hits:
            out[gp] = sorted(set(hits))
    return out



def check_no_overrun(R, F):
    """`octets` is written only by bounded writers; try_push's copy is dominated by the space test."""
    ow = octets_writers(F)
    allowed = {W + s for s in HEADER_SETTERS} | {W + 'new', W + 'try_from_template_impl', W + 'write'}
    for gp in sorted(ow):
        fn = F.fns[gp]
        R.require(gp in allowed, 'octets-writers', gp, fn.where(ow[gp][0]), 'allowed buffer writer',
                  '%s writes into the message buffer but is not one of the bounded writers (header setters, write_u16, constructors, try_push)' % gp)
    R.floor('octets-writers', 10)
    # the raw writer `write` is called only by try_push (under the space test) and write_u16
    wcallers = sorted({fn.gpath for fn in F.fns.values() for b, t in calls_in(fn, W + 'write')})
    R.require(wcallers == sorted([W + 'try_push', W + 'write_u16']), 'octets-writers', W + 'write|callers', F.fn(W + 'write').where(),
              'raw write is called only by try_push and write_u16', 'the unchecked raw writer is called by %s, expected only try_push and write_u16' % wcallers)
    tp = F.fn(W + 'try_push')
    from qv.bounds import Analyzer, add, le, lin
    from rules import e5
    an = Analyzer(tp, F, e5.make_summary(F))
    for b, t in calls_in(tp, W + 'write'):
        # decided by the linear engine: whatever way the test is spelled, cursor + len(data) <= available at the write
        an._site = (b, None)
        L = e5._len_of_arg(an, t['args'][2])
        ok = False
        if L is not None:
            ok, _, _ = an.prove(b, None, [le(add(lin('P:(*_1).cursor'), L), lin('P:(*_1).available'))])
        pos = paths.show_operand(tp, t['args'][1])
        R.require(ok and pos == 'arg1.cursor', 'try-push-guard', W + 'try_push|write', tp.where(b),
                  'write(cursor, data) is dominated by available - cursor >= len(data)', 'the buffer write in try_push is not dominated by the available - cursor >= len(data) test, or does not write at the cursor (%s)' % pos)
    # cursor advances by exactly len(data) after the write
    dwp = effects.direct_writes(tp)
    for b, k in dwp.get((WRITER_TY, 'cursor'), []):
        st = [s2 for s2 in tp.blocks[b]['stmts'] if s2['k'] == 'assign' and s2['lhs']['p'] and s2['lhs']['p'][-1].get('n') == 'cursor']
        txt = paths.show_operand(tp, st[0]['rv']['op']) if st else '?'
        R.require(txt == 'Add(arg1.cursor,slice::len(arg2))', 'try-push-guard', W + 'try_push|advance', tp.where(b), 'cursor += len(data)', 'try_push advances the cursor by %s' % txt)
    R.floor('try-push-guard', 2)
    # write_u16 callers: constant header offsets or the RDLENGTH slot reserved in add_rr
    for fn, b, t in [(fn, b, t) for fn in F.fns.values() if fn.gpath.startswith('message::writer::') for b, t in calls_in(fn, W + 'write_u16')]:
        a = t['args'][1]
        if a['k'] == 'const':
            v = int(re.match(r'(\d+)', const_name(a)).group(1))
            R.require(v + 2 <= 12, 'write-u16-offset', '%s|const-%d' % (fn.gpath, v), fn.where(b), 'header offset %d' % v, 'write_u16 at constant offset %d is outside the header' % v)
        else:
            # must be the saved cursor taken after the `available - cursor >= 2` test
            txt = paths.show_operand(fn, a)
            g = paths.dom_guards(fn, b)
            ok = any(re.search(r'Lt\(Sub\(.*available.*cursor.*\),2_usize\) in \[0\]', x) for x in g) and 'cursor' in txt
            R.require(ok, 'write-u16-offset', '%s|%s' % (fn.gpath, 'rdlength-slot'), fn.where(b), 'RDLENGTH slot reserved under available - cursor >= 2',
                      'write_u16 at a variable offset (%s) that is not the RDLENGTH slot reserved under the available - cursor >= 2 test' % txt)
    R.floor('write-u16-offset', 5)

def check_clear_rrs(R, F):
    """clear_rrs resets exactly the fields the add_* operations may have changed (shared by C02 and C12)."""
    cr = F.fn(W + 'clear_rrs')
    dw = effects.direct_writes(cr)
    written = {f for (c, f), sites in dw.items() if c == WRITER_TY and any(k in ('assign', 'calldest') for b, k in sites)}
    want = {'ancount', 'nscount', 'arcount', 'cursor', 'section', 'most_recent_owner', 'most_recent_name_in_rdata'}
    R.require(written == want, 'clear-rrs', W + 'clear_rrs|fields', cr.where(), 'resets %s' % sorted(written),
              'clear_rrs writes %s, expected exactly %s (missing %s, extra %s)' % (sorted(written), sorted(want), sorted(want - written), sorted(written - want)))
    # must reset everything add_* may write except octets / counters handled above
    add_roots = [c.gpath for p, c in rollback_closures(F) if p.gpath != W + 'add_question']
    addw = set(effects.transitive_writes(F, add_roots, WRITER_TY))
    R.require(addw - {'qname'} <= want, 'clear-rrs', W + 'clear_rrs|covers-add-effects', cr.where(), 'add_* may write %s, all reset' % sorted(addw),
              'add_* operations may write %s which clear_rrs does not reset' % sorted(addw - want))
    # cursor := rr_start
    for b, blk in enumerate(cr.blocks):
        for st in blk['stmts']:
            if st['k'] == 'assign' and st['lhs']['p'] and st['lhs']['p'][-1].get('n') == 'cursor':
                txt = paths.show_operand(cr, st['rv']['op'])
                R.require(txt == 'arg1.rr_start', 'clear-rrs', W + 'clear_rrs|cursor', cr.where(b), 'cursor = rr_start', 'clear_rrs sets cursor to %s, expected rr_start' % txt)
    # arcount recomputed from reservations
    from qv.flow import Slicer
    sl = Slicer(cr, control=True).slice_place({'l': 1, 'p': ['deref', {'f': 9, 'n': 'arcount', 'ty': 'u16'}], 'ty': 'u16'})
    srcs = {fp[0] for fp in sl.field_paths() if fp}
    R.require({'edns', 'tsig'} <= srcs, 'clear-rrs', W + 'clear_rrs|arcount-keeps-reservations', cr.where(),
              'ARCOUNT recounts the reserved OPT and TSIG records', 'clear_rrs no longer recounts the reserved OPT/TSIG records in ARCOUNT')
    R.floor('clear-rrs', 4)


def check_anchor_freshness(R, F, rule='anchor-fresh'):
    """A compression anchor always describes the name written last in its role: whenever add_rr wrote an owner
    (write_hinted_name succeeded) it stores the result -- Some or None -- in most_recent_owner before anything else
    happens, and likewise for names in RDATA.  Keeping an older anchor would let Hint::MostRecentOwner (2nd..nth record
    of an RRset) point at a different owner."""
    ar = F.fn(W + 'add_rr')
    eb = err_blocks(ar)
    rets = ar.ret_blocks()
    n = 0
    for callee, field in (('write_hinted_name', 'most_recent_owner'), ('write_unhinted_name', 'most_recent_name_in_rdata'), ('write_uncompressed_name', 'most_recent_name_in_rdata')):
        for cb, ct in calls_in(ar, W + callee):
            n += 1
            assigns = set()
            mixed = []
            for b, blk in enumerate(ar.blocks):
                if blk['cleanup']:
                    continue
                for st in blk['stmts']:
                    if st['k'] == 'assign' and st['lhs']['p'] and isinstance(st['lhs']['p'][-1], dict) and st['lhs']['p'][-1].get('n') == field and st['rv']['k'] == 'use':
                        sl = slice_of(ar, st['rv']['op'], through_calls=True)
                        if ('call', cb) in sl.nodes:
                            # ... and it is that result itself, not a combination with the previous anchor (`new.or(old)`)
                            o_ = st['rv']['op']
                            lv = origins.trace(ar, o_['pl']['l'], origins.norm_path(o_['pl']['p']), at=(b, 0)) if is_place(o_) else []
                            if lv and all(lf[0] == 'call' and lf[1] == cb for lf in lv):
                                assigns.add(b)
                            else:
                                mixed.append(ar.where(b))
                t = blk['term']
                if t['k'] == 'call' and b == cb and t['dest']['p'] and isinstance(t['dest']['p'][-1], dict) and t['dest']['p'][-1].get('n') == field:
                    assigns.add(b)
            # before the next push / return, on every non-error path
            def stop(b, assigns=assigns):
                return b in assigns or b in eb
            nxt = [b for b, t in ar.calls() if b != cb and callee_name(t).startswith(W) and ('push' in callee_name(t) or 'write_' in callee_name(t))]
            p = None
            if ct['t'] is not None and cb not in assigns:
                p = paths.must_pass(ar, ct['t'], set(rets) | set(nxt), stop)
            R.require(bool(assigns) and p is None and not mixed, rule, '%s|%s<-%s#%d' % (ar.gpath, field, callee, n), ar.where(cb),
                      '%s is replaced by the result of %s on every successful path, before the next write' % (field, callee),
                      '%s is not updated from the result of %s on every successful path (%s): a stale anchor of an earlier, different name survives' % (field, callee, paths.fmt_path(ar, p) if p else ('the value stored at %s is not the result alone' % mixed if mixed else 'no assignment found')))
    R.floor(rule, 3)


def check_truncation_exact(R, F, rule='truncation-exact'):
    """Error::Truncation is produced only by tests of the space that is actually about to be consumed: the guard compares
    `available - cursor` with an amount N (or cursor + N with available) and the success path of the same function
    consumes exactly N (cursor += N or available -= N).  A test of an *estimate* (for instance uncompressed lengths)
    would truncate responses that fit."""
    from rules import e5
    n = 0
    for gp, fn in sorted(F.fns.items()):
        if not gp.startswith('message::writer::') or '::tests::' in gp or 'template' in gp or fn.crate != 'quandary':
            continue
        for b, blk in enumerate(fn.blocks):
            if blk['cleanup']:
                continue
            for st in blk['stmts']:
                if not (st['k'] == 'assign' and st['rv']['k'] == 'agg' and st['rv']['def'].endswith('writer::Error::Truncation')):
                    continue
                n += 1
                g = paths.direct_guards(fn, b)
                key = '%s|%d' % (gp, n)
                if gp == W + 'new':
                    ok = any(re.match(r'^Lt\(Ord::min\(arg2,slice::len\(arg1\)\),12_usize\) not in \[0\]$', x) for x in g)
                    R.require(ok, rule, gp + '|header-does-not-fit', fn.where(b), 'Writer::new refuses buffers/limits below 12 octets', 'Writer::new reports Truncation under %s' % g)
                    continue
                amount = None
                for x in g:
                    m = re.match(r'^Lt\(Sub\(arg1\.available,arg1\.cursor\),(.+)\) not in \[0\]$', x) or re.match(r'^Ge\(Sub\(arg1\.available,arg1\.cursor\),(.+)\) in \[0\]$', x) or re.match(r'^Gt\(Add\(arg1\.cursor,(.+)\),arg1\.available\) not in \[0\]$', x)
                    if m:
                        amount = m.group(1)
                consumed = []
                for f in ('cursor', 'available'):
                    for f_, bb, i, s2 in e5.field_stores(F, WRITER_TY, f, scope=lambda gfn: gfn.gpath == gp):
                        txt = paths.show_operand(fn, s2['rv']['op'])
                        m = re.match(r'^(Add\(arg1\.cursor|Sub\(arg1\.available),(.+)\)$', txt)
                        if m:
                            consumed.append(m.group(2))
                ok = amount is not None and amount in consumed
                R.require(ok, rule, '%s|tests-what-it-consumes' % gp, fn.where(b), 'Truncation iff fewer than %s octets remain, and exactly that many are then consumed' % amount,
                          'Truncation is reported under %s, but the success path of %s consumes %s: the test is not about the space actually needed, so responses that fit can be truncated' % (g, gp.split('::')[-1], consumed or 'nothing'))
    R.floor(rule, 5)
