"""C01 — no request makes the server panic (static clauses; staged by module)."""
import re

from qv.facts import callee_name, const_int, const_name, is_place
from qv import paths, effects, panics, origins
from qv.bounds import Analyzer, lin, add, le, lt, fmt
from qv.rulelib import HANDLE_MESSAGE, HMWC, HANDLE_QUERY, HANDLE_NON_AXFR, W
from rules import e5, namewire, c14, c15, c18, c05, c02, writer_inv

MODE = 'lib'
TECHNIQUE = 'static analysis: census of panic-capable MIR sites reachable from Server::handle_message (resolved call graph, trait fan-out), each discharged by dominating-guard linear entailment, verified summaries/invariants, or a justified exception with machine-checked premises'
EXPLANATION = """
Decides, for every function reachable from Server::handle_message (resolved call graph with trait fan-out over both
catalog implementations) that lies in the request-parsing and dispatch modules -- name::wire and the Name wire wrappers,
message::reader, message::writer (except the compression scan write_compressed_unhinted_name and templates), rr::rdata
(read / validate paths), server (mod.rs, query.rs) and the small code modules (class, type,
opcode, rcode, question) -- that EVERY panic-capable MIR site (bounds-checked index, range index, overflow-checked
arithmetic, unwrap / expect, explicit panic, panicking std / arrayvec calls) is excluded for ANY received octet string:
by linear entailment from dominating guards (E5), by a verified callee summary or struct invariant (C14 / C15 / C18
rules, re-run here), or by a justified exception whose premises are machine-checked (documented buffer-size contract of
handle_message; Writer::new on a contract-sized buffer; set_extended_rcode after a successful set_edns; ARCOUNT-1 inside
the ARCOUNT loop; the NotTsig arm after a TYPE == TSIG test; question.unwrap() below the Some-arm of handle_query; the
WrongZone arms under `unchecked: true` for the QNAME the catalog matched; unit-step usize counters).
STAGING (DESIGN §3/E5): the writer's compression scan, message::tsig, db::*, server::rrl and the unsafe Name plumbing are NOT part of
the claim; their sites are counted and reported in the evidence (census only).
Not decided: allocation failure, stack overflow, panics inside hmac/sha/arrayvec beyond the listed APIs, third-party
Catalog/Zone implementations, and the modules excluded above.
"""
ASSUMPTIONS = ['response_buf satisfies the documented size contract of handle_message (checked for the bundled I/O providers by C30)',
               'the system clock is between 1970 and 2^48 s (TimeSigned conversion)', 'every CFG path is assumed feasible', 'lock poisoning requires a prior panic']
LEVEL_NOTE = ('Claimed modules: name::wire, Name wire wrappers, message::reader, message::writer (without write_compressed_unhinted_name and templates; under the verified Writer invariant), rr::rdata read/validate, server::{mod,query}, class/type/opcode/rcode/question. '
              'EXCLUDED from the claim (census only, see evidence.coverage.census_only): Writer::write_compressed_unhinted_name, message::tsig, db::*, server::rrl, unsafe Name internals, lazy_static initialisers. '
              'Trusted: rustc MIR construction/Instance resolution, the mirfacts exporter, the qv engines.')

CLAIMED_PREFIXES = ('message::writer::', '<message::writer::', 'name::wire::', 'message::reader::', '<message::reader::', 'rr::rdata::', '<rr::rdata::', "<&'a rr::rdata::", 'server::', '<server::',
                    'class::', '<class::', 'rr::rr_type::', '<rr::rr_type::', 'message::opcode::', '<message::opcode::', 'message::rcode::', '<message::rcode::',
                    'message::question::', '<message::question::', 'rr::ttl::', '<rr::ttl::')
EXCLUDED_PREFIXES = (W + 'write_compressed_unhinted_name', W + 'try_from_template', W + 'into_template', 'message::writer::Template', 'server::rrl::', '<server::rrl::', 'rr::rdata::tsig::TimeSigned', '<rr::rdata::tsig::', 'rr::rdata::tsig::<impl rr::rdata::Rdata>::new_tsig', 'rr::rdata::tsig::serialize', 'rr::rdata::tsig::required_len')
NAME_WRAPPERS = tuple(c14.PUBS)


def claimed(gp):
    if gp in c18.TRUSTED:
        return False
    if gp in NAME_WRAPPERS:
        return True
    if gp.startswith(EXCLUDED_PREFIXES):
        return False
    return gp.startswith(CLAIMED_PREFIXES)


# ------------------------------------------------------------------ premises
def _guard(fn, b, rx, direct=False):
    gs = paths.direct_guards(fn, b) if direct else paths.dom_guards(fn, b)
    return any(re.search(rx, g) for g in gs)


def _contract_test(F, fn, b, taken, direct=False):
    """Block b is controlled (direct) / dominated by the `taken` edge of `response_buf.len() < minimum`, where the minimum
    is, by provenance, u16::MAX under TCP and the configured EDNS payload size under UDP (a variable assigned on the two
    arms of the transport match, one component of a tuple built per arm, ...)."""
    from qv.rulelib import enum_variants
    edges = sorted(fn.control_deps().get(b, ())) if direct else []
    if not direct:
        for s_ in fn.doms(b):
            ps = [p for p in fn.preds()[s_] if p in fn.idom() and not fn.dominates(s_, p)]
            if len(ps) == 1:
                edges.append((ps[0], s_))
    tv = enum_variants(F, 'server::Transport')
    for (p, s_) in edges:
        t = fn.blocks[p]['term']
        if t['k'] != 'switch' or not is_place(t['op']) or t['op']['pl']['p']:
            continue
        sd = fn.single_def(t['op']['pl']['l'])
        if not sd or sd[2] != 'assign' or sd[3]['rv']['k'] != 'bin' or sd[3]['rv']['op'] not in ('Lt', 'Gt', 'Ge', 'Le'):
            continue
        is_true = (t['otherwise'] == s_ and not [v for v, tb in t['targets'] if tb == s_])
        # normalise to `len < minimum`:  len < m | m > len  (as written)   len >= m | m <= len  (negated)
        op_, a_, b_ = sd[3]['rv']['op'], sd[3]['rv']['a'], sd[3]['rv']['b']
        if op_ in ('Gt', 'Le'):
            a_, b_ = b_, a_
        too_small = is_true if op_ in ('Lt', 'Gt') else (not is_true)
        if too_small != taken:
            continue
        if paths.show_operand(fn, a_) != 'slice::len(arg4)' or not is_place(b_):
            continue
        c = fn.canon(b_['pl'])
        vals = {}
        for lf in origins.trace(fn, c['l'], origins.norm_path(c['p']), at=(sd[0], sd[1])):
            if lf[0] == 'const':
                v, bb = paths.show_operand(fn, lf[1]), lf[2]
            elif lf[0] == 'rv' and lf[3].get('k') in ('use', 'cast'):
                v, bb = paths.show_operand(fn, lf[3]['op']), lf[1]
            else:
                vals['?'] = lf[0]
                continue
            g = [x for x in paths.dom_guards(fn, bb) if re.match(r'^discr\(arg3\.transport\) in \[\d\]$', x)]
            vals[tv[int(re.search(r'\[(\d)\]', g[-1]).group(1))] if g else '?'] = v
        if set(vals) == {'Tcp', 'Udp'} and vals['Tcp'] in ('u16::MAX', 'cast(u16::MAX)', '65535_usize') and vals['Udp'] in ('arg1.edns_udp_payload_size', 'cast(arg1.edns_udp_payload_size)'):
            return True
    return False


def contract_panic(F, fn, b):
    ok = _contract_test(F, fn, b, True, direct=True)
    return ok, 'the only explicit panic of handle_message is the documented response-buffer size contract'


def writer_new_premise(F, fn, b):
    ok = _contract_test(F, fn, b, False)
    # the minimum sizes are 65535 (TCP) and edns_udp_payload_size (UDP), the latter >= 512 by construction
    sw = [paths.show_operand(fn, st['rv']['op']) for blk in fn.blocks for st in blk['stmts'] if st['k'] == 'assign' and st['rv']['k'] == 'use' and 'edns_udp_payload_size' in paths.show_operand(fn, st['rv']['op'])]
    wr = effects.writers_of(F, 'server::Server', 'edns_udp_payload_size', kinds=('assign', 'calldest', 'mutborrow')).get('edns_udp_payload_size', {})
    wr = {g: v for g, v in wr.items() if '::tests::' not in g}
    setter_ok = False
    if set(wr) == {'server::Server::<C>::set_edns_udp_payload_size'}:
        s = F.fn('server::Server::<C>::set_edns_udp_payload_size')
        setter_ok = all(_guard(s, bb, r'^Ge\(arg2,512_u16\) not in \[0\]$') for bb in wr[s.gpath])
    lit = [st for f, bb, i, st in e5.struct_literals(F, 'server::Server')]
    lit_ok = bool(lit) and all(const_int(dict(zip(st['rv']['fields'], st['rv']['ops']))['edns_udp_payload_size']) >= 512 for st in lit)
    wn = F.fn(W + 'new')
    errs = [bb for bb, blk in enumerate(wn.blocks) if not blk['cleanup'] for st in blk['stmts'] if st['k'] == 'assign' and st['rv']['k'] == 'agg' and st['rv']['def'].endswith('Result::Err')]
    only_small = len(errs) == 1 and _guard(wn, errs[0], r'^Lt\(Ord::min\(arg2,slice::len\(arg1\)\),12_usize\) not in \[0\]$', direct=True)
    return ok and setter_ok and lit_ok and only_small, 'buffer >= contract size: %s; edns_udp_payload_size >= 512 (literal %s, setter guarded %s); Writer::new fails only below 12 octets: %s' % (ok, lit_ok, setter_ok, only_small)


def clamp_premise(F, fn, b):
    t = fn.blocks[b]['term']
    lo = const_int(t['args'][1])
    hi = paths.show_operand(fn, t['args'][2])
    ok2, det = writer_new_premise(F, F.fn(HANDLE_MESSAGE), 0)
    return lo == 512 and hi == 'arg1.edns_udp_payload_size' and ('literal True, setter guarded True' in det), 'clamp(512, edns_udp_payload_size) with edns_udp_payload_size >= 512 by construction'


def ext_rcode_premise(F, fn, b):
    ok = _guard(fn, b, r'^Result::is_err\(Writer::set_edns\(arg2\.response,.*\)\) in \[0\]$')
    se = F.fn(W + 'set_extended_rcode')
    errs = [bb for bb, blk in enumerate(se.blocks) if not blk['cleanup'] for st in blk['stmts'] if st['k'] == 'assign' and st['rv']['k'] == 'agg' and st['rv']['def'].endswith('Result::Err')]
    only_no_edns = bool(errs) and all(any('edns' in g for g in paths.dom_guards(se, bb)) for bb in errs)
    return ok and only_no_edns, 'set_extended_rcode can only fail without EDNS; the call is dominated by a successful set_edns'


def arcount_minus_one(F, fn, b):
    ok = _guard(fn, b, r'^discr\(range::next\(I::into_iter\(ops::Range\{0_usize,cast\(Reader::arcount\(_\)\)\}\)\)\) in \[1\]$')
    t = fn.blocks[b]['term']
    a = paths.show_operand(fn, t['ops'][0])
    return ok and 'Reader::arcount' in a, 'ARCOUNT - 1 is computed inside `for index in 0..arcount`, so ARCOUNT >= 1'


def not_tsig_premise(F, fn, b):
    ok = _guard(fn, b, r'^Type::eq\(PeekRr::rr_type\(.*\),Type\(250_u16\)\) not in \[0\]$')
    tf = F.fn("<message::tsig::ReadTsigRr<'a> as std::convert::TryFrom<message::reader::ReadRr<'a>>>::try_from")
    nt = [bb for bb, blk in enumerate(tf.blocks) if not blk['cleanup'] for st in blk['stmts'] if st['k'] == 'assign' and st['rv']['k'] == 'agg' and st['rv']['def'].endswith('FromReadRrError::NotTsig')]
    under = len(nt) == 1 and any(re.search(r'(ne|eq)\(arg1\.rr_type,Type\(250_u16\)\)', g) for g in paths.direct_guards(tf, nt[0]))
    # PeekRr::parse reports the type it peeked
    pp = F.fn("message::reader::PeekRr::<'r, 'b>::parse")
    lit = [st for blk in pp.blocks for st in blk['stmts'] if st['k'] == 'assign' and st['rv']['k'] == 'agg' and st['rv']['def'] == 'message::reader::ReadRr']
    same = len(lit) == 1 and 'PeekRr::rr_type(' in paths.show_operand(pp, dict(zip(lit[0]['rv']['fields'], lit[0]['rv']['ops']))['rr_type'])
    return ok and under and same, 'NotTsig is returned only for rr_type != TSIG; the arm is entered after rr_type == TSIG and parse() keeps the peeked type'


def clock_premise(F, fn, b):
    t = fn.blocks[b]['term']
    txt = paths.show_operand(fn, t['args'][0])
    return txt.startswith('T::try_into(SystemTime::now())'), 'environment assumption: the system clock is representable in the 48-bit TSIG time field'


def question_some(F, fn, b):
    """question.unwrap(): every call chain from handle_query reaches this function below the Some arm."""
    if 'question' not in paths.show_operand(fn, fn.blocks[b]['term']['args'][0]):
        return False, 'not an unwrap of the question'
    hq = F.fn(HANDLE_QUERY)
    calls = [(bb, t) for bb, t in hq.calls() if callee_name(t) == HANDLE_NON_AXFR]
    ok = len(calls) == 1 and _guard(hq, calls[0][0], r'^discr\(arg2\.question\) in \[1\]$|^discr\(arg2\.question\) not in \[0\]$')
    # nobody else calls handle_non_axfr_query / answer / answer_any, and nothing in between clears the question
    def callers(name):
        return sorted({g.gpath for g in F.fns.values() if g.crate == 'quandary' and '::tests::' not in g.gpath for bb, t in g.calls() if callee_name(t) == name})
    chain = callers(HANDLE_NON_AXFR) == [HANDLE_QUERY] and callers('server::query::answer') == [HANDLE_NON_AXFR] and callers('server::query::answer_any') == [HANDLE_NON_AXFR]
    wr = effects.writers_of(F, 'server::Context', 'question').get('question', {})
    wr = sorted(g for g in wr if '::tests::' not in g)
    return ok and chain and wr == [HMWC], 'handle_non_axfr_query is called only under question == Some(..); question is written only by handle_message_with_context (%s)' % wr


def wrong_zone_premise(F, fn, b):
    class Rr:
        def __init__(s): s.bad = []
        def require(s, ok, rule, key, where='', a='', b_='', **k):
            if not ok: s.bad.append(key)
            return ok
        def floor(s, *a, **k): pass
    if not any(re.match(r'^discr\(Zone::lookup(_all)?\(', g) for g in paths.direct_guards(fn, b)):
        return False, 'not an arm of the zone lookup result'
    r = Rr()
    c05.check_lookup_options(r, F)
    lb = F.fn('db::hash_map_tree::zone::HashMapTreeZone::lookup_base')
    wz = [bb for bb, blk in enumerate(lb.blocks) if not blk['cleanup'] for st in blk['stmts'] if st['k'] == 'assign' and st['rv']['k'] == 'agg' and st['rv']['def'].endswith('LookupBaseResult::WrongZone')]
    under = bool(wz) and all(any(re.search(r'arg3\.unchecked\) in \[0\]|arg3\.unchecked in \[0\]|Not\(arg3\.unchecked\) not in \[0\]', g) for g in paths.dom_guards(lb, bb)) for bb in wz)
    return not r.bad and under, 'the lookup is unchecked only for the QNAME matched by the catalog (C05 lookup-options rule) and HashMapTreeZone returns WrongZone only when !unchecked (third-party Zone impls are outside the claim)'


def unit_counter(F, fn, b):
    t = fn.blocks[b]['term']
    one = const_int(t['ops'][1]) == 1
    o = t['ops'][0]
    ok = False
    if is_place(o) and one and '{closure' in fn.gpath and any(q == 'deref' for q in fn.canon(o['pl'])['p']):
        # `*counter += 1` inside a closure (a loop body turned into try_for_each): the captured variable is a local of the
        # parent that starts at 0 and is touched by nothing else
        c = fn.canon(o['pl'])
        fld = [q for q in c['p'] if isinstance(q, dict) and 'f' in q]
        parent = F.fns.get(fn.gpath.split('::{closure')[0])
        if c['l'] == 1 and fld and parent is not None:
            idx = fld[0]['f']
            built = [st for blk in parent.blocks for st in blk['stmts'] if st['k'] == 'assign' and st['rv']['k'] == 'agg' and st['rv'].get('ak') == 'closure' and st['rv']['def'] == fn.gpath]
            if len(built) == 1 and idx < len(built[0]['rv']['ops']) and is_place(built[0]['rv']['ops'][idx]):
                cap = parent.canon({'l': built[0]['rv']['ops'][idx]['pl']['l'], 'p': ['deref'], 'ty': ''})
                ds = [d for d in parent.defs().get(cap['l'], []) if not parent.blocks[d[0]]['cleanup']]
                init0 = len(ds) == 1 and ds[0][2] == 'assign' and ds[0][3]['rv']['k'] == 'use' and ds[0][3]['rv']['op']['k'] == 'const' and const_int(ds[0][3]['rv']['op']) == 0
                stores = [st for blk in fn.blocks if not blk['cleanup'] for st in blk['stmts'] if st['k'] == 'assign' and st['lhs']['p'] and fn.canon(st['lhs'])['l'] == 1 and [q for q in fn.canon(st['lhs'])['p'] if isinstance(q, dict) and 'f' in q][:1] == fld[:1]]
                ok = init0 and not cap['p'] and len(stores) == 1 and parent.local_ty(cap['l']) in ('usize', 'i32')
        return ok, 'a counter of the enclosing function that starts at 0 and is incremented by 1 per element of an in-memory collection, through a closure'
    if is_place(o) and one and '{closure' in fn.gpath and not fn.canon(o['pl'])['p'] and 2 <= fn.canon(o['pl'])['l'] <= fn.argc:
        # `acc + 1` on the accumulator parameter of a closure handed to fold / try_fold with initial value 0: the
        # accumulator is at most the number of elements folded so far
        acc = fn.canon(o['pl'])['l']
        parent = F.fns.get(fn.gpath.split('::{closure')[0])
        okp = False
        if parent is not None and fn.local_ty(acc) in ('usize', 'i32'):
            for pb, pt in parent.calls():
                n = callee_name(pt)
                if not (n.endswith('Iterator::try_fold') or n.endswith('Iterator::fold')) or len(pt['args']) < 3:
                    continue
                init, f = pt['args'][1], pt['args'][2]
                is0 = init['k'] == 'const' and const_int(init) == 0
                isme = is_place(f) and any(lf[0] == 'rv' and lf[3].get('k') == 'agg' and lf[3].get('def') == fn.gpath for lf in origins.trace(parent, f['pl']['l'], []))
                okp = okp or (is0 and isme)
        # every accumulator value the closure hands back is acc or acc + 1
        steps = True
        for path in ([('down', 'Ok'), ('f', 0)], []):
            lv = origins.trace(fn, 0, path)
            if not lv or any(lf[0] == 'unknown' for lf in lv):
                continue
            for lf in lv:
                if lf[0] == 'param' and lf[1] == acc:
                    continue
                if lf[0] == 'rv' and lf[3].get('k') == 'bin' and lf[3]['op'].startswith('Add') and is_place(lf[3]['a']) and fn.canon(lf[3]['a']['pl'])['l'] == acc and const_int(lf[3]['b']) == 1:
                    continue
                if lf[0] == 'rv' and lf[3].get('k') == 'use' and is_place(lf[3]['op']) and fn.canon(lf[3]['op']['pl'])['l'] == acc:
                    continue
                steps = False
            break
        else:
            steps = False
        return okp and steps, 'the accumulator of a fold / try_fold that starts at 0 and grows by at most 1 per element of an in-memory collection'
    if is_place(o) and one:
        l = fn.canon(o['pl'])['l']
        an = Analyzer(fn, F, e5.make_summary(F))
        # all definitions: constant 0 and +1 steps
        ds = [d for d in fn.defs().get(l, []) if not fn.blocks[d[0]]['cleanup']]
        def shape(d):
            rv = d[3].get('rv') if d[2] == 'assign' else None
            if rv is None:
                return False
            txt = paths.show_operand(fn, rv['op']) if rv['k'] == 'use' else ''
            return txt in ('0_usize', '0_i32') or re.match(r'^Add\(var:(usize|i32),1_(usize|i32)\)$', txt) is not None
        ok = fn.local_ty(l) in ('usize', 'i32') and len(ds) >= 2 and all(shape(d) for d in ds)
    return ok, 'a counter that starts at 0 and grows by 1 per element of an in-memory collection (here: the RRsets of one owner, at most one per 16-bit type) cannot overflow'


EXCEPTIONS = {
    (HANDLE_MESSAGE, 'panic', 1): ('documented contract: panics if response_buf is smaller than the transport requires', contract_panic),
    (HANDLE_MESSAGE, 'unwrap', 1): ('Writer::new cannot fail on a contract-sized buffer', writer_new_premise),
    (HMWC, 'foreign', 1): ('clamp bounds are ordered', clamp_premise),
    (HMWC, 'unwrap', 1): ('EDNS was just enabled on the response', ext_rcode_premise),
    (HMWC, 'overflow-sub', 1): ('inside the ARCOUNT loop', arcount_minus_one),
    (HMWC, 'panic', 1): ('the record was just tested to be of type TSIG', not_tsig_premise),
    (HMWC, 'unwrap', 2): ('system clock representable as TSIG time', clock_premise),
    (HANDLE_NON_AXFR, 'unwrap', 1): ('question is Some on this path', question_some),
    ('server::query::answer', 'unwrap', 1): ('question is Some on this path', question_some),
    ('server::query::answer_any', 'unwrap', 1): ('question is Some on this path', question_some),
    ('server::query::answer', 'panic', 1): ('WrongZone cannot come back from an unchecked lookup of the matched QNAME', wrong_zone_premise),
    ('server::query::answer_any', 'panic', 1): ('WrongZone cannot come back from an unchecked lookup of the matched QNAME', wrong_zone_premise),
    ('server::query::answer_any', 'overflow-add', 1): ('unit-step counter', unit_counter),
}


class _Collect:
    def __init__(self): self.bad = []
    def require(self, ok, rule, key, where='', a='', b_='', **k):
        if not ok: self.bad.append(key)
        return ok
    def floor(self, *a, **k): pass
    def ok(self, *a, **k): return True
    def bad_(self, *a, **k): pass
    def note(self, *a, **k): pass


def reservation_premise(F, fn, b):
    """The OPT / TSIG appends of finish_with_mac cannot fail and `available + reservation` cannot overflow: exactly the
    reserved amounts are given back right before the appends (C02 reservation rules, re-run here), and reservations were
    made under `cursor + amount <= available` (Writer invariant rule)."""
    t_ = fn.blocks[b]['term']
    if t_['k'] == 'call' and 'Writer::add_rr(' not in paths.show_operand(fn, t_['args'][0]):
        return False, 'not the result of an add_rr call'
    r = _Collect()
    c02.reservation_rules(r, F)
    ok2, det = writer_inv.reservation_premise(F, fn, b)
    return not r.bad and ok2, 'C02 reservation rules hold: %s; %s' % (not r.bad, det[:160])


def cursor_after_slot(F, fn, b):
    """add_rr: `self.cursor - rdlength_start - 2`.  rdlength_start is the cursor read just before `cursor += 2`; every
    store to cursor that can execute afterwards inside add_rr (directly or in callees) adds a non-negative amount."""
    t0 = fn.blocks[b]['term']
    if 'cursor' not in paths.show_operand(fn, t0['ops'][0]):
        return False, 'minuend does not derive from the cursor'
    st = [(bb, i, s_) for f_, bb, i, s_ in e5.field_stores(F, writer_inv.WTY, 'cursor', scope=lambda g: g.gpath == fn.gpath)]
    slot = [(bb, i, s_) for bb, i, s_ in st if paths.show_operand(fn, s_['rv']['op']) == 'Add(arg1.cursor,2_usize)']
    t = fn.blocks[b]['term']
    sub = paths.show_operand(fn, t['ops'][1])
    reach = F.reachable_fns([fn.gpath])
    adds = True
    who = []
    for g in reach:
        gf = F.fns[g]
        if gf.crate != 'quandary':
            continue
        for f_, bb, i, s_ in e5.field_stores(F, writer_inv.WTY, 'cursor', scope=lambda x, g=g: x.gpath == g):
            txt = paths.show_operand(gf, s_['rv']['op'])
            who.append(g.split('::')[-1])
            if not re.match(r'^Add\(arg1\.cursor,', txt):
                adds = False
    ok = len(slot) == 1 and fn.dominates(slot[0][0], b) and adds
    return ok, 'slot reserved by cursor += 2 dominates the subtraction; cursor stores reachable from add_rr (%s) only add' % sorted(set(who))


def arcount_small(F, fn, b):
    st = [(bb, i, s_) for f_, bb, i, s_ in e5.field_stores(F, writer_inv.WTY, 'arcount', scope=lambda g: g.gpath == fn.gpath)]
    txt = sorted(paths.show_operand(fn, s_['rv']['op']) for bb, i, s_ in st)
    ok = txt == ['0_u16', 'Add(arg1.arcount,1_u16)', 'Add(arg1.arcount,1_u16)'] and not any(bb in fn.reachable(fn.succs()[bb]) for bb, i, s_ in st)
    return ok, 'ARCOUNT is reset to 0 and then incremented at most twice, outside any loop'


def tsig_len_bounded(F, fn, b):
    from qv import origins
    t = fn.blocks[b]['term']
    o = t['ops'][0] if not (is_place(t['ops'][0]) and 'cursor' in paths.show_operand(fn, t['ops'][0])) else t['ops'][1]
    other = t['ops'][1] if o is t['ops'][0] else t['ops'][0]
    lv = origins.trace(fn, o['pl']['l'], origins.norm_path(o['pl']['p']), at=(b, None)) if is_place(o) else []
    names = sorted({callee_name(lf[2]) for lf in lv if lf[0] == 'call'})
    ok = bool(lv) and all(lf[0] == 'call' for lf in lv) and set(names) <= {'message::tsig::PreparedTsigRr::signed_len', 'message::tsig::PreparedTsigRr::unsigned_len'}
    return ok and 'cursor' in paths.show_operand(fn, other), 'cursor (<= len(octets) <= isize::MAX) + a TSIG length from %s (<= 606)' % [n.split('::')[-1] for n in names]


EXCEPTIONS.update({
    (W + 'add_rr', 'overflow-sub', 2): ('cursor only grows after the RDLENGTH slot was reserved', cursor_after_slot),
    (W + 'add_rr', 'overflow-sub', 3): ('cursor only grows after the RDLENGTH slot was reserved', cursor_after_slot),
    (W + 'add_rrset', 'overflow-add', 1): ('unit-step counter', unit_counter),
    (W + 'clear_rrs', 'overflow-add', 2): ('ARCOUNT is 0 or 1 here', arcount_small),
    (W + 'finish_with_mac', 'unwrap', 1): ('the OPT record fits in the space reserved for it', reservation_premise),
    (W + 'finish_with_mac', 'unwrap', 2): ('the TSIG record fits in the space reserved for it', reservation_premise),
    (W + 'finish_with_mac', 'overflow-add', 2): ('available + reserved_len <= limit', reservation_premise),
    (W + 'set_tsig', 'overflow-add', 1): ('bounded TSIG length', tsig_len_bounded),
    (W + 'opcode', 'unwrap', 1): ('header nibble < 16 always converts', c15.masked_nibble_premise),
    (W + 'rcode', 'unwrap', 1): ('header nibble < 16 always converts', c15.masked_nibble_premise),
})
EXCEPTIONS.update(c14.EXCEPTIONS)
EXCEPTIONS.update(c15.EXCEPTIONS)
EXCEPTIONS.update(c18.EXCEPTIONS)


def check_rrl_question_lemma(R, F):
    """Rrl::process_response unwraps context.question for category NoError.  Lemma (DESIGN §3): a response that is subject
    to RRL (send_response, UDP, opcode QUERY) and whose FULL extended RCODE is NOERROR has a question.  Premises checked:
    (p1) the unwrap is control-dependent on `category == NoError` and the category is Category::from(the response's
    extended RCODE) -- the 12-bit code, not the 4-bit header field, so BADVERS/BADKEY-style codes whose low nibble is 0
    are not NoError; Category::from maps only 0 to NoError;
    (p2) the whole key computation is dominated by subject_to_rrl;
    (p3) in handle_message_with_context every return reachable after `question = None` has passed a call that sets a
    non-zero RCODE (set_rcode(const != 0), set_extended_rcode, the TSIG error helpers) or handle_query (which answers
    FORMERR when there is no question), or clears send_response.
    Residual assumption (stated in the evidence): a response truncated by set_tsig_or_truncate after a *successful* TSIG
    verification keeps RCODE NOERROR; it always has a question, because a TSIG RR fits beside an empty question section."""
    pr = F.fn('server::rrl::Rrl::process_response')
    uw = [b for b, kind, d in panics.sites(pr) if kind == 'unwrap' and 'question' in paths.show_operand(pr, pr.blocks[b]['term']['args'][0])]
    ok1 = len(uw) == 1
    d1 = 'expected one question.unwrap() in process_response, found %d' % len(uw)
    if ok1:
        g = paths.dom_guards(pr, uw[0])
        cat_guard = [x for x in g if re.match(r'^Category::eq\(T::into\(Writer::extended_rcode\(arg2\.response\)\),Category::NoError\{?\}?\) not in \[0\]$', x)]
        rrl_guard = [x for x in g if re.match(r'^rrl::subject_to_rrl\(arg2\) not in \[0\]$', x)]
        cf = F.maybe('<server::rrl::Category as std::convert::From<message::rcode::ExtendedRcode>>::from')
        only0 = False
        if cf is not None:
            noerr = [bb for bb, blk in enumerate(cf.blocks) if not blk['cleanup'] for st in blk['stmts'] if st['k'] == 'assign' and st['rv']['k'] == 'agg' and st['rv']['def'].endswith('Category::NoError')]
            only0 = len(noerr) == 1 and any(re.match(r'^arg1\.0 in \[0\]$', x) for x in paths.direct_guards(cf, noerr[0]))
        ok1 = bool(cat_guard) and bool(rrl_guard) and only0
        d1 = 'unwrap under category == NoError: %s (guards %s); under subject_to_rrl: %s; Category::from maps only 0 to NoError: %s' % (bool(cat_guard), [x[:90] for x in g][-3:], bool(rrl_guard), only0)
    R.require(ok1, 'rrl-question', 'server::rrl::Rrl::process_response|noerror-only-and-full-rcode', pr.where(uw[0]) if uw else pr.where(), d1, 'the RRL question lemma does not hold: ' + d1)
    hm = F.fn(HMWC)
    # blocks that store None into context.question
    none_b = [b for b, blk in enumerate(hm.blocks) if not blk['cleanup'] for st in blk['stmts'] if st['k'] == 'assign' and st['rv']['k'] == 'agg' and st['rv']['def'].endswith('Option::None') and not st['lhs']['p']]
    starts = [b for b in none_b if re.search(r'Reader::qdcount\(arg2\.received\) in \[0\]', ' '.join(paths.direct_guards(hm, b)))]
    def settles(b):
        t = hm.blocks[b]['term']
        if t['k'] != 'call':
            # send_response = false
            return any(st['k'] == 'assign' and st['lhs']['p'] and isinstance(st['lhs']['p'][-1], dict) and st['lhs']['p'][-1].get('n') == 'send_response' for st in hm.blocks[b]['stmts'])
        n = callee_name(t)
        if n == W + 'set_rcode':
            return (const_int(t['args'][1]) or 0) != 0
        if n == W + 'set_extended_rcode':
            return True
        return n in ('server::find_tsig_algorithm_or_write_error', 'server::find_tsig_key_or_write_error', 'server::verify_tsig_and_write_tsig_rr', HANDLE_QUERY)
    ok3 = len(starts) == 1
    d3 = 'expected one `question = None` arm under QDCOUNT == 0, found %d' % len(starts)
    if ok3:
        avoid = {b for b in range(len(hm.blocks)) if settles(b)}
        p = hm.find_path(starts[0], lambda x: hm.blocks[x]['term']['k'] == 'ret', avoid=avoid)
        ok3 = p is None
        d3 = 'every return after `question = None` passes a non-zero RCODE, handle_query or send_response = false' if ok3 else 'a return is reachable with question == None and RCODE NOERROR: %s' % paths.fmt_path(hm, p)
    R.require(ok3, 'rrl-question', HMWC + '|no-question-implies-error-or-dispatch', hm.where(starts[0]) if starts else hm.where(), d3, d3)
    # the TSIG error helpers settle the RCODE themselves: nothing they call afterwards (the truncation helper, ...) writes
    # the RCODE again -- otherwise the non-zero RCODE this lemma relies on could be reset to NOERROR before the return
    helpers = ('server::find_tsig_algorithm_or_write_error', 'server::find_tsig_key_or_write_error', 'server::verify_tsig_and_write_tsig_rr')
    below = sorted(g for g in F.reachable_fns(list(helpers)) if g not in helpers and g in F.fns and F.fns[g].crate == 'quandary' and g.startswith(('server::', '<server::')))
    rewrites = ['%s (%s)' % (g, F.fns[g].where(b)) for g in below for b, t in F.fns[g].calls() if callee_name(t) in (W + 'set_rcode', W + 'set_extended_rcode')]
    R.require(not rewrites, 'rrl-question', 'server|tsig-error-rcode-is-final', '', 'no function called by the TSIG error helpers writes the RCODE (%d functions looked at)' % len(below),
              'the RCODE written by a TSIG error helper can be overwritten by %s: a question-less request can then leave with RCODE NOERROR and panic Rrl::process_response' % rewrites)
    # validate_opt only yields non-zero codes (it feeds set_extended_rcode)
    vo = F.fn('server::validate_opt')
    codes = sorted({m.group(1) for blk in vo.blocks for st in blk['stmts'] if st['k'] == 'assign' and st['rv']['k'] == 'agg' and st['rv']['def'].endswith('Option::Some') for m in [re.search(r'ExtendedRcode\((\d+)_u16\)', paths.show_operand(vo, st['rv']['ops'][0]))] if m})
    R.require(bool(codes) and '0' not in codes, 'rrl-question', 'server::validate_opt|only-error-codes', vo.where(), 'validate_opt yields only non-zero extended RCODEs %s' % codes, 'validate_opt can yield extended RCODE 0')
    R.floor('rrl-question', 4)


def check(R, F):
    S = e5.make_summary(F)
    writer_inv.install(F, S)
    reach = sorted(g for g in F.reachable_fns([HANDLE_MESSAGE]) if F.fns[g].crate == 'quandary')
    R.require(len(reach) >= 250, 'reach', HANDLE_MESSAGE + '|call-graph', '', '%d functions of the crate are reachable from handle_message' % len(reach), 'only %d functions reachable: the call graph is incomplete' % len(reach), nontrivial=False)
    cl = [F.fns[g] for g in reach if claimed(g)]
    other = [F.fns[g] for g in reach if not claimed(g)]
    n = e5.run_sites(R, F, cl, 'totality', exceptions=EXCEPTIONS, S=S)
    R.floor('totality', 150, 'panic-capable sites counted in the claimed modules')
    e5.check_pres(R, F, S, 'totality.pre')
    # invariants and summaries the entailments above rely on
    c15.check_invariants(R, F, S)
    writer_inv.check(R, F, S)
    namewire.check_all(R, F, S, 'summary')
    c18.check_read_post(R, F, S)
    for gp, mn in (('rr::rdata::std13::validate_character_string', 1), ('rr::rdata::opt::validate_option', 4)):
        e5.verify_post(R, F, S, 'summary', gp, [((), 'Ok(n) => %d <= n <= len(octets)' % mn, lambda an, e, mn=mn: [le(lin(c=mn), e), le(e, lin('len:(*_1)'))])])
    # error discipline: no unwrap/expect directly on a Reader / PeekRr / Rdata::read result in server::*
    bad = []
    for fn in cl:
        if not fn.gpath.startswith(('server::', '<server::')):
            continue
        for b, kind, detail in panics.sites(fn):
            if kind != 'unwrap':
                continue
            txt = paths.show_operand(fn, fn.blocks[b]['term']['args'][0])
            if re.match(r'^(Reader|PeekRr)::(read_|peek_|parse|skip_)|^Rdata::read', txt):
                bad.append('%s: %s' % (fn.where(b), txt[:80]))
    R.require(not bad, 'error-discipline', 'server|no-unwrap-of-parse-results', '', 'no unwrap/expect is applied to the result of a reader or RDATA parsing operation in server::*', 'request parsing results are unwrapped: %s' % bad)
    check_rrl_question_lemma(R, F)
    # census of the modules outside the claim
    class Census:
        def __init__(self): self.ok = 0; self.bad = 0; self.by = {}
        def require(self, ok, rule, key, where='', a='', b_='', **k):
            mod = key.split('|')[1].split('::')[0:2]
            m = '::'.join(mod)
            d = self.by.setdefault(m, [0, 0])
            d[0 if ok else 1] += 1
            return ok
    cz = Census()
    e5.run_sites(cz, F, other, 'census', exceptions={}, S=S)
    R.extra['claimed_functions'] = len(cl)
    R.extra['claimed_sites'] = n
    R.extra['census_only'] = {m: {'discharged_automatically': v[0], 'not_decided': v[1]} for m, v in sorted(cz.by.items())}
    R.note('census-only modules are NOT part of the claim: %s' % R.extra['census_only'])
