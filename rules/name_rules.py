"""Rules about name::Name relations shared by C06 (wrong-zone test), C07 (zone selection) and C16 (name algebra)."""
import re

from qv.facts import callee_name, is_place
from qv import paths


def check_label_suffix(R, F):
    """Name::eq_or_subdomain_of is a right-to-left comparison of whole labels (never of raw wire octets, whose length
    octets may coincide with label content), and SingleZoneCatalog selects with it."""
    es = F.fn('name::Name::eq_or_subdomain_of')
    seq = [paths.short(callee_name(t)) for b, t in es.calls()]
    cl = F.closures_of(es.gpath)
    lab = [c.gpath for c in cl for b, t in c.calls() if 'Label as std::cmp::PartialEq' in callee_name(t) or callee_name(t).endswith('PartialEq<&B> for &A>::eq')]
    raw = sorted({paths.short(callee_name(t)) for f in [es] + cl for b, t in f.calls() if re.search(r'wire_repr|eq_ignore_ascii_case|to_ascii_|Index<|::get$|::ends_with|::starts_with', callee_name(t))})
    ok = seq.count('Name::labels') == 2 and seq.count('Iterator::rev') == 2 and 'Iterator::zip' in seq and 'Iterator::all' in seq and seq.count('Name::len') == 2 and bool(lab) and not raw
    R.require(ok, 'label-suffix', es.gpath, es.where(), 'label counts compared, then labels right to left through Label::eq',
              'Name::eq_or_subdomain_of is not a right-to-left label-by-label comparison (calls: %s; raw octet operations: %s): an octet-suffix match is not a label-suffix match' % (seq, raw))
    sz = F.fn('<db::single_zone_catalog::SingleZoneCatalog<Z> as db::catalog::Catalog>::lookup') if F.maybe('<db::single_zone_catalog::SingleZoneCatalog<Z> as db::catalog::Catalog>::lookup') else None
    if sz is None:
        cands = F.find(lambda f: 'single_zone_catalog' in f.gpath and f.gpath.endswith('::lookup'))
        sz = cands[0] if cands else None
    ok = sz is not None
    if ok:
        sq = [paths.short(callee_name(t)) for f in [sz] + F.closures_of(sz.gpath) for b, t in f.calls()]
        ok = 'Name::eq_or_subdomain_of' in sq and any('Class' in x and x.endswith('eq') for x in sq)
    R.require(ok, 'label-suffix', 'db::single_zone_catalog|lookup', sz.where() if sz else '', 'SingleZoneCatalog::lookup = class test and eq_or_subdomain_of(entry name)', 'SingleZoneCatalog::lookup does not select by class and Name::eq_or_subdomain_of')
    R.floor('label-suffix', 2)


def check_case_folding_callers(R, F):
    """ASCII case folding is applied to name LABELS only: the octet-level case-insensitive comparison / lower-casing
    primitives are called only from Label (eq, cmp, hash), from the writer's compression scan (label against label) and
    from Name::make_ascii_lowercase.  In particular no RDATA comparison folds case outside the embedded names, so
    integer fields that happen to hold letter-range octets stay significant."""
    allowed_prefixes = ('<name::label::Label as ', 'name::label::', 'name::Name::make_ascii_lowercase', "message::writer::Writer::<'a>::write_compressed_unhinted_name",
                        'name::lowercase::')
    prims = ('core::slice::ascii::<impl [u8]>::eq_ignore_ascii_case', 'core::slice::ascii::<impl [u8]>::make_ascii_lowercase', 'core::slice::ascii::<impl [u8]>::to_ascii_lowercase',
             'core::num::<impl u8>::to_ascii_lowercase', 'core::num::<impl u8>::eq_ignore_ascii_case', 'core::slice::ascii::<impl [u8]>::to_ascii_uppercase', 'core::num::<impl u8>::to_ascii_uppercase',
             'core::slice::ascii::<impl [u8]>::make_ascii_uppercase')
    bad = []
    n = 0
    for gp, fn in F.fns.items():
        if fn.crate != 'quandary' or '::tests::' in gp:
            continue
        for b, t in fn.calls():
            if callee_name(t) in prims:
                n += 1
                if not gp.startswith(allowed_prefixes):
                    bad.append('%s (%s)' % (gp, fn.where(b)))
    R.require(not bad and n >= 3, 'case-folding', 'name|octet-case-folding-only-in-labels', '', 'the %d octet-level case-folding calls are all in Label / the label scan / LowercaseName' % n,
              'octets are compared or folded case-insensitively outside the name-label code: %s -- data that is not a domain name (RDATA integers, lengths) would be treated as equal up to ASCII case' % bad)


def check_longest_match(R, F, rule='longest-match'):
    """HashMapTreeCatalog's walk returns the deepest entry on the path and falls back to shallower ones.
    Recursive form: `deeper.or(node.data)` with the recursive result as receiver, descending one label per call.
    Iterative form: the entry of the node at hand is examined *before* every descent (so the starting node's entry --
    the class root -- is a candidate too), and the walk advances by one child lookup per round."""
    from qv.flow import slice_of
    from qv.rulelib import calls_in
    CAT = 'db::hash_map_tree::catalog::'
    lic = F.fn(CAT + 'lookup_in_class')
    rec = calls_in(lic, CAT + 'lookup_in_class')
    via_closure = [c.gpath for c in F.closures_of(lic.gpath) if calls_in(c, CAT + 'lookup_in_class')]
    if not rec and via_closure:
        # recursion through a closure (e.g. `.get(..).and_then(|n| lookup_in_class(n, ..))`): neither form below applies
        R.bad(rule, lic.gpath + '|deeper-first', lic.where(), 'shape not recognised: lookup_in_class recurses through the closure %s' % via_closure)
        return
    if rec:
        ors = calls_in(lic, 'Option::<T>::or')
        ok = len(ors) == 1
        if ok:
            b, t = ors[0]
            recv = slice_of(lic, t['args'][0])
            alt = slice_of(lic, t['args'][1])
            ok = any(n2 == CAT + 'lookup_in_class' for n2 in recv.call_names()) and not any(n2 == CAT + 'lookup_in_class' for n2 in alt.call_names()) \
                and any(fp and fp[-1] == 'data' for fp in alt.field_paths())
        R.require(ok, rule, lic.gpath + '|deeper-first', lic.where(ors[0][0]) if ors else lic.where(), 'deeper match preferred, node entry as fallback', 'lookup_in_class no longer prefers the deeper match over the node\'s own entry')
        ok = len(rec) == 1 and paths.show_operand(lic, rec[0][1]['args'][2]) == 'Sub(arg3,1_usize)' and 'children' in paths.show_operand(lic, rec[0][1]['args'][0])
        R.require(ok, rule, lic.gpath + '|descends-one-label', lic.where(), 'recurses into children[name[level-1]] with level-1', 'recursion of lookup_in_class does not descend exactly one label')
        return
    gets = [b for b, t in lic.calls() if re.search(r'HashMap::<[^>]*>::get$', callee_name(t)) and 'children' in paths.show_operand(lic, t['args'][0])]
    def reads_data(st):
        if st['k'] != 'assign':
            return False
        rv = st['rv']
        pls = []
        if rv['k'] in ('ref', 'discr'):
            pls.append(rv['pl'])
        elif rv['k'] == 'use' and rv['op']['k'] in ('copy', 'move'):
            pls.append(rv['op']['pl'])
        return any(isinstance(q, dict) and q.get('n') == 'data' for pl in pls for q in pl['p'])
    datas = [b for b, blk in enumerate(lic.blocks) if not blk['cleanup'] and any(reads_data(st) for st in blk['stmts'])]
    if not gets or not datas:
        R.bad(rule, lic.gpath + '|deeper-first', lic.where(), 'cannot find the recursive call or an iterative walk (children.get / .data reads) in lookup_in_class')
        return
    late = [g for g in gets if not any(lic.dominates(d, g) for d in datas)]
    R.require(not late, rule, lic.gpath + '|deeper-first', lic.where(gets[0]), 'iterative walk: the entry of the node at hand is examined before every descent',
              'the walk descends into a child (%s) before the entry of the node at hand was examined: the entry of the starting node (the class root) is never a candidate' % [lic.where(g) for g in late])
    R.require(len(gets) == 1 and gets[0] in lic.reachable(lic.succs()[gets[0]]), rule, lic.gpath + '|descends-one-label', lic.where(gets[0]), 'one child lookup per round of the walk', 'the iterative walk does not advance by exactly one child lookup per round')


NAME_OCTET_SOURCES = ('name::Name::wire_repr', 'name::Name::wire_repr_from', 'name::Name::wire_repr_to', 'name::label::Label::octets')


def check_raw_name_comparisons(R, F, rule='name-equality'):
    """Domain names are compared as names (label by label, ASCII case folded -- Name / Label equality, eq_or_subdomain_of),
    never as raw octets: outside the name module no equality / ordering / prefix / suffix test has an operand that derives
    from a name's wire representation.  A byte comparison is case-sensitive (and, on a tail of the representation, not
    label-aligned), so `NS1.Sub.Example.` would not be recognised as a name under `sub.example.`."""
    from qv.flow import slice_of
    cmp_rx = re.compile(r'(PartialEq<[^>]*>( for [^>]*)?>::(eq|ne)$|::cmp::Ord>::cmp$|PartialOrd<[^>]*>( for [^>]*)?>::(partial_cmp|lt|le|gt|ge)$|<impl \[T\]>::(starts_with|ends_with|strip_prefix|strip_suffix)$|SlicePartialEq<[^>]*>>::(equal|not_equal)$)')
    bad = []
    n = 0
    for gp, fn in F.fns.items():
        if fn.crate != 'quandary' or '::tests::' in gp or gp.startswith(('name::', '<name::')) or '<impl name::' in gp:
            continue
        # the compression scan compares one LABEL of the name being written with one label already in the message,
        # octet for octet in the case-preserving mode (that is the mode's definition) -- label-aligned by construction
        if gp.startswith("message::writer::Writer::<'a>::write_compressed_unhinted_name"):
            continue
        for b, t in fn.calls():
            cn = callee_name(t)
            if not cmp_rx.search(cn) or 'name::' in cn:
                continue
            n += 1
            for a in t['args'][:2]:
                if not is_place(a):
                    continue
                ty = a['pl'].get('ty') or fn.local_ty(a['pl']['l'])
                if 'u8' not in ty:
                    continue
                srcs = [x for x in slice_of(fn, a, through_calls=True).call_names() if x in NAME_OCTET_SOURCES]
                if srcs:
                    bad.append('%s (%s): %s on %s' % (gp, fn.where(b), paths.short(cn), sorted(set(paths.short(x) for x in srcs))))
                    break
    R.require(not bad, rule, 'name|no-raw-octet-comparison-outside-name-module', '', 'none of the %d equality / ordering / prefix tests outside src/name has an operand derived from a name\'s wire octets' % n,
              'a domain name is compared as raw octets outside the name module: %s -- names differing only in ASCII case (or an octet run that is not label-aligned) are classified wrongly' % bad)
    return n
