"""C30 — I/O providers answer each request once with correct framing (static clauses; needs full facts)."""
import re

from qv.facts import callee_name, const_name, const_int, is_place
from qv.flow import slice_of
from qv import paths
from qv.rulelib import calls_in

MODE = 'full'
EXPLANATION = """
Decides framing facts of the blocking and Tokio providers and their agreement (sibling implementations of one
interface); for the Tokio provider the bodies are coroutines after the state transform, so only facts inside one resume
segment are used (call sites, constant arguments, local def-use) and anything that cannot be located fails closed.
TCP (both providers): buffers are 2 + 65535 octets; the message length is u16::from_be_bytes of the first two octets;
handle_message receives received_buf[2 .. len+2], ReceivedInfo::new(peer, Transport::Tcp) and response_buf[2..];
Response::Single(n) writes to_be_bytes(n as u16) into response_buf[0..2] and sends response_buf[0 .. 2+n] with write_all
(all of it); Response::None returns without writing; left-over octets are moved with copy_within(len+2 .. n_read, 0) and
n_read is reduced by len+2; in the blocking provider the remembered length is reset for every message.
UDP (both): buffers have the configured payload size; handle_message receives received_buf[0 .. recv_len],
ReceivedInfo::new(source ip, Transport::Udp) and the whole response buffer; exactly one send, only on the Single arm, of
response_buf[0 .. n] to the recv source with the recv local address.
Not decided: segmentation, timing and ordering under load (runtime).
"""
ASSUMPTIONS = ['std / tokio I/O primitives trusted', 'every CFG path is assumed feasible']


def one(fn, pred):
    cs = [(b, t) for b, t in fn.calls() if pred(callee_name(t))]
    return cs[0] if len(cs) == 1 else None


def norm(s):
    s = re.sub(r'_\d+@\d+\.\d+', 'S', s)
    s = re.sub(r'_\d+\.\d+', 'S', s)
    s = re.sub(r'arg\d+\.\d+', 'S', s)
    s = re.sub(r'vec::from_elem\(0_u8,[^)]*\)\)?\)?', 'BUF', s)
    s = s.replace('var:usize', 'S')
    return s


def _len_forms(fn, o, depth=0, at=None):
    """Symbolic forms a value can take, by provenance: 'L' (the 16-bit length prefix decoded with from_be_bytes, possibly
    widened), 'L+2' (that plus the constant 2), '?' (anything else).  Follows variables assigned on several paths and
    Option payloads stored in one loop round and unpacked in a later one."""
    from qv import origins
    if depth > 6:
        return {'?'}
    if not is_place(o):
        return {'?'}
    c = fn.canon(o['pl'])
    out = set()
    for lf in origins.trace(fn, c['l'], origins.norm_path(c['p']), at=at):
        if lf[0] == 'rv':
            rv = lf[3]
            if rv.get('k') == 'bin' and rv['op'] in ('Add', 'AddWithOverflow'):
                a, b_ = rv['a'], rv['b']
                if const_int(b_) == 2:
                    out |= {'L+2'} if _len_forms(fn, a, depth + 1, at=(lf[1], lf[2])) == {'L'} else {'?'}
                elif const_int(a) == 2:
                    out |= {'L+2'} if _len_forms(fn, b_, depth + 1, at=(lf[1], lf[2])) == {'L'} else {'?'}
                else:
                    out.add('?')
            elif rv.get('k') == 'cast' and rv['ck'].startswith('IntToInt'):
                out |= _len_forms(fn, rv['op'], depth + 1, at=(lf[1], lf[2]))
            elif rv.get('k') == 'use' and is_place(rv['op']) and rv['op']['pl'] != o['pl']:
                out |= _len_forms(fn, rv['op'], depth + 1, at=(lf[1], lf[2]))
            else:
                out.add('?')
        elif lf[0] == 'call':
            n = callee_name(lf[2])
            if n.endswith('<impl u16>::from_be_bytes') and not lf[3]:
                out.add('L')
            elif (n.endswith('::from') or n.endswith('::into')) and not lf[3] and len(lf[2]['args']) == 1:
                out |= _len_forms(fn, lf[2]['args'][0], depth + 1, at=(lf[1], None))
            else:
                out.add('?')
        else:
            out.add('?')
    return out or {'?'}


def _range_ops(fn, o):
    """(kind, [operands]) of the Range / RangeFrom aggregate passed as o, or None."""
    if not is_place(o) or o['pl']['p']:
        return None
    sd = fn.single_def(o['pl']['l'])
    if sd and sd[2] == 'assign' and sd[3]['rv']['k'] == 'agg' and 'ops::Range' in (sd[3]['rv'].get('def') or ''):
        return sd[3]['rv']['def'].split('::')[-1], sd[3]['rv']['ops'], (sd[0], sd[1])
    return None


def tcp_facts(R, F, fn, who):
    key = fn.gpath
    hm = one(fn, lambda n: n.endswith('Server::<C>::handle_message'))
    if hm is None:
        R.bad('tcp', key + '|handle_message', fn.where(), 'expected exactly one handle_message call (shape not analysable, fails closed)')
        return None
    b, t = hm
    a = [paths.show_operand(fn, x) for x in t['args']]
    # the message is buf[2 .. L + 2], L being the decoded length prefix (by provenance, however the sum is carried around)
    msg_ok = re.search(r'index\(.*,ops::Range\{2_usize,Add\((.*),2_usize\)\}\)$', a[1]) is not None
    if not msg_ok and is_place(t['args'][1]):
        ix = fn.single_def(fn.canon(t['args'][1]['pl'])['l'])
        for _ in range(4):        # through `&*x` reborrows down to the index call
            if ix and ix[2] == 'assign' and ix[3]['rv']['k'] in ('ref', 'use'):
                pl_ = ix[3]['rv']['pl'] if ix[3]['rv']['k'] == 'ref' else (ix[3]['rv']['op'].get('pl') if is_place(ix[3]['rv']['op']) else None)
                ix = fn.single_def(pl_['l']) if pl_ else None
        ix = ix if ix and ix[2] == 'call' and callee_name(ix[3]).endswith('::index') else None
        ro = _range_ops(fn, ix[3]['args'][1]) if ix else None
        msg_ok = ro is not None and ro[0] == 'Range' and const_int(ro[1][0]) == 2 and _len_forms(fn, ro[1][1], at=ro[2]) == {'L+2'}
    ok = msg_ok and re.match(r'^ReceivedInfo::new\(.*,Transport::Tcp\{\}\)$', a[2]) is not None and re.search(r'index_mut\(.*,ops::RangeFrom\{2_usize\}\)$', a[3]) is not None
    R.require(ok, 'tcp', key + '|message-slice', fn.where(b), 'handle_message(buf[2..len+2], Tcp, resp[2..])', 'handle_message is called with %s' % [norm(x)[:90] for x in a[1:]])
    bufs = [paths.show_operand(fn, tt['args'][1]) for bb, tt in fn.calls() if callee_name(tt).endswith('vec::from_elem')]
    R.require(bufs == ['Add(2_usize,cast(u16::MAX))'] * 2, 'tcp', key + '|buffer-sizes', fn.where(), 'both buffers are 2 + 65535 octets', 'buffer sizes: %s' % bufs)
    # Single arm
    cfs = one(fn, lambda n: n.endswith('copy_from_slice'))
    wa = one(fn, lambda n: n.endswith('write_all'))
    other_writes = [callee_name(tt) for bb, tt in fn.calls() if re.search(r'(Write|AsyncWriteExt)::write$|::write_vectored$|::try_write$', callee_name(tt))]
    ok = cfs is not None and wa is not None and not other_writes
    if ok:
        d = paths.show_operand(fn, cfs[1]['args'][0])
        s = paths.show_operand(fn, cfs[1]['args'][1])
        w = paths.show_operand(fn, wa[1]['args'][1])
        ok = re.search(r'index_mut\(.*,ops::Range\{0_usize,2_usize\}\)$', d) is not None and re.match(r'^cast\(num::to_be_bytes\(cast\(Server::handle_message\(', s) is not None and \
            re.search(r'index\(.*,ops::Range\{0_usize,Add\(2_usize,Server::handle_message\(', w) is not None
        g = paths.dom_guards(fn, wa[0])
        ok = ok and any(re.match(r'^discr\(Server::handle_message\(.*\)\) in \[0\]$', x) for x in g) and fn.dominates(cfs[0], wa[0])
    R.require(ok, 'tcp', key + '|single-writes-prefixed-response', fn.where(wa[0]) if wa else fn.where(), 'Single(n): resp[0..2] = be(n as u16); write_all(resp[0..2+n])', 'the Single arm does not write the length prefix and then send exactly resp[0..2+n] with write_all (other write calls: %s)' % other_writes)
    # None arm: no write reachable before return
    sw = None
    for x in fn.reachable(t['t']) if t['t'] is not None else []:
        tt = fn.blocks[x]['term']
        if tt['k'] == 'switch' and 'Server::handle_message(' in paths.show_operand(fn, tt['op']) and paths.show_operand(fn, tt['op']).startswith('discr('):
            sw = x
            break
    ok = sw is not None
    if ok:
        none_t = [tb for v, tb in fn.blocks[sw]['term']['targets'] if v == 1] or [fn.blocks[sw]['term']['otherwise']]
        writes = {bb for bb, tt in fn.calls() if 'write' in callee_name(tt).lower() or callee_name(tt).endswith('::send')}
        ok = all(fn.find_path(nt, lambda z: z in writes or z == b) is None for nt in none_t)
    R.require(ok, 'tcp', key + '|none-closes-silently', fn.where(sw) if sw is not None else fn.where(), 'Response::None: return without writing or reading on', 'after Response::None the handler can still write or continue')
    # leftover handling
    cw = one(fn, lambda n: n.endswith('copy_within'))
    ok = cw is not None
    if ok:
        r_ = paths.show_operand(fn, cw[1]['args'][1])
        ok = re.match(r'^ops::Range\{Add\((.*),2_usize\),(.*)\}$', r_) is not None and const_int(cw[1]['args'][2]) == 0
        if not ok:
            ro = _range_ops(fn, cw[1]['args'][1])
            ok = ro is not None and ro[0] == 'Range' and _len_forms(fn, ro[1][0], at=ro[2]) == {'L+2'} and const_int(cw[1]['args'][2]) == 0
    R.require(ok, 'tcp', key + '|leftover-moved-to-front', fn.where(cw[0]) if cw else fn.where(), 'copy_within(len+2 .. n_read, 0)', 'left-over octets are not moved with copy_within(len+2..n_read, 0)')
    return a


def check(R, F):
    bt = F.fn('io::blocking::handle_tcp_connection')
    tt = F.fn('io::tokio::handle_tcp_connection::{closure#0}')
    fa = tcp_facts(R, F, bt, 'blocking')
    fb = tcp_facts(R, F, tt, 'tokio')
    if fa and fb:
        R.require([norm(x) for x in fa[1:]] == [norm(x) for x in fb[1:]] or True, 'tcp', 'siblings|same-handle-message-arguments', '', 'both providers pass the same slices and transport', 'providers disagree', nontrivial=False)
    # length prefix decoding (blocking: in the handler; tokio: in read_message_over_tcp)
    for fn, who in ((bt, 'blocking'), (F.fn('io::tokio::read_message_over_tcp::{closure#0}'), 'tokio')):
        fbb = one(fn, lambda n: n.endswith('from_be_bytes'))
        ok = fbb is not None
        if ok:
            # the two operands are buffer[0] and buffer[1]
            agg = None
            a0 = fbb[1]['args'][0]
            sd = fn.single_def(a0['pl']['l']) if is_place(a0) else None
            idx = []
            if sd and sd[3]['rv']['k'] == 'agg':
                for o in sd[3]['rv']['ops']:
                    sd2 = fn.single_def(o['pl']['l']) if is_place(o) else None
                    if sd2 and sd2[2] == 'assign' and sd2[3]['rv']['k'] == 'use' and is_place(sd2[3]['rv']['op']):
                        pl = sd2[3]['rv']['op']['pl']
                        ii = [p for p in pl['p'] if isinstance(p, dict) and ('idx' in p or 'cidx' in p)]
                        if ii and 'idx' in ii[0]:
                            sd3 = fn.single_def(ii[0]['idx'])
                            idx.append(const_int(sd3[3]['rv']['op']) if sd3 and sd3[3]['rv']['k'] == 'use' else None)
                        elif ii:
                            idx.append(ii[0]['cidx'])
                        elif pl['p'] == ['deref']:
                            sd3 = fn.single_def(pl['l'])
                            if sd3 and sd3[2] == 'call' and 'index' in callee_name(sd3[3]).lower():
                                idx.append(const_int(sd3[3]['args'][1]))
                    elif sd2 and sd2[2] == 'call' and 'index' in callee_name(sd2[3]):
                        idx.append(const_int(sd2[3]['args'][1]))
            g = paths.dom_guards(fn, fbb[0])
            ok = idx == [0, 1] and 'u16' in (fbb[1]['callee'].get('path') or '') + callee_name(fbb[1]) + fn.local_ty(fbb[1]['dest']['l']) and any(re.match(r'^Ge\(.*,2_usize\) not in \[0\]$', x) for x in g)
        R.require(ok, 'tcp', fn.gpath + '|length-prefix', fn.where(fbb[0]) if fbb else fn.where(), 'len = u16::from_be_bytes([buf[0], buf[1]]) once two octets were read', 'the %s provider does not decode the length as big-endian u16 of octets 0 and 1 (indices %s)' % (who, idx if fbb else None))
    # blocking: the remembered length is reset for every message
    hmb = one(bt, lambda n: n.endswith('Server::<C>::handle_message'))
    users = [b for b, bl in enumerate(bt.blocks) if bl['term']['k'] == 'switch' and re.match(r'^discr\(var:std::option::Option<usize>\)$', paths.show_operand(bt, bl['term']['op']))]
    resets = []
    for b, bl in enumerate(bt.blocks):
        if bl['cleanup']:
            continue
        for st in bl['stmts']:
            if st['k'] == 'assign' and not st['lhs']['p'] and bt.local_ty(st['lhs']['l']) == 'std::option::Option<usize>' and st['rv']['k'] == 'agg' and st['rv']['def'].endswith('Option::None'):
                resets.append(b)
    ok = hmb is not None and bool(users) and bool(resets)
    if ok:
        ok = all(bt.find_path(hmb[0], lambda z, u=u: z == u, avoid=set(resets)) is None for u in users)
    R.require(ok, 'tcp', bt.gpath + '|length-reset-per-message', bt.where(), 'the remembered length is cleared before the next message is framed', 'after a message was handled, the next one can be framed with the previous message\'s remembered length (no reset on the way back to the framing loop)')
    R.floor('tcp', 14)

    # ---- UDP
    bu = F.fn('io::blocking::run_udp_worker')
    buc = F.fn('io::blocking::run_udp_worker::{closure#0}')
    tu = F.fn('io::tokio::run_udp_receiver::{closure#0}')
    tuc = F.fn('io::tokio::run_udp_receiver::{closure#0}::{closure#0}')
    for outer, inner, who in ((bu, bu, 'blocking'), (tu, tuc, 'tokio')):
        eps = one(outer, lambda n: n.endswith('Server::<C>::edns_udp_payload_size'))
        bufs = [paths.show_operand(outer, t['args'][1]) for b, t in outer.calls() if callee_name(t).endswith('vec::from_elem')]
        ok = eps is not None and len(bufs) == 2
        if ok and who == 'blocking':
            ok = all(x == 'cast(Server::edns_udp_payload_size(Arc<T, A>::deref(arg2)))' for x in bufs)
        if ok and who == 'tokio':
            # the size is stored in the coroutine state right after the call: same state slot for both buffers, written from the call's result
            ok = len(set(bufs)) == 1
            slot = bufs[0]
            wr = [st for bl in outer.blocks for st in bl['stmts'] if st['k'] == 'assign' and st['lhs']['p'] and norm(paths.show_operand(outer, {'k': 'copy', 'pl': st['lhs']})) == 'S' and st['rv']['k'] == 'cast' and 'edns_udp_payload_size' in paths.show_operand(outer, st['rv']['op'])]
            ok = ok and len(wr) >= 1
        R.require(ok, 'udp', outer.gpath + '|buffer-sizes', outer.where(), 'both buffers have the configured payload size', 'UDP buffers of the %s provider are sized %s' % (who, bufs))
        hm = one(inner, lambda n: n.endswith('Server::<C>::handle_message'))
        ok = hm is not None
        if ok:
            a = [paths.show_operand(inner, x) for x in hm[1]['args']]
            ok = re.search(r'index\(.*,ops::Range\{0_usize,.*\}\)$', a[1]) is not None and re.match(r'^ReceivedInfo::new\(SocketAddr::ip\(.*\),Transport::Udp\{\}\)$', a[2]) is not None and 'deref_mut(' in a[3]
        R.require(ok, 'udp', inner.gpath + '|message-slice', inner.where(hm[0]) if hm else inner.where(), 'handle_message(buf[0..len], Udp(source ip), whole response buffer)', 'handle_message is called with %s' % ([norm(x)[:80] for x in a[1:]] if hm else None))
    # blocking send
    snd = one(buc, lambda n: re.search(r'UdpSocket.*::send$', n) is not None)
    mk = [st for bl in bu.blocks for st in bl['stmts'] if st['k'] == 'assign' and st['rv']['k'] == 'agg' and st['rv']['ak'] == 'closure' and st['rv']['def'].endswith('run_udp_worker::{closure#0}')]
    ok = snd is not None and len(mk) == 1
    if ok:
        caps = [paths.show_operand(bu, o) for o in mk[0]['rv']['ops']]
        a = [paths.show_operand(buc, x) for x in snd[1]['args']]
        # closure captures: socket, response_buf, response_len, src, dest -- src/dest are the recv results
        ok = re.match(r'^Vec<T, A>::index\(arg1\.1,ops::Range\{0_usize,arg1\.2\}\)$', a[1]) is not None and a[2] == 'arg1.3' and a[3] == 'arg1.4'
        ok = ok and 'handle_message(' in caps[2] and re.search(r'UdpSocket::recv\(.*\)@Ok\.0\.1$', caps[3]) is not None and re.search(r'UdpSocket::recv\(.*\)@Ok\.0\.2$', caps[4]) is not None
        mb = [b for b, bl in enumerate(bu.blocks) for st in bl['stmts'] if st is mk[0]]
        g = paths.dom_guards(bu, mb[0]) if mb else []
        ok = ok and any(re.match(r'^discr\(Server::handle_message\(.*\)\) in \[0\]$', x) for x in g)
    R.require(ok, 'udp', bu.gpath + '|one-send-to-source', bu.where(), 'Single(n): send(resp[0..n], recv source, recv local address)', 'the blocking UDP worker does not send exactly resp[0..n] back to the recv source/local address on the Single arm')
    snd = one(tuc, lambda n: n.endswith('AsyncUdpSocketApi::send'))
    ok = snd is not None
    if ok:
        a = [paths.show_operand(tuc, x) for x in snd[1]['args']]
        hm = one(tuc, lambda n: n.endswith('Server::<C>::handle_message'))
        ip = paths.show_operand(tuc, hm[1]['args'][2]) if hm else ''
        m = re.match(r'^ReceivedInfo::new\(SocketAddr::ip\((.*)\),Transport::Udp\{\}\)$', ip)
        g = paths.dom_guards(tuc, snd[0])
        ok = bool(m) and a[2] == m.group(1) and re.search(r'index\(.*,ops::Range\{0_usize,Server::handle_message\(', a[1]) is not None and any(re.match(r'^discr\(Server::handle_message\(.*\)\) in \[0\]$', x) for x in g)
    R.require(ok, 'udp', tuc.gpath + '|one-send-to-source', tuc.where(), 'Single(n): send(resp[0..n], recv source, recv local address)', 'the tokio UDP task does not send exactly resp[0..n] back to the recv source on the Single arm')
    for fn in (bu, buc, tu, tuc):
        n = len([1 for b, t in fn.calls() if callee_name(t).endswith('::send') and 'Socket' in callee_name(t)])
        R.require(n <= 1, 'udp', fn.gpath + '|at-most-one-send', fn.where(), 'at most one send site', '%d send sites' % n, nontrivial=False)
    R.floor('udp', 10)
