"""C07 — zone selection and RCODEs for unsupported queries (static clauses)."""
import re

from qv.facts import callee_name, const_name
from qv.flow import slice_of
from qv import paths
from qv.rulelib import HMWC, HANDLE_QUERY, HANDLE_NON_AXFR, W, calls_in, is_set_rcode, rcode_arg_value, mutates_response, enum_variants

MODE = 'lib'
EXPLANATION = """
Decides the RCODE table of C07 on the MIR of handle_query / handle_message_with_context:
(a) QTYPE in {IXFR 251, AXFR 252, MAILB 253, MAILA 254} -> NOTIMP; QCLASS 255 -> NOTIMP; both tests come before, and are
not control-dependent on, the catalog lookup ("regardless of the catalog"); opcode != QUERY -> NOTIMP;
(b) catalog.lookup(QNAME, class of QCLASS) == None -> REFUSED; Some(NotYetLoaded | FailedToLoad) -> SERVFAIL;
Some(Loaded) is the only way into handle_non_axfr_query, with that entry's zone;
(c) after each of these set_rcode calls every path returns without any further call that receives the response writer
(no records, no AA);
(d) the catalog walk prefers the deeper match (longest suffix);
(e) both catalog implementations select by *label* suffix: SingleZoneCatalog::lookup matches with Name::eq_or_subdomain_of
under the class test, and eq_or_subdomain_of compares whole labels right to left through Label::eq (never raw wire octets,
whose length octets may coincide with label content); HashMapTreeCatalog walks one label per tree level.
Not decided: longest-suffix selection over arbitrary catalogs (value-level; the removal side is C22).
"""
ASSUMPTIONS = ['every CFG path is assumed feasible']
NOTIMP, REFUSED, SERVFAIL = 4, 5, 2


def check(R, F):
    hq = F.fn(HANDLE_QUERY)
    sites = [(b, t, rcode_arg_value(hq, t), paths.direct_guards(hq, b)) for b, t in hq.calls() if is_set_rcode(t)]
    ev = enum_variants(F, 'db::catalog::Entry')
    want = [
        ('qtype-meta->NOTIMP', NOTIMP, r'^true-when\{arg2\.question@Some\.0\.qtype\.0 in \[251, 252, 253, 254\]\} not in \[0\]$'),
        ('qclass-any->NOTIMP', NOTIMP, r'^Qclass::eq\(arg2\.question@Some\.0\.qclass,Qclass\(255_u16\)\) not in \[0\]$'),
        ('no-zone->REFUSED', REFUSED, r'^discr\(Catalog::lookup\(arg2\.catalog,cast\(arg2\.question@Some\.0\.qname\.0\.pointer\),Class::from\(arg2\.question@Some\.0\.qclass\)\)\) in \[0\]$'),
        ('not-loaded->SERVFAIL', SERVFAIL, r'^discr\(Catalog::lookup\(.*\)@Some\.0\) in \[%d, %d\]$' % tuple(sorted((ev.index('NotYetLoaded'), ev.index('FailedToLoad'))))),
    ]
    lk = calls_in(hq, 'db::catalog::Catalog::lookup')
    for name, code, rx in want:
        hit = [(b, t) for b, t, c, g in sites if c == code and any(re.match(rx, x) for x in g)]
        R.require(len(hit) == 1, 'rcode-table', HANDLE_QUERY + '|' + name, hq.where(hit[0][0]) if hit else hq.where(), name,
                  'no set_rcode(%d) controlled by the %s condition; sites: %s' % (code, name.split('->')[0], [(c, g) for b, t, c, g in sites]))
        for b, t in hit:
            bad = paths.none_after(hq, b, lambda x: hq.blocks[x]['term']['k'] == 'call' and mutates_response(hq, hq.blocks[x]['term']))
            R.require(bad is None, 'rcode-final', HANDLE_QUERY + '|' + name, hq.where(b), 'returns without records or AA', 'after %s processing continues: %s' % (name, paths.fmt_path(hq, bad) if bad else ''))
            if 'NOTIMP' in name and lk:
                R.require(not hq.dominates(lk[0][0], b) and hq.dominates(b, lk[0][0]) or not hq.dominates(lk[0][0], b), 'rcode-table', HANDLE_QUERY + '|' + name + '-before-catalog', hq.where(b), 'decided before the catalog is consulted', 'the NOTIMP decision depends on the catalog lookup')
    # the NOTIMP tests dominate the lookup (a meta query never reaches the catalog)
    if lk:
        tests = [p for b in range(len(hq.blocks)) for (p, s) in hq.control_deps().get(b, ()) if any(re.match(want[0][2], x) or re.match(want[1][2], x) for x in [paths.explain_edge(hq, p, s) or ''])]
        R.require(len(set(tests)) == 2 and all(hq.dominates(p, lk[0][0]) for p in tests), 'rcode-table', HANDLE_QUERY + '|meta-tests-before-lookup', hq.where(lk[0][0]), 'both NOTIMP tests dominate the catalog lookup', 'the QTYPE/QCLASS tests do not both dominate the catalog lookup')
    # no other rcode sites than these and the FORMERR for the missing question
    codes = sorted(c for b, t, c, g in sites)
    R.require(codes == [1, 2, 4, 4, 5], 'rcode-table', HANDLE_QUERY + '|no-other-rcodes', hq.where(), 'exactly FORMERR, NOTIMP x2, REFUSED, SERVFAIL', 'handle_query sets RCODEs %s' % codes)
    # Loaded -> handle_non_axfr_query with that zone
    hn = calls_in(hq, HANDLE_NON_AXFR)
    ok = len(hn) == 1
    if ok:
        b, t = hn[0]
        g = paths.dom_guards(hq, b)
        ok = any(re.match(r'^discr\(Catalog::lookup\(.*\)@Some\.0\) (in \[%d\]|not in \[%d, %d\])$' % (ev.index('Loaded'), *sorted((ev.index('NotYetLoaded'), ev.index('FailedToLoad')))), x) for x in g) and any(re.match(r'^discr\(Catalog::lookup\(.*\)\) (in \[1\]|not in \[0\])$', x) for x in g)
        zone = paths.show_operand(hq, t['args'][1])
        ok = ok and 'Catalog::lookup(' in zone and '@Loaded.0' in zone
    R.require(ok, 'rcode-table', HANDLE_QUERY + '|loaded->answer-from-that-zone', hq.where(hn[0][0]) if hn else hq.where(), 'only a Loaded entry is answered, from its own zone', 'handle_non_axfr_query is not reached exactly through Some(Loaded(zone, _)) with that zone')
    # ---- opcode dispatch
    hm = F.fn(HMWC)
    sites = [(b, t, rcode_arg_value(hm, t), paths.direct_guards(hm, b)) for b, t in hm.calls() if is_set_rcode(t)]
    hit = [(b, t) for b, t, c, g in sites if c == NOTIMP and any(re.match(r'^Reader::opcode\(arg2\.received\)\.0 not in \[0\]$', x) for x in g)]
    R.require(len(hit) == 1, 'rcode-table', HMWC + '|opcode-not-query->NOTIMP', hm.where(hit[0][0]) if hit else hm.where(), 'opcode != QUERY -> NOTIMP', 'no NOTIMP under opcode != QUERY')
    for b, t in hit:
        bad = paths.none_after(hm, b, lambda x: hm.blocks[x]['term']['k'] == 'call' and mutates_response(hm, hm.blocks[x]['term']))
        R.require(bad is None, 'rcode-final', HMWC + '|opcode-not-query->NOTIMP', hm.where(b), 'returns without records or AA', 'processing continues after NOTIMP')
    hqc = calls_in(hm, HANDLE_QUERY)
    R.require(len(hqc) == 1 and any(re.match(r'^Reader::opcode\(arg2\.received\)\.0 in \[0\]$', x) for x in paths.direct_guards(hm, hqc[0][0])), 'rcode-table', HMWC + '|query->handle_query', hm.where(), 'opcode QUERY -> handle_query', 'handle_query is not reached exactly under opcode == QUERY')
    R.floor('rcode-table', 9)
    R.floor('rcode-final', 5)
    # ---- (d) longest match
    from rules.name_rules import check_longest_match
    check_longest_match(R, F)
    # ---- (e) suffix matching is label-wise
    from rules.name_rules import check_label_suffix
    check_label_suffix(R, F)
