"""C13 — name compression only emits valid, permitted pointers (static clauses)."""
import re

from qv.facts import callee_name, const_name, const_int, is_place
from qv.flow import slice_of
from qv import paths, tables, effects
from qv.rulelib import W, calls_in
from rules import rdata_tables as rt
from rules import writer_common as wc

MODE = 'lib'
EXPLANATION = """
Decides structural clauses of C13:
(a) classification (oracle RFC 3597 §4 / RFC 1035, frozen below): Rdata::components yields a compressible name only for
NS, MD, MF, CNAME, MB, MG, MR, PTR, SOA (x2), MINFO (x2) and MX (after 2 fixed octets); an UNcompressible name for IN SRV
(after 6 fixed octets) and CH A; nothing name-like for every other type; Components::next and build_name_component keep
the distinction, and add_rr writes an uncompressible name only through write_uncompressed_name;
(b) every emission of a pointer (try_push_u16 of 0xc000 | p) takes p from a HintPointer: the stored QNAME / most recent
owner / most recent RDATA name anchor, an explicit hint tested to be below the cursor, or the anchor of the matched
prior label; HintPointer::new accepts only offsets <= 16383 and is called only with the cursor read BEFORE the name is
pushed, or with a label position of a prior name; the three anchors are assigned only from what the write_* functions
return;
(b') with_rollback restores every Writer field (the three anchors included) that anything reachable from a rolled-back
closure writes, so no anchor survives the operation that set it when that operation fails;
(c) no pointer when compression is disabled: every call of write_compressed_unhinted_name and every pointer emission in
write_hinted_name / write_unhinted_name is dominated by the failed `compression_mode == Disabled` test, and
write_compressed_unhinted_name has no other caller;
(d) when walking a prior name, a pointer is followed only if it is strictly smaller than the current position.
(c') in case-preserving mode no pointer is emitted from a hint (hints promise equality only up to ASCII case).
Not decided: that the heuristic scan lines labels up correctly for all name sets (value-level).
"""
ASSUMPTIONS = ['every CFG path is assumed feasible', 'classification table frozen from RFC 1035 §3.3 / RFC 2782 / RFC 3597 §4']

C, U = 'CompressibleName', 'UncompressibleName'
SPEC = {(2, '*'): [C], (3, '*'): [C], (4, '*'): [C], (5, '*'): [C], (7, '*'): [C], (8, '*'): [C], (9, '*'): [C], (12, '*'): [C],
        (6, '*'): [C, C], (14, '*'): [C, C], (15, '*'): [('FixedLen', 2), C], (33, 1): [('FixedLen', 6), U], (1, 3): [U]}


def component_types(fn):
    """The ComponentType list a components_* function installs (from its promoted constant array)."""
    locs = {}
    arr = None
    for p in fn.d.get('promoted', []):
        rv = p['rv']
        if rv['k'] == 'agg' and rv['ak'] == 'adt' and 'ComponentType::' in rv['def']:
            v = rv['def'].split('::')[-1]
            locs[(p['i'], p['lhs']['l'])] = (v, const_int(rv['ops'][0])) if rv['ops'] else v
        if rv['k'] == 'agg' and rv['ak'] == 'array':
            arr = (p['i'], [o['pl']['l'] for o in rv['ops'] if o['k'] in ('move', 'copy')])
    if arr is None:
        return None
    return [locs.get((arr[0], l)) for l in arr[1]]


def check_case_preserving(R, F):
    """Hints only promise equality ignoring ASCII case: in case-preserving mode no pointer may be emitted from a hint."""
    wh = W + 'write_hinted_name'
    fn = F.fn(wh)
    k = 0
    for b, t in fn.calls():
        n = callee_name(t)
        if not n.endswith('try_push_u16'):
            continue
        a = paths.show_operand(fn, t['args'][1])
        if not a.startswith('BitOr(49152_u16,'):
            continue
        k += 1
        g = paths.dom_guards(fn, b)
        ok = any(re.match(r'^CompressionMode::eq\(arg1\.compression_mode,CompressionMode::CasePreserving\) in \[0\]$', x) or re.match(r'^PartialEq::ne\(arg1\.compression_mode,CompressionMode::CasePreserving\) not in \[0\]$', x) for x in g)
        R.require(ok, 'case-preserving', '%s|hinted-emit#%d' % (fn.gpath, k), fn.where(b), 'a hint is turned into a pointer only outside case-preserving mode',
                  'a compression pointer is emitted from a hint in case-preserving mode: the hinted prior name is only guaranteed equal ignoring case, so the decoded name may differ in case from the name given')
    R.floor('case-preserving', 4)


def check_pointer_14bit(R, F, rule):
    """A pointer is written as 0xc000 | p: p must fit in 14 bits or the OR corrupts the two marker bits and the pointer
    decodes to another offset.  HintPointer::new is the only constructor; it must answer Some only for p <= 16383."""
    hp = F.fn('message::writer::HintPointer::new')
    somes = [b for b, bl in enumerate(hp.blocks) for st in bl['stmts'] if st['k'] == 'assign' and st['lhs']['l'] == 0 and st['rv']['k'] == 'agg' and st['rv']['def'].endswith('Option::Some')]
    g = paths.dom_guards(hp, somes[0]) if len(somes) == 1 else []
    ok = any(re.match(r'^(Le\(arg1,(16383_usize|constants::POINTER_MAX)\) not in \[0\]|Gt\(arg1,16383_usize\) in \[0\]|Lt\(arg1,16384_usize\) not in \[0\])$', x) for x in g)
    R.require(ok, rule, hp.gpath + '|14-bit', hp.where(), 'HintPointer::new accepts only offsets <= 16383', 'HintPointer::new returns Some under %s' % g)


def check(R, F):
    # ---- (a)
    comp = F.fn(rt.COMPONENTS)
    tab, _ = rt.extract(comp)
    if tab is None:
        R.bad('classification', rt.COMPONENTS, comp.where(), 'cannot extract the dispatch table (fails closed)')
    else:
        for key in sorted((k for k in tab if k[0] != '_'), key=str):
            eff = tab[key][0] if tab[key] else None
            f = None
            if eff:
                cands = [g for g in F.fns if g.endswith('::' + eff.split('::')[-1]) and 'rr::rdata' in g]
                f = F.fns[cands[0]] if len(cands) == 1 else None
            got = component_types(f) if f is not None else None
            want = SPEC.get(key)
            R.require(want is not None and got == want, 'classification', 'components|%s/%s' % key, f.where() if f else comp.where(), '%s -> %s' % (key, got),
                      'RDATA of (type %s, class %s) is decomposed as %s; the RFCs prescribe %s (a compressible name where none is allowed would put a pointer into RDATA that receivers do not decompress)' % (key[0], key[1], got, want if want is not None else 'no embedded names'))
        missing = sorted((k for k in SPEC if k not in tab), key=str)
        R.require(not missing, 'classification', 'components|all-name-types-present', comp.where(), 'every name-bearing type has an arm', 'no arm for %s' % missing)
        dflt = tab.get(('_', '*'), [])
        R.require(bool(dflt) and 'for_nameless' in dflt[0], 'classification', 'components|default-nameless', comp.where(), 'all other types carry no names', 'the default arm is %s' % dflt)
        nl = F.fn('rr::rdata::Components::<\'a>::for_nameless')
        R.require(component_types(nl) == [], 'classification', 'components|nameless-empty', nl.where(), 'for_nameless installs no typed components', 'for_nameless installs %s' % component_types(nl))
    nx = F.fn("<rr::rdata::Components<'a> as std::iter::Iterator>::next")
    bn = calls_in(nx, 'rr::rdata::build_name_component')
    flags = {}
    for b, t in bn:
        g = [x for x in paths.dom_guards(nx, b) if re.search(r'discr\(.*\) in \[\d\]$', x)]
        flags[const_name(t['args'][1])] = g[-1] if g else None
    ct = F.struct('rr::rdata::ComponentType')
    names = [v['name'] for v in ct['variants']]
    ok = set(flags) == {'true', 'false'} and (flags['true'] or '').endswith('in [%d]' % names.index(C)) and (flags['false'] or '').endswith('in [%d]' % names.index(U))
    if not ok and len(bn) == 1 and bn[0][1]['args'][1]['k'] != 'const':
        # one shared call whose flag is computed from the variant: compressible = matches!(ty, CompressibleName)
        txt = paths.show_operand(nx, bn[0][1]['args'][1])
        arms = re.findall(r'in \[([\d, ]+)\]', txt) if txt.startswith('true-when{') and 'not in' not in txt else []
        ok = arms == [str(names.index(C))] and 'discr(' in txt
        flags = {'computed': txt}
    R.require(ok, 'classification', nx.gpath + '|flag-by-variant', nx.where(), 'CompressibleName -> compressible = true, UncompressibleName -> false', 'Components::next passes compressible flags %s' % flags)
    bc = F.fn('rr::rdata::build_name_component')
    aggs = {}
    for b, bl in enumerate(bc.blocks):
        for st in bl['stmts']:
            if st['k'] == 'assign' and st['rv']['k'] == 'agg' and 'Component::' in st['rv']['def']:
                aggs[st['rv']['def'].split('::')[-1]] = paths.dom_guards(bc, b)
    ok = 'arg2 not in [0]' in aggs.get(C, []) and 'arg2 in [0]' in aggs.get(U, [])
    R.require(ok, 'classification', bc.gpath, bc.where(), 'compressible flag selects the Component variant', 'build_name_component maps %s' % aggs)
    ar = F.fn(W + 'add_rr')
    cv = [v['name'] for v in F.struct('rr::rdata::Component')['variants']]
    sw = tables.switches(ar, r'^discr\(')
    rows = None
    for b, txt in sw:
        r = tables.table(ar, b)
        if len([x for x in r if not x['otherwise']]) == 3 and any(tables.has_call(x, W + 'write_uncompressed_name') for x in r):
            rows = r
    if rows is None:
        R.bad('classification', W + 'add_rr|component-dispatch', ar.where(), 'cannot find the match on Component in add_rr')
    else:
        ru = tables.row_for(rows, cv.index(U))
        rc = tables.row_for(rows, cv.index(C))
        ro = tables.row_for(rows, cv.index('Other'))
        oku = tables.has_call(ru, W + 'write_uncompressed_name') and not tables.has_call(ru, W + 'write_unhinted_name') and not tables.has_call(ru, W + 'write_hinted_name') and not tables.has_call(ru, W + 'write_compressed_unhinted_name')
        okc = tables.has_call(rc, W + 'write_unhinted_name')
        oko = tables.has_call(ro, W + 'try_push') and not any('write_' in c[0] and 'name' in c[0] for c in ro['calls'])
        R.require(oku and okc and oko, 'classification', W + 'add_rr|component-dispatch', ar.where(), 'uncompressible names are written uncompressed, other octets verbatim', 'add_rr writes UncompressibleName via %s, CompressibleName via %s, Other via %s' % (tables.calls_short(ru), tables.calls_short(rc), tables.calls_short(ro)))
    R.floor('classification', 18)

    # ---- (b) pointer emissions
    emits = []
    news = []
    for gp, fn in F.fns.items():
        if not gp.startswith('message::writer::') or '::tests::' in gp:
            continue
        for b, t in fn.calls():
            n = callee_name(t)
            if n.endswith(W + 'try_push_u16') or n.endswith('try_push_u16'):
                a = paths.show_operand(fn, t['args'][1])
                if a.startswith('BitOr(49152_u16,'):
                    emits.append((fn, b, t, a))
            if n.endswith('message::writer::HintPointer::new'):
                news.append((fn, b, t))
    from qv import origins
    pn = F.maybe('message::writer::PriorName::new')
    pn_ptr_is_arg1 = False
    if pn is not None:
        lits = [st for bl in pn.blocks for st in bl['stmts'] if st['k'] == 'assign' and st['rv']['k'] == 'agg' and st['rv']['def'].endswith('PriorName')]
        pn_ptr_is_arg1 = len(lits) == 1 and dict(zip(lits[0]['rv'].get('fields', []), [paths.show_operand(pn, o) for o in lits[0]['rv']['ops']])).get('pointer') == 'arg1'

    def pointer_sources(fn, b, t):
        """Where the 14-bit value OR-ed with 0xc000 comes from, by provenance: [(source kind, ok)]."""
        sd = fn.single_def(t['args'][1]['pl']['l']) if is_place(t['args'][1]) and not t['args'][1]['pl']['p'] else None
        if not sd or sd[2] != 'assign' or sd[3]['rv']['k'] != 'bin' or sd[3]['rv']['op'] != 'BitOr':
            return [('?', False)]
        x = [o for o in (sd[3]['rv']['a'], sd[3]['rv']['b']) if is_place(o)]
        gd = fn.single_def(x[0]['pl']['l']) if len(x) == 1 and not x[0]['pl']['p'] else None
        if not gd or gd[2] != 'call' or not callee_name(gd[3]).endswith('HintPointer::get') or not is_place(gd[3]['args'][0]):
            return [('?', False)]
        c_ = fn.canon(gd[3]['args'][0]['pl'])
        out = []
        if paths.show_operand(fn, gd[3]['args'][0]).endswith('.prior_pointer'):
            return [('match', True)]          # the prior_pointer of a MatchStart: a match found by the compression scan
        leaves = origins.trace(fn, c_['l'], origins.norm_path(c_['p']), at=(gd[0], None))
        if leaves and all(lf[0] == 'param' for lf in leaves):
            # read straight out of a parameter (self.<anchor>, the hint): the rendered place says which
            leaves = [('rv', b, None, {'k': 'use', 'op': gd[3]['args'][0]})]
        for lf in leaves:
            if lf[0] == 'rv' and lf[3].get('k') == 'use':
                txt = paths.show_operand(fn, lf[3]['op'])
                m = re.match(r'^arg1\.(qname|most_recent_owner|most_recent_name_in_rdata)(@Some\.0(\.pointer|\.0)?)?$', txt)
                if m:
                    # the value is the payload of a stored anchor; it is used only below a test that the Option holding it
                    # (the field itself, or the variable it was copied into) is Some
                    g = paths.dom_guards(fn, b)
                    out.append((m.group(1), any(re.match(r'^discr\((arg1\.%s|var:[^)]*|_\d+)\) (in \[1\]|not in \[0\])$' % m.group(1), x_) for x_ in g)))
                    continue
                m = re.match(r'^arg\d(\.hint)?@Explicit\.0$', txt)
                if m:
                    g = paths.dom_guards(fn, lf[1]) + paths.dom_guards(fn, b)
                    out.append(('explicit', any(re.match(r'^Lt\(cast\(HintPointer::get\(arg\d(\.hint)?@Explicit\.0\)\),arg1\.cursor\) not in \[0\]$', x_) for x_ in g)))
                    continue
                if 'prior_pointer' in txt:
                    out.append(('match', True))
                    continue
                out.append(('?' + txt[:60], False))
            elif lf[0] == 'call' and callee_name(lf[2]).endswith('PriorName::new') and pn_ptr_is_arg1 and lf[3] and lf[3][-1] == ('f', 0) or (lf[0] == 'call' and callee_name(lf[2]).endswith('PriorName::new') and pn_ptr_is_arg1):
                hp_ = paths.show_operand(fn, lf[2]['args'][0])
                g = paths.dom_guards(fn, lf[1])
                out.append(('explicit', re.match(r'^arg\d(\.hint)?@Explicit\.0$', hp_) is not None and any(re.match(r'^Lt\(cast\(HintPointer::get\(arg\d(\.hint)?@Explicit\.0\)\),arg1\.cursor\) not in \[0\]$', x_) for x_ in g)))
            elif lf[0] == 'call' and ('fold' in callee_name(lf[2]) or 'min_by' in callee_name(lf[2])):
                out.append(('match', True))
            elif lf[0] == 'param':
                out.append(('explicit' if False else '?param', False))
            else:
                out.append(('?' + str(lf[0]), False))
        return out or [('?', False)]
    for k, (fn, b, t, a) in enumerate(emits):
        srcs = pointer_sources(fn, b, t)
        names = sorted({s_ for s_, ok_ in srcs})
        R.require(all(ok_ for s_, ok_ in srcs), 'pointer-source', '%s|emit-from-%s#%d' % (fn.gpath, '+'.join(names), k), fn.where(b), 'pointer value comes from the %s anchor(s)' % names,
                  'a pointer is emitted with value %s, which is not (only) a stored HintPointer under its Some test, an explicit hint tested against the cursor, or a match of the scan: %s' % (a, srcs))
    R.require(len(emits) >= 3, 'pointer-source', 'message::writer|emission-sites', '', '%d emission sites' % len(emits), 'found %d pointer emission sites, expected the hinted one(s) and the two of the scan' % len(emits))
    check_pointer_14bit(R, F, 'pointer-source')
    for k, (fn, b, t) in enumerate(news):
        a = paths.show_operand(fn, t['args'][0])
        if a == 'arg1.cursor':
            # the cursor is read before the push that writes the name
            pushes = [pb for pb, pt in fn.calls() if callee_name(pt).endswith(W + 'try_push') and fn.find_path(b, lambda x, pb=pb: x == pb)]
            before = not any(fn.find_path(pb, lambda x: x == b) for pb, pt in fn.calls() if callee_name(pt).endswith(W + 'try_push') or callee_name(pt).endswith('try_push_u16'))
            R.require(bool(pushes) and before, 'pointer-source', '%s|anchor-is-cursor-before-push' % fn.gpath, fn.where(b), 'anchor = cursor before the name is pushed', 'HintPointer::new(cursor) is not taken before the push of the name it anchors')
        else:
            ok = 'pointer' in a and fn.gpath.endswith('write_compressed_unhinted_name')
            R.require(ok, 'pointer-source', '%s|anchor-is-prior-label' % fn.gpath, fn.where(b), 'anchor = position of a label of a prior name', 'HintPointer::new is called with %s' % a)
    wr = effects.writers_of(F, wc.WRITER_TY, kinds=('assign', 'calldest'))
    for f in ('qname', 'most_recent_owner', 'most_recent_name_in_rdata'):
        bad = []
        for gp, blocks in wr.get(f, {}).items():
            fn = F.fns[gp]
            for b in blocks:
                for st in fn.blocks[b]['stmts']:
                    if st['k'] == 'assign' and st['lhs']['p'] and isinstance(st['lhs']['p'][-1], dict) and st['lhs']['p'][-1].get('n') == f:
                        v = paths.show_operand(fn, st['rv']['op']) if st['rv']['k'] == 'use' else st['rv']['k']
                        if not (re.search(r'Writer::write_(hinted|unhinted|uncompressed)_name\(', v) or v.startswith('Option::None') or re.match(r'^var:|^arg1\.', v) or 'with_rollback' in gp or 'saved' in v):
                            bad.append((gp, v))
                t = fn.blocks[b]['term']
                if t['k'] == 'call' and t['dest']['p'] and not callee_name(t).startswith(W + 'write_'):
                    bad.append((gp, callee_name(t)))
        R.require(not bad, 'pointer-source', 'message::writer::Writer.%s|assigned-from-write-results' % f, '', 'anchor assigned only from write_* results (or cleared / restored)', 'anchor %s is assigned from %s' % (f, bad))
    R.floor('pointer-source', 13)

    wc.check_anchor_freshness(R, F)
    # (b') an operation that fails is rolled back *including the anchors*: an anchor left pointing into the rolled-back
    # region would later be emitted as a pointer to octets that another record has overwritten (seed C13-e)
    wc.check_rollback_completeness(R, F, 'rollback')

    # ---- (c) disabled mode
    wcu = W + 'write_compressed_unhinted_name'
    callers_ = [(fn, b) for fn in F.fns.values() if fn.gpath.startswith('message::writer::') for b, t in calls_in(fn, wcu)]
    R.require({fn.gpath for fn, b in callers_} == {W + 'write_hinted_name', W + 'write_unhinted_name'}, 'disabled', wcu + '|callers', '', 'called only by write_hinted_name and write_unhinted_name', 'write_compressed_unhinted_name is called by %s' % sorted({fn.gpath for fn, b in callers_}))
    def not_disabled(g):
        return any(re.match(r'^CompressionMode::eq\(arg1\.compression_mode,CompressionMode::Disabled\) in \[0\]$', x) or re.match(r'^PartialEq::ne\(arg1\.compression_mode,CompressionMode::Disabled\) not in \[0\]$', x) for x in g)
    for k, (fn, b) in enumerate(callers_):
        R.require(not_disabled(paths.dom_guards(fn, b)), 'disabled', '%s|compress-call#%d' % (fn.gpath, k), fn.where(b), 'reached only when compression is not disabled', 'write_compressed_unhinted_name is reachable with compression disabled (guards: %s)' % paths.dom_guards(fn, b)[:3])
    for k, (fn, b, t, a) in enumerate(emits):
        if fn.gpath == wcu:
            continue
        R.require(not_disabled(paths.dom_guards(fn, b)), 'disabled', '%s|emit#%d' % (fn.gpath, k), fn.where(b), 'pointer emitted only when compression is not disabled', 'a pointer can be emitted with compression disabled')
    R.floor('disabled', 10)
    check_case_preserving(R, F)

    # ---- (d) strictly backwards when following pointers
    mv = None
    for c in F.closures_of(wcu):
        for b, bl in enumerate(c.blocks):
            for st in bl['stmts']:
                if st['k'] == 'assign' and st['lhs']['p'] and st['lhs']['p'][0] == 'deref' and st['rv']['k'] == 'use' and c.argc == 2 and 'usize' in c.local_ty(2):
                    g = paths.dom_guards(c, b)
                    if any(re.match(r'^Lt\(var:usize,\(?.*arg2.*\) not in \[0\]$|^Lt\(.*,arg2.*\) not in \[0\]$', x) for x in g) or any(x.startswith('Lt(') and x.endswith('not in [0]') for x in g):
                        mv = (c, b, g)
    R.require(mv is not None, 'backwards', wcu + '|follow-only-smaller-pointer', F.fn(wcu).where(), 'a compression pointer in a prior name is followed only if it is strictly smaller than the current position', 'cannot find the strictly-smaller test guarding the pointer jump in move_to_next_real_label')
