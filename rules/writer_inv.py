"""The Writer's cursor/limit invariant: established, and re-established by every single store (strong invariant).

    12 <= rr_start <= cursor <= available <= limit <= len(octets)

Used by C01 (no panic in the writer), C04 (the finished length never exceeds the limit) and C12 (no overrun)."""
import re

from qv.facts import callee_name, const_int, is_place
from qv import paths, effects
from qv.bounds import Analyzer, lin, add, le
from qv.rulelib import W, calls_in, succeeded_before
from rules import e5
from rules import writer_common as wc

WTY = 'message::writer::Writer'
FIELDS = ('cursor', 'available', 'limit', 'rr_start')


def terms(sp):
    L = lin('len:(*%s.octets)' % sp)
    C, A, Li, RS = (lin('P:%s.%s' % (sp, f)) for f in FIELDS)
    return [(lin(c=12), RS, '12 <= rr_start'), (RS, C, 'rr_start <= cursor'), (C, A, 'cursor <= available'), (A, Li, 'available <= limit'), (Li, L, 'limit <= len(octets)')]


def install(F, S):
    """Effects of the closures ever passed to with_rollback, for the indirect call inside it."""
    clos = [c.gpath for p, c in wc.rollback_closures(F)]
    tw = effects.transitive_writes(F, clos) if clos else {}
    S.indirect_writes = getattr(S, 'indirect_writes', {})
    S.indirect_writes[W + 'with_rollback'] = set(tw.keys())
    return S


def reservation_premise(F, fn, b):
    """finish_with_mac gives back exactly what set_edns / set_tsig reserved (available + reservations <= limit):
    set_edns subtracts 11 under cursor + 11 <= available and records Some(edns); set_tsig subtracts reserved_len under
    cursor + reserved_len <= available and records it; both refuse a second call; nothing else lowers `available`
    except set_limit, which moves limit by the same amount; finish adds 11 only under Some(edns) and reserved_len only for
    the Tsig it takes."""
    fin = F.fn(W + 'finish_with_mac')
    stores = [(bb, i, st) for f_, bb, i, st in e5.field_stores(F, WTY, 'available', scope=lambda g: g.gpath == fin.gpath)]
    shapes = sorted(paths.show_operand(fin, st['rv']['op']) for bb, i, st in stores)
    # the second amount is the reserved_len of the very Tsig value taken out of self.tsig (unpacked by `if let` or `?`)
    ok_shapes = len(shapes) == 2 and shapes[0] == 'Add(arg1.available,11_usize)' and re.match(r'^Add\(arg1\.available,(Option<T>::branch\()?Option::take\(arg1\.tsig\)\)?@(Some|Continue)\.0\.reserved_len\)$', shapes[1]) is not None
    g_ok = True
    for bb, i, st in stores:
        g = paths.dom_guards(fin, bb)
        txt = paths.show_operand(fin, st['rv']['op'])
        if txt.endswith('11_usize)'):
            g_ok = g_ok and any(re.match(r'^discr\(arg1\.edns\) in \[1\]$', x) for x in g)
        else:
            g_ok = g_ok and succeeded_before(fin, bb, lambda t: callee_name(t) == 'std::option::Option::<T>::take' and paths.show_operand(fin, t['args'][0]) == 'arg1.tsig')
    se, stg = F.fn(W + 'set_edns'), F.fn(W + 'set_tsig')
    def reserve_ok(fn2, amount_rx, field):
        ss = [(bb, i, st) for f_, bb, i, st in e5.field_stores(F, WTY, 'available', scope=lambda g: g.gpath == fn2.gpath)]
        if len(ss) != 1:
            return False
        bb, i, st = ss[0]
        g = paths.dom_guards(fn2, bb)
        return re.match(amount_rx, paths.show_operand(fn2, st['rv']['op'])) is not None and any(re.match(r'^Option::is_some\(arg1\.%s\) in \[0\]$' % field, x) for x in g)
    r1 = reserve_ok(se, r'^Sub\(arg1\.available,11_usize\)$', 'edns')
    r2 = reserve_ok(stg, r'^Sub\(arg1\.available,var:usize\)$', 'tsig')
    # who else writes `available`, `edns`, `tsig`
    wr = effects.writers_of(F, WTY, kinds=('assign', 'calldest'))
    av = sorted(g for g in wr.get('available', {}) if '::tests::' not in g)
    ed = sorted(g for g in wr.get('edns', {}) if '::tests::' not in g)
    ts = sorted(g for g in wr.get('tsig', {}) if '::tests::' not in g)
    who = av == sorted([W + 'finish_with_mac', W + 'set_edns', W + 'set_limit', W + 'set_tsig']) and ed == [W + 'set_edns'] and set(ts) <= {W + 'set_tsig', W + 'finish_with_mac'}
    return ok_shapes and g_ok and r1 and r2 and who, 'finish adds %s under Some(edns)/taken Tsig: %s; set_edns reserves 11 once: %s; set_tsig reserves reserved_len once: %s; writers of available %s' % (shapes, g_ok, r1, r2, [x.split('::')[-1] for x in av])


def paired_store_premise(F, fn, b):
    """set_limit (shrinking): `limit` is lowered first and `available` by the same amount in the next statements; no
    call lies between the two stores, and the pair is verified at the second store."""
    av = [(bb, i) for f_, bb, i, st in e5.field_stores(F, WTY, 'available', scope=lambda g: g.gpath == fn.gpath) if fn.dominates(b, bb) and bb != b or bb == b]
    nxt = [bb for bb, i in av if fn.find_path(b, lambda x, bb=bb: x == bb)]
    if not nxt:
        return False, 'no following store to available'
    tgt = nxt[-1]
    p = fn.find_path(b, lambda x: x == tgt)
    calls = [x for x in (p or []) if fn.blocks[x]['term']['k'] == 'call' and x != tgt]
    return bool(p) and not calls, 'the next store to available follows with no call in between (%s)' % paths.fmt_path(fn, p or [])


STORE_EXCEPTIONS = {
    (W + 'finish_with_mac', 'available', '*'): ('reservation accounting', reservation_premise),
}


def check(R, F, S, rule='writer-invariant'):
    install(F, S)
    # who writes the fields at all
    wr = effects.writers_of(F, WTY)
    outside = sorted({g for f in FIELDS + ('octets',) for g in wr.get(f, {}) if not g.startswith('message::writer::') and '::tests::' not in g})
    R.require(not outside, rule, WTY + '|fields-private-to-module', '', 'only message::writer writes %s' % list(FIELDS), 'Writer bookkeeping fields are written outside message::writer: %s' % outside)
    # establishment: Writer::new (the only constructor the server uses; templates are outside the claim)
    lits = [(fn, b, i, st) for fn, b, i, st in e5.struct_literals(F, WTY)]
    names = sorted(l[0].gpath for l in lits)
    R.require(names == sorted([W + 'new', W + 'try_from_template_impl']), rule, WTY + '|constructors', '', 'Writer is built by Writer::new and from templates only', 'Writer literals in %s' % names)
    for fn, b, i, st in lits:
        if fn.gpath != W + 'new':
            continue
        an = Analyzer(fn, F, S)
        an._site = (b, i)
        ops = dict(zip(st['rv']['fields'], st['rv']['ops']))
        L = e5._len_of_arg(an, ops['octets'])
        vals = {f: an.ev_op(ops[f]) for f in FIELDS}
        ok = L is not None and all(v is not None for v in vals.values())
        unmet = 'operands not linear'
        if ok:
            goals = [le(lin(c=12), vals['rr_start']), le(vals['rr_start'], vals['cursor']), le(vals['cursor'], vals['available']), le(vals['available'], vals['limit']), le(vals['limit'], L)]
            ok, unmet = e5.prove_at(an, b, i, goals)
        R.require(ok, rule, '%s|established@%s' % (WTY, fn.gpath), fn.where(b), 'Writer::new establishes 12 <= rr_start <= cursor <= available <= limit <= len(octets)', 'Writer::new does not establish the invariant: ' + unmet)
    n = e5.check_store_preserves(R, F, S, rule, WTY, terms, FIELDS, exceptions=STORE_EXCEPTIONS, scope=lambda g: g.gpath != W + 'try_from_template_impl')
    R.floor(rule, 14, '13 stores + constructor')
    return n
