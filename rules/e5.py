"""E5 driver: panic-freedom obligations, summaries (postconditions, preconditions, invariants), pattern dischargers (T1)
and justified exceptions with machine-checked premises (T3).  Used by C01, C14, C15, C18."""
import re

from qv.facts import callee_name, const_int, const_name, is_place, place_str
from qv import paths, panics
from qv.bounds import Analyzer, Summary, lin, add, le, lt, eq, scale, fmt, is_const, cval, UMAX, entails
from qv.effects import strip_ty

RANGE_RE = re.compile(r'(Index<I>|IndexMut<I>)(>| for )')


# ------------------------------------------------------------------ summaries
def make_summary(F):
    S = Summary()
    S.post['__site_hooks__'] = [post_facts]
    S.posttab = POSTS
    S.pre.update({k: v for k, v in PRES.items()})
    install_pres(S)
    S.inv.update(INVS)
    S.strong_inv = set(INVS)
    return S


def _len_of_arg(an, a):
    if not is_place(a):
        return None
    return lin(an.atom_len({'l': a['pl']['l'], 'p': a['pl']['p'] + ['deref'], 'ty': ''}))


def origin_call(an, l, depth=0):
    """Trace local l back through Try::branch / map_err / or / ok_or / moves to the producing call: (block, term)."""
    fn = an.fn
    if depth > 8:
        return None
    sd = fn.single_def(l)
    if not sd:
        return None
    b, i, kind, node = sd
    if kind == 'call':
        n = callee_name(node)
        if n.endswith('Try>::branch') or n.endswith('::map_err') or n.endswith('Result::<T, E>::or') or n.endswith('::ok_or') or n.endswith('Option::<T>::ok_or') or n == 'std::result::Result::<T, E>::ok':
            a = node['args'][0]
            if is_place(a) and not a['pl']['p']:
                r = origin_call(an, a['pl']['l'], depth + 1)
                return r
            return None
        return (b, node)
    rv = node['rv']
    if rv['k'] == 'use' and is_place(rv['op']) and not rv['op']['pl']['p']:
        return origin_call(an, rv['op']['pl']['l'], depth + 1)
    return None


def success_payload(an, l):
    """Canonical payload place string of the success variant of the Result/Option/ControlFlow held in local l."""
    ty = an.fn.local_ty(l)
    if 'ControlFlow' in ty:
        return '(_%d as Continue).0' % l
    if ty.startswith('std::result::Result'):
        return '(_%d as Ok).0' % l
    if ty.startswith('std::option::Option'):
        return '(_%d as Some).0' % l
    return None


# ---- failure postconditions: what must have been the case for a call to return its failure variant
def fail_get(an, cb, t):
    base, rng = t['args'][0], t['args'][1]
    L = _len_of_arg(an, base)
    if L is None:
        return None
    if is_place(rng):
        agg = an._range_agg(rng)
        if agg:
            kind, ops = agg
            if kind == 'RangeFrom':
                return [[lt(L, ops[0])]]
            if kind == 'Range':
                return [[lt(ops[1], ops[0])], [lt(L, ops[1])]]
            if kind == 'RangeTo':
                return [[lt(L, ops[0])]]
            return None
    ix = an.ev_op(rng)
    ty = (rng['pl'].get('ty') or an.fn.local_ty(rng['pl']['l'])) if is_place(rng) else rng.get('ty', '')
    if ix is not None and ty == 'usize':
        return [[le(L, ix)]]
    return None


def fail_try_into_array(an, cb, t):
    # <&[T] as TryInto<&[T; N]>>::try_into fails exactly when the slice length is not N
    fn = an.fn
    m = re.search(r'Result<&\[[^;\]]+; (\d+)\]', fn.local_ty(t['dest']['l']) if not t['dest']['p'] else '')
    a = t['args'][0]
    if not m or not is_place(a) or not fn.local_ty(a['pl']['l']).startswith('&['):
        return None
    L = _len_of_arg(an, a)
    n = int(m.group(1))
    return [[le(L, lin(c=n - 1))], [le(lin(c=n + 1), L)]]


def fail_checked(op, ty):
    def f(an, cb, t):
        a, b = an.ev_op(t['args'][0]), an.ev_op(t['args'][1])
        if a is None or b is None:
            return None
        from qv.bounds import UMAX
        return [[lt(lin(c=UMAX[ty]), add(a, b))]] if op == 'add' else [[lt(a, b)]]
    return f


FAILS = {
    'core::slice::<impl [T]>::get': fail_get,
    '<T as std::convert::TryInto<U>>::try_into': fail_try_into_array,
}
for _ty in ('u8', 'u16', 'u32', 'u64', 'usize'):
    FAILS['core::num::<impl %s>::checked_add' % _ty] = fail_checked('add', _ty)
    FAILS['core::num::<impl %s>::checked_sub' % _ty] = fail_checked('sub', _ty)


def fail_alternatives(an, site_block, site_idx):
    """For every branch edge dominating the site that selects the FAILURE variant (None / Err / Break) of a value produced
    (through `?`, .ok(), map_err, ok_or, moves) by a call with a known failure postcondition: the disjunction of reasons
    that call can have failed.  -> [(description, [fact list, ...])]; an edge whose call is not understood contributes
    nothing (the caller then knows less, never something false)."""
    fn = an.fn
    out = []
    for s in fn.doms(site_block):
        preds = [p for p in fn.preds()[s] if p in fn.idom() and not fn.dominates(s, p)]
        if len(preds) != 1:
            continue
        p = preds[0]
        t = fn.blocks[p]['term']
        if t['k'] != 'switch' or not is_place(t['op']) or t['op']['pl']['p']:
            continue
        sd = fn.single_def(t['op']['pl']['l'])
        if not sd or sd[2] != 'assign' or sd[3]['rv']['k'] != 'discr' or sd[3]['rv']['pl']['p']:
            continue
        bl = sd[3]['rv']['pl']['l']
        ty = fn.local_ty(bl)
        if not ty.startswith(('std::option::Option', 'std::result::Result', 'std::ops::ControlFlow')):
            continue
        fail = 0 if ty.startswith('std::option::Option') else 1
        vals = [v for v, tb in t['targets'] if tb == s]
        if vals != [fail] and not (t['otherwise'] == s and not vals and sorted(v for v, tb in t['targets']) == [1 - fail]):
            continue
        oc = origin_call(an, bl)
        if not oc:
            continue
        cb, ct = oc
        f = FAILS.get(callee_name(ct))
        if not f:
            continue
        saved = getattr(an, '_site', None)
        an._site = (cb, None)
        try:
            alts = f(an, cb, ct)
        finally:
            an._site = saved
        if not alts:
            continue
        atoms = set()
        for alt in alts:
            for c in alt:
                atoms |= an.mutable_atoms(c) | {a for a in c if a.startswith(('P:', 'len:'))}
        if atoms and not an.stable_between(atoms, ('def', cb, None), (site_block, site_idx)):
            continue
        out.append(('%s failed' % callee_name(ct).split('::')[-1], alts))
    return out


def post_facts(an, site_block, site_idx):
    """F4: postconditions of calls whose *success edge* dominates the site."""
    fn = an.fn
    out = []
    for s in fn.doms(site_block):
        preds = [p for p in fn.preds()[s] if p in fn.idom() and not fn.dominates(s, p)]
        if len(preds) != 1:
            continue
        p = preds[0]
        t = fn.blocks[p]['term']
        if t['k'] != 'switch' or not is_place(t['op']) or t['op']['pl']['p']:
            continue
        sd = fn.single_def(t['op']['pl']['l'])
        if not sd or sd[2] != 'assign' or sd[3]['rv']['k'] != 'discr':
            continue
        dpl = sd[3]['rv']['pl']
        if dpl['p']:
            continue
        bl = dpl['l']
        vals = [v for v, tb in t['targets'] if tb == s]
        ty = fn.local_ty(bl)
        # success variant index: ControlFlow::Continue = 0, Result::Ok = 0, Option::Some = 1
        succ = 1 if ty.startswith('std::option::Option') else 0
        if vals != [succ] and not (t['otherwise'] == s and not vals and sorted(v for v, tb in t['targets']) == [1 - succ] and ty.startswith(('std::option::Option', 'std::result::Result', 'std::ops::ControlFlow'))):
            continue
        oc = origin_call(an, bl)
        if not oc:
            continue
        cb, ct = oc
        n = callee_name(ct)
        f = POSTS.get(n)
        if not f:
            continue
        pay = success_payload(an, bl)
        if not pay:
            continue
        cs = f(an, cb, ct, 'P:' + pay) or []
        atoms = set()
        for c in cs:
            atoms |= an.mutable_atoms(c)
        atoms = {a for a in atoms if pay not in a}        # facts *about* the payload are not invalidated by the binding that creates it
        if atoms and not an.stable_between(atoms, ('def', cb, None), (site_block, site_idx)):
            continue
        out.extend(cs)
    # unconditional postconditions (the call cannot fail): results of calls dominating the site
    for b, t in fn.calls():
        if b == site_block or t['t'] is None or not fn.dominates(t['t'], site_block):
            continue
        f = POSTS_TOTAL.get(callee_name(t))
        if not f or t['dest']['p'] or an.multi_def(t['dest']['l']):
            continue
        cs = f(an, b, t, 'L%d' % t['dest']['l']) or []
        atoms = set()
        for c in cs:
            atoms |= an.mutable_atoms(c)
        if atoms and not an.stable_between(atoms, ('def', b, None), (site_block, site_idx)):
            continue
        out.extend(cs)
    return out


# ---- postconditions on success payloads.  Each is itself verified (see check_summaries).
def post_parse_name(an, cb, t, pay):
    # Ok((name, n)): start + n <= len(octets), 1 <= n
    L = _len_of_arg(an, t['args'][0])
    n = lin(pay + '.1')
    out = [le(lin(c=1), n)]
    if len(t['args']) > 1:
        st = an.ev_op(t['args'][1])
        if L is not None and st is not None:
            out.append(le(add(st, n), L))
    elif L is not None:
        out.append(le(n, L))
    return out


def post_skip_compressed(an, cb, t, pay):
    L = _len_of_arg(an, t['args'][0])
    n = lin(pay)
    return [le(lin(c=1), n), le(n, add(L, lin(c=1)))] if L is not None else []


def post_validate_uncompressed(an, cb, t, pay):
    L = _len_of_arg(an, t['args'][0])
    n = lin(pay)
    return [le(lin(c=1), n), le(n, L), le(n, lin(c=255))] if L is not None else []


def post_read_u(k):
    def f(an, cb, t, pay):
        L = _len_of_arg(an, t['args'][0])
        return [le(lin(c=k), L)] if L is not None else []
    return f


def post_get_range(an, cb, t, pay):
    """slice.get(range) == Some(s): the range is within bounds and len(s) is its width."""
    base, rng = t['args'][0], t['args'][1]
    L = _len_of_arg(an, base)
    if L is None:
        return []
    rty = (rng['pl'].get('ty') or an.fn.local_ty(rng['pl']['l'])) if is_place(rng) else rng.get('ty', '')
    if rty == 'usize':
        # slice.get(i) == Some(_): i < len
        ix = an.ev_op(rng)
        return [lt(ix, L)] if ix is not None else []
    if not is_place(rng):
        return []
    agg = an._range_agg(rng)
    if not agg:
        return []
    kind, ops = agg
    Ld = lin('len:(*%s)' % pay[2:])
    if kind == 'RangeFrom':
        return eq(add(Ld, ops[0]), L) + [le(ops[0], L)]
    if kind == 'Range':
        return eq(add(Ld, ops[0]), ops[1]) + [le(ops[0], ops[1]), le(ops[1], L)]
    if kind == 'RangeTo':
        return eq(Ld, ops[0]) + [le(ops[0], L)]
    return []


def post_prepare_to_read(an, cb, t, pay):
    # Ok(buf): len(buf) = cursor + rdlength, len(buf) <= len(message)
    L = _len_of_arg(an, t['args'][0])
    cur = an.ev_op(t['args'][1])
    rd = an.ev_op(t['args'][2])
    Lb = lin('len:(*%s)' % pay[2:])
    if L is None or cur is None or rd is None:
        return []
    return eq(Lb, add(cur, rd)) + [le(Lb, L)]


def post_checked_sub(an, cb, t, pay):
    a = an.ev_op(t['args'][0])
    b = an.ev_op(t['args'][1])
    if a is None or b is None:
        return []
    return eq(lin(pay), add(a, b, -1)) + [le(b, a)]


def post_checked_add(an, cb, t, pay):
    a = an.ev_op(t['args'][0])
    b = an.ev_op(t['args'][1])
    if a is None or b is None:
        return []
    return eq(lin(pay), add(a, b))


def post_parse_pointer(an, cb, t, pay):
    # Ok(p): index + 2 <= len(octets), p < chunk_start
    L = _len_of_arg(an, t['args'][0])
    cs = an.ev_op(t['args'][1])
    ix = an.ev_op(t['args'][2])
    out = []
    if L is not None and ix is not None:
        out.append(le(add(ix, lin(c=2)), L))
    if cs is not None:
        out.append(lt(lin(pay), cs))
    return out


def post_rdata_read(an, cb, t, pay):
    # Rdata::read(class, type, message, cursor, rdlength) = Ok(_)  =>  cursor + rdlength <= len(message)
    L = _len_of_arg(an, t['args'][2])
    cur = an.ev_op(t['args'][3])
    rd = an.ev_op(t['args'][4])
    if L is None or cur is None or rd is None:
        return []
    return [le(add(cur, rd), L)]


def post_counted_prefix(minimum):
    def f(an, cb, t, pay):
        # Ok(n): minimum <= n <= len(octets)
        L = _len_of_arg(an, t['args'][0])
        n = lin(pay)
        return [le(lin(c=minimum), n), le(n, L)] if L is not None else []
    return f


def post_range_next(an, cb, t, pay):
    # `for i in a..b`: Some(i) => a <= i < b
    fn = an.fn
    a = t['args'][0]
    if not is_place(a):
        return []
    base = fn.canon({'l': a['pl']['l'], 'p': a['pl']['p'] + ['deref'], 'ty': ''})
    if base['p']:
        return []
    sd = fn.single_def(base['l'])
    if not sd or sd[2] != 'call' or not callee_name(sd[3]).endswith('IntoIterator>::into_iter') or not is_place(sd[3]['args'][0]):
        return []
    agg = an._range_agg(sd[3]['args'][0])
    if not agg or agg[0] != 'Range':
        return []
    start, end = agg[1]
    return [lt(lin(pay), end), le(start, lin(pay))]


POSTS = {
    'core::iter::range::<impl std::iter::Iterator for std::ops::Range<A>>::next': post_range_next,
    'std::iter::range::<impl std::iter::Iterator for std::ops::Range<A>>::next': post_range_next,
    'rr::rdata::std13::validate_character_string': post_counted_prefix(1),
    'rr::rdata::opt::validate_option': post_counted_prefix(4),
    'rr::rdata::Rdata::read': post_rdata_read,
    'name::wire::parse_pointer': post_parse_pointer,
    'name::Name::try_from_compressed': post_parse_name,
    'name::wire::parse_compressed_name': post_parse_name,
    'name::Name::try_from_uncompressed': post_parse_name,
    'name::Name::skip_compressed': post_skip_compressed,
    'name::wire::skip_compressed_name': post_skip_compressed,
    'name::Name::validate_uncompressed': post_validate_uncompressed,
    'name::wire::validate_uncompressed_name': post_validate_uncompressed,
    'message::reader::read_u16': post_read_u(2),
    'message::reader::read_u32': post_read_u(4),
    'core::slice::<impl [T]>::get': post_get_range,
    'rr::rdata::helpers::prepare_to_read_rdata': post_prepare_to_read,
    'core::num::<impl usize>::checked_sub': post_checked_sub,
    'core::num::<impl usize>::checked_add': post_checked_add,
}


def tot_wire_repr(an, b, t, res):
    # len(name.wire_repr()) in 1..=255
    L = lin('len:(*_%d)' % t['dest']['l'])
    return [le(lin(c=1), L), le(L, lin(c=255))]


def tot_rdata_octets(an, b, t, res):
    L = lin('len:(*_%d)' % t['dest']['l'])
    out = [le(L, lin(c=65535))]
    a = t['args'][0]
    if is_place(a):
        src = lin('len:%s.octets' % an.fn.canon_str({'l': a['pl']['l'], 'p': a['pl']['p'] + ['deref'], 'ty': ''}))
        out += eq(L, src)
    return out


def tot_min(an, b, t, res):
    a = an.ev_op(t['args'][0])
    c = an.ev_op(t['args'][1])
    r = lin(res)
    out = []
    if a is not None:
        out.append(le(r, a))
    if c is not None:
        out.append(le(r, c))
    return out


def tot_max(an, b, t, res):
    a = an.ev_op(t['args'][0])
    c = an.ev_op(t['args'][1])
    r = lin(res)
    out = []
    if a is not None:
        out.append(le(a, r))
    if c is not None:
        out.append(le(c, r))
    return out


def tot_saturating_sub(an, b, t, res):
    a = an.ev_op(t['args'][0])
    return [le(lin(res), a)] if a is not None else []


def tot_tsig_len(bound):
    def f(an, b, t, res):
        return [le(lin(res), lin(c=bound))]
    return f


def tot_split_at(an, b, t, res):
    # (a, b) = s.split_at(mid)  (returns only if mid <= len(s)):  len(a) = mid, len(a) + len(b) = len(s)
    L = _len_of_arg(an, t['args'][0])
    mid = an.ev_op(t['args'][1])
    if L is None or mid is None or t['dest']['p']:
        return []
    d = t['dest']['l']
    la = lin(an.atom_len({'l': d, 'p': [{'f': 0, 'n': '0', 'ty': ''}, 'deref'], 'ty': ''}))
    lb = lin(an.atom_len({'l': d, 'p': [{'f': 1, 'n': '1', 'ty': ''}, 'deref'], 'ty': ''}))
    return eq(la, mid) + eq(add(la, lb), L) + [le(mid, L)]


POSTS_TOTAL = {
    'core::slice::<impl [T]>::split_at': tot_split_at,
    'message::tsig::PreparedTsigRr::unsigned_len': tot_tsig_len(255 + 255 + 26 + 6),
    'message::tsig::PreparedTsigRr::signed_len': tot_tsig_len(255 + 255 + 26 + 6 + 64),
    'name::Name::wire_repr': tot_wire_repr,
    'rr::rdata::Rdata::octets': tot_rdata_octets,
    'std::cmp::Ord::min': tot_min, 'core::cmp::Ord::min': tot_min, 'std::cmp::min': tot_min,
    'std::cmp::Ord::max': tot_max, 'core::cmp::Ord::max': tot_max, 'std::cmp::max': tot_max,
    'core::num::<impl usize>::saturating_sub': tot_saturating_sub,
}

# ---- preconditions (assumed inside the function, checked at every call site)
PRES = {}

# ---- struct invariants


def inv_reader(an, sp):
    L = 'len:(*%s.octets)' % sp
    C = 'P:%s.cursor' % sp
    M = 'P:(%s.mark as Some).0' % sp
    return [le(lin(c=12), lin(L)), le(lin(C), lin(L)), le(lin(M), lin(L))], {C: 'cursor'}


def inv_peek(an, sp):
    L = 'len:(*(*%s.reader).octets)' % sp
    OE = 'P:%s.owner_end' % sp
    RE = 'P:%s.rr_end' % sp
    CU = 'P:(*%s.reader).cursor' % sp
    return [le(add(lin(OE), lin(c=10)), lin(RE)), le(lin(RE), lin(L)), le(lin(c=12), lin(L)), le(lin(CU), lin(OE))], {OE: 'owner_end', RE: 'rr_end'}


def inv_writer(an, sp):
    L = lin('len:(*%s.octets)' % sp)
    C, A, Li, RS = (lin('P:%s.%s' % (sp, f)) for f in ('cursor', 'available', 'limit', 'rr_start'))
    return [le(lin(c=12), RS), le(RS, C), le(C, A), le(A, Li), le(Li, L)], {}


INVS = {
    'message::writer::Writer': inv_writer,
    'message::reader::Reader': inv_reader,
    'message::reader::PeekRr': inv_peek,
}


# ------------------------------------------------------------------ obligations
def range_goals(an, t):
    base, rng = t['args'][0], t['args'][1]
    if not is_place(base) or not is_place(rng):
        return None
    L = _len_of_arg(an, base)
    agg = an._range_agg(rng)
    if L is None or not agg:
        return None
    kind, ops = agg
    if kind == 'RangeFrom':
        return [le(ops[0], L)]
    if kind == 'RangeTo':
        return [le(ops[0], L)]
    if kind == 'Range':
        return [le(ops[0], ops[1]), le(ops[1], L)]
    if kind == 'RangeFull':
        return []
    return None


def goals_for(an, b, kind):
    fn = an.fn
    t = fn.blocks[b]['term']
    an._site = (b, None)
    if kind == 'index':
        ln = an.ev_op(t['ops'][0])
        ix = an.ev_op(t['ops'][1])
        if ln is None or ix is None:
            return None
        return [lt(ix, ln)]
    if kind.startswith('overflow-'):
        op = kind.split('-', 1)[1]
        a = an.ev_op(t['ops'][0])
        c = an.ev_op(t['ops'][1])
        ty = None
        for o in t['ops']:
            if is_place(o):
                ty = o['pl'].get('ty') or fn.local_ty(o['pl']['l'])
            elif o['k'] == 'const' and ty is None:
                ty = o.get('ty')
        if op in ('shl', 'shr'):
            # `assert(cond)` where cond = Lt(shift, bits): evaluate
            cond = t['cond']
            sd = fn.single_def(cond['pl']['l']) if is_place(cond) else None
            if sd and sd[2] == 'assign' and sd[3]['rv']['k'] == 'bin' and sd[3]['rv']['op'] == 'Lt':
                x = an.ev_op(sd[3]['rv']['a'])
                y = an.ev_op(sd[3]['rv']['b'])
                if x is not None and y is not None:
                    return [lt(x, y)]
            return None
        if a is None or c is None or ty not in UMAX:
            return None
        if op == 'add':
            return [le(add(a, c), lin(c=UMAX[ty]))]
        if op == 'sub':
            return [le(c, a)]
        if op == 'mul':
            if is_const(a):
                return [le(scale(c, cval(a)), lin(c=UMAX[ty]))]
            if is_const(c):
                return [le(scale(a, cval(c)), lin(c=UMAX[ty]))]
            return None
    if kind == 'range-index':
        return range_goals(an, t)
    if kind == 'div-zero':
        d = an.ev_op(t['ops'][0])
        return [le(lin(c=1), d)] if d is not None else None
    return None


# ------------------------------------------------------------------ T1 pattern dischargers for unwrap/expect and calls
def t1_unwrap(an, b, F):
    """Returns (ok, reason) if a structural pattern shows the unwrap/expect cannot fail, else None."""
    fn = an.fn
    t = fn.blocks[b]['term']
    a = t['args'][0]
    if not is_place(a) or a['pl']['p']:
        return None
    oc = origin_call(an, a['pl']['l'])
    txt = paths.show_operand(fn, a)
    if oc:
        cb, ct = oc
        n = callee_name(ct)
        # x[a..b].try_into::<[u8; N]>().unwrap(): width of the range is N
        if n.endswith('TryInto<U>>::try_into') or n.endswith('TryFrom<&[T]>>::try_from') or 'try_into' in n or n.endswith('>::try_from'):
            dst_ty = fn.local_ty(ct['dest']['l'])
            m = re.search(r'Result<(?:&)?\[u8; (\d+)\]', dst_ty)
            src = ct['args'][0]
            if m and is_place(src):
                N = int(m.group(1))
                an._site = (cb, None)
                Ls = lin(an.atom_len({'l': src['pl']['l'], 'p': src['pl']['p'] + ['deref'], 'ty': ''}))
                ok, facts, res = an.prove(cb, None, eq(Ls, lin(c=N)))
                if ok:
                    return (True, 'slice of proven length %d converted to [u8; %d]' % (N, N))
                return (False, 'cannot prove that the slice converted to [u8; %d] has exactly that length' % N)
            # <&Rdata>::try_from(slice) / TryFrom for Rdata: Ok iff len <= 65535
            if 'rr::rdata::Rdata' in dst_ty and is_place(src):
                Ls = lin(an.atom_len({'l': src['pl']['l'], 'p': src['pl']['p'] + ['deref'], 'ty': ''}))
                ok, facts, res = an.prove(cb, None, [le(Ls, lin(c=65535))])
                if ok:
                    return (True, 'Rdata::try_from of a slice proven <= 65535 octets')
                return (False, 'cannot prove that the slice converted to Rdata is at most 65535 octets')
        if n in ('std::sync::Mutex::<T>::lock', 'std::sync::RwLock::<T>::read', 'std::sync::RwLock::<T>::write') or 'Condvar::wait' in n:
            return (True, 'lock poisoning only: requires a prior panic while holding the lock, which the property excludes')
    return None


def classify(fn, b, kind, detail):
    return '%s@%s' % (kind, detail if kind in ('unwrap', 'panic', 'foreign') else kind)


# ------------------------------------------------------------------ running over a set of functions
def site_key(fn, b, kind, n):
    return '%s|%s#%d' % (fn.gpath, kind, n)


def run_sites(R, F, fns, rule, exceptions=None, S=None, skip_kinds=()):
    """Evaluate every panic-capable site of the given functions.  exceptions: {(gpath, kind, n): (reason, premise_fn)}."""
    S = S or make_summary(F)
    exceptions = exceptions or {}
    total = 0
    for fn in fns:
        an = Analyzer(fn, F, S)
        counts = {}
        for b, kind, detail in panics.sites(fn):
            if kind in skip_kinds:
                continue
            counts[kind] = counts.get(kind, 0) + 1
            n = counts[kind]
            key = site_key(fn, b, kind, n)
            total += 1
            # exceptions are looked up by (function, site kind); the ordinal only orders the candidates, because ordinals
            # shift when code is added, removed or inlined.  Every premise is site-specific, so a premise that was
            # written for another site of the same kind fails here.
            owner = fn.gpath.split('::{closure')[0]      # a closure may use the exceptions written for its parent
            cands = sorted(((k3, v) for (g3, kk, k3), v in exceptions.items() if g3 in (fn.gpath, owner) and kk == kind), key=lambda kv: (kv[0] != n, str(kv[0])))
            ex = cands[0][1] if cands else None
            goals = goals_for(an, b, kind)
            verdict = None
            why = ''
            if goals is not None:
                ok, facts, res = an.prove(b, None, goals)
                if ok:
                    verdict, why = True, 'entailed: ' + ' ; '.join(fmt(g) + ' <= 0' for g in goals)[:300]
                else:
                    unmet = [fmt(g) + ' <= 0' for g, r in zip(goals, res) if not r]
                    core = [fmt(f) + ' <= 0' for f in facts if not (len([x for x in f if x != '1']) <= 1)]
                    why = 'cannot prove %s from the facts that hold on every path here: %s' % ('; '.join(unmet)[:300], ' & '.join(core)[:600] or '(none)')
            elif kind == 'foreign' and 'copy_from_slice' in detail:
                t_ = fn.blocks[b]['term']
                d_, s_ = t_['args'][0], t_['args'][1]
                if is_place(d_) and is_place(s_):
                    Ld = lin(an.atom_len({'l': d_['pl']['l'], 'p': d_['pl']['p'] + ['deref'], 'ty': ''}))
                    Ls = lin(an.atom_len({'l': s_['pl']['l'], 'p': s_['pl']['p'] + ['deref'], 'ty': ''}))
                    ok, facts, res = an.prove(b, None, eq(Ld, Ls))
                    if ok:
                        verdict, why = True, 'copy_from_slice: destination and source lengths proved equal'
                    else:
                        why = 'cannot prove that copy_from_slice gets slices of equal length'
            elif kind in ('unwrap',):
                r = t1_unwrap(an, b, F)
                if r is not None:
                    verdict, why = r
                else:
                    why = 'no pattern discharges this %s of %s' % (detail, paths.show_operand(fn, fn.blocks[b]['term']['args'][0])[:160])
            else:
                why = 'obligation is not linear / not modelled (%s %s)' % (kind, detail)
            if verdict is not True and ex is not None:
                fails = []
                for _k3, (reason, premise) in cands:
                    try:
                        pok, pdetail = premise(F, fn, b) if premise else (True, '')
                    except Exception as e_:          # a premise written for another site may not even parse this one
                        pok, pdetail = False, 'premise not applicable here (%s)' % type(e_).__name__
                    if pok:
                        verdict, why = True, 'justified exception: %s [premises hold: %s]' % (reason, pdetail)
                        break
                    fails.append('%s (%s)' % (pdetail, reason))
                if verdict is not True:
                    verdict, why = False, 'exception void, premise failed: ' + ' | '.join(fails)[:700]
            R.require(bool(verdict), rule, key, fn.where(b), why, why)
    return total


# ------------------------------------------------------------------ verifying the summaries themselves
from qv import origins


def _len_atom_param(i):
    return lin('len:(*_%d)' % i)


def prove_value(an, leaves, goal_fn, forward_ok=None, use_site=None):
    """Prove goal_fn(value) at every leaf that may have produced the value.  Returns (ok, [detail]).
    If that fails and the value has a single producer stored in a single-assignment local, the bound is also tried at
    `use_site` (block, idx), where later guards on that local are visible."""
    ok, details = _prove_value(an, leaves, goal_fn, forward_ok)
    if ok or use_site is None:
        return ok, details
    fn = an.fn
    rvs = [lf for lf in leaves if lf[0] == 'rv']
    if len(leaves) == 1 and len(rvs) == 1:
        _, b, i, rv = rvs[0]
        sts = fn.blocks[b]['stmts']
        if i < len(sts) and sts[i]['k'] == 'assign' and not sts[i]['lhs']['p'] and fn.single_def(sts[i]['lhs']['l']):
            x = sts[i]['lhs']['l']
            an._site = use_site
            e = an.ev_place({'l': x, 'p': [], 'ty': ''})
            if e is not None:
                good, facts, res = an.prove(use_site[0], use_site[1], goal_fn(e))
                if good:
                    return True, ['proved at the use site for the single producer at %s' % fn.where(b)]
    return ok, details


def _prove_value(an, leaves, goal_fn, forward_ok=None):
    fn = an.fn
    details = []
    ok = True
    if not leaves:
        return False, ['no producing statement found']
    for lf in leaves:
        if lf[0] == 'rv':
            _, b, i, rv = lf
            an._site = (b, i)
            e = an.ev_rv(rv, 0, (b, i))
            if e is None:
                ok = False
                details.append('value computed at %s is not linear' % fn.where(b))
                continue
            goals = goal_fn(e)
            good, facts, res = an.prove(b, i, goals)
            if not good:
                ok = False
                details.append('at %s cannot prove %s' % (fn.where(b), '; '.join(fmt(g) + ' <= 0' for g, r in zip(goals, res) if not r)))
        elif lf[0] == 'const':
            v = const_int(lf[1])
            if v is None or not all(entails([], g) for g in goal_fn(lin(c=v))):
                ok = False
                details.append('constant %s violates the bound' % const_name(lf[1]))
        elif lf[0] == 'call':
            _, b, t, path = lf
            if forward_ok and forward_ok(b, t, path):
                continue
            # value is (a projection of) another call's result: use that callee's postcondition on its success edge
            nxt = t['t']
            pay = 'P:' + place_str({'l': t['dest']['l'], 'p': _denorm(path)})
            f = POSTS.get(callee_name(t))
            cs = (f(an, b, t, 'P:' + place_str({'l': t['dest']['l'], 'p': _denorm(path[:2])})) or []) if f and len(path) >= 2 else []
            e = lin(pay)
            goals = goal_fn(e)
            an._site = (nxt, 0) if nxt is not None else (b, None)
            base = an.facts_at(nxt, 0) if nxt is not None else []
            atoms = set(a for c in base + cs + goals for a in c)
            an._collect_tys(atoms)
            allf = base + cs + an.type_facts(atoms) + an.array_len_facts(atoms)
            if not all(entails(allf, g) for g in goals):
                ok = False
                details.append('value returned by %s at %s: bound not implied by its summary' % (paths.short(callee_name(t)), fn.where(b)))
        elif lf[0] == 'param':
            ok = False
            details.append('value is parameter _%d%s: needs a precondition' % (lf[1], lf[2]))
        else:
            ok = False
            details.append('untraceable: %s' % (lf[1],))
    return ok, details


def _denorm(path):
    out = []
    for p in path:
        if p == 'deref':
            out.append('deref')
        elif p[0] == 'f':
            out.append({'f': p[1], 'n': str(p[1]), 'ty': ''})
        elif p[0] == 'down':
            out.append({'down': p[1], 'n': p[1]})
    return out


def params_immutable(fn, idxs):
    return all(not [d for d in fn.defs().get(i, []) if not fn.blocks[d[0]]['cleanup']] for i in idxs)


def forwards_to(fn, t, callee_suffixes, same_args=True):
    """The call passes this function's own parameters through in order (a thin wrapper)."""
    n = callee_name(t)
    if not any(n.endswith(s) for s in callee_suffixes):
        return False
    for k, a in enumerate(t['args']):
        if a['k'] == 'const':
            continue
        c = fn.canon(a['pl']) if is_place(a) else None
        if c is None:
            return False
        # `&*octets` re-borrows and plain copies of parameter k+1
        sl_ok = (c['l'] == k + 1) or (fn.canon({'l': a['pl']['l'], 'p': a['pl']['p'] + ['deref'], 'ty': ''})['l'] == k + 1)
        if not sl_ok:
            return False
    return True


def _prove_at_returns(an, fn, top, sub, gf):
    variant = top[0][1]
    sites = []
    other = False
    for (b, i, kind, node) in fn.defs().get(0, []):
        if fn.blocks[b]['cleanup']:
            continue
        if kind == 'assign' and node['rv']['k'] == 'agg' and node['rv'].get('ak') == 'adt':
            if node['rv']['def'].endswith('::' + variant):
                sites.append((b, i, node))
            continue
        if kind == 'call' and 'FromResidual' in callee_name(node):
            continue
        other = True
    if other or not sites:
        return 0
    for b, i, node in sites:
        o = node['rv']['ops'][0]
        for p in sub:
            # follow a tuple field through the aggregate that built the payload
            if not is_place(o) or o['pl']['p']:
                return 0
            sd = fn.single_def(o['pl']['l'])
            if not (sd and sd[2] == 'assign' and sd[3]['rv']['k'] == 'agg' and sd[3]['rv'].get('ak') == 'tuple' and p[0] == 'f'):
                return 0
            o = sd[3]['rv']['ops'][p[1]]
        an._site = (b, i)
        e = an.ev_op(o)
        if e is None:
            return 0
        goals = gf(an, e)
        ok, facts, res = an.prove(b, i, goals)
        if not ok:
            return 0
    return len(sites)


def verify_post(R, F, S, rule, gpath, specs, wrapper_of=()):
    """specs: [(payload sub-path, description, goal_fn(an, expr) -> [constraints])].  The bound must hold for the value
    returned in Ok(..) / Some(..) at every success return of gpath."""
    fn = F.fn(gpath)
    an = Analyzer(fn, F, S)
    rty = fn.local_ty(0)
    top = [('down', 'Some'), ('f', 0)] if rty.startswith('std::option::Option') else [('down', 'Ok'), ('f', 0)]
    imm = params_immutable(fn, range(1, fn.argc + 1))
    for sub, desc, gf in specs:
        # first try the success returns themselves: the guards that justify the bound often sit between the statement
        # that computed the value and the return
        direct = _prove_at_returns(an, fn, top, list(sub), gf)
        if direct:
            R.require(True, rule, '%s|post:%s' % (gpath, desc), fn.where(), 'proved at each of the %d success returns: %s' % (direct, desc), '')
            continue
        leaves = origins.trace(fn, 0, top + list(sub))
        ok, det = prove_value(an, leaves, lambda e, gf=gf: gf(an, e), forward_ok=lambda b, t, path: forwards_to(fn, t, wrapper_of))
        R.require(ok and imm, rule, '%s|post:%s' % (gpath, desc), fn.where(), 'every value returned on success satisfies %s (%d producing statements)' % (desc, len(leaves)),
                  'summary "%s" of %s does not hold: %s' % (desc, gpath, '; '.join(det) if det else 'a parameter is reassigned'))


# ------------------------------------------------------------------ declared preconditions
# term := ('arg', i) | ('len', i) (length of the slice passed as argument i) | ('const', c) | ('sum', [terms])
PRE_SPECS = {
    'name::wire::parse_pointer': [('lt', ('arg', 3), ('len', 1), 'index < len(octets)')],
    "message::writer::Writer::<'a>::write_u16": [('le', ('sum', [('arg', 2), ('const', 2)]), ('flen', 1, 'octets'), 'position + 2 <= len(octets)')],
    "message::writer::Writer::<'a>::write": [('le', ('sum', [('arg', 2), ('len', 3)]), ('flen', 1, 'octets'), 'position + len(data) <= len(octets)')],
}


def _term(an, term, call=None):
    k = term[0]
    if k == 'const':
        return lin(c=term[1])
    if k == 'sum':
        e = lin()
        for x in term[1]:
            y = _term(an, x, call)
            if y is None:
                return None
            e = add(e, y)
        return e
    i = term[1]
    if k == 'flen':
        # length of the slice held in field term[2] of the struct that argument i points to
        if call is None:
            return lin('len:(*(*_%d).%s)' % (i, term[2]))
        a = call['args'][i - 1]
        if not is_place(a):
            return None
        return lin('len:(*%s.%s)' % (an.fn.canon_str({'l': a['pl']['l'], 'p': a['pl']['p'] + ['deref'], 'ty': ''}), term[2]))
    if call is None:
        return lin('L%d' % i) if k == 'arg' else lin('len:(*_%d)' % i)
    a = call['args'][i - 1]
    if k == 'arg':
        return an.ev_op(a)
    return _len_of_arg(an, a)


def _rel(kind, a, b):
    return [lt(a, b)] if kind == 'lt' else [le(a, b)]


def install_pres(S):
    for gp, specs in PRE_SPECS.items():
        def mk(specs=specs):
            def f(an):
                out = []
                for kind, ta, tb, _ in specs:
                    a, b = _term(an, ta), _term(an, tb)
                    if a is not None and b is not None:
                        out += _rel(kind, a, b)
                return out
            return f
        S.pre[gp] = mk()


def check_pres(R, F, S, rule, scope=None, only=None):
    """Every call of a function with a declared precondition establishes it (E5 at the call site)."""
    n = 0
    for gp, specs in PRE_SPECS.items():
        if only is not None and gp not in only:
            continue
        for fn in F.fns.values():
            if fn.crate != 'quandary' or '::tests::' in fn.gpath:
                continue
            an = None
            k = 0
            for b, t in fn.calls():
                if callee_name(t) != gp:
                    continue
                k += 1
                n += 1
                an = an or Analyzer(fn, F, S)
                an._site = (b, None)
                for kind, ta, tb, desc in specs:
                    a, c = _term(an, ta, t), _term(an, tb, t)
                    ok = False
                    why = 'operands not linear'
                    if a is not None and c is not None:
                        goals = _rel(kind, a, c)
                        ok, facts, res = an.prove(b, None, goals)
                        why = 'cannot prove %s' % '; '.join(fmt(g) + ' <= 0' for g in goals)
                    R.require(ok, rule, '%s|pre:%s@%s#%d' % (gp, desc, fn.gpath, k), fn.where(b), 'call establishes %s' % desc, 'call of %s does not establish its precondition %s: %s' % (gp, desc, why))
    return n


# ------------------------------------------------------------------ struct invariants: establishment and preservation
def struct_literals(F, sty, scope=None):
    out = []
    for fn in F.fns.values():
        if fn.crate != 'quandary' or '::tests::' in fn.gpath or (scope and not scope(fn)):
            continue
        for b, blk in enumerate(fn.blocks):
            if blk['cleanup']:
                continue
            for i, st in enumerate(blk['stmts']):
                if st['k'] == 'assign' and st['rv']['k'] == 'agg' and st['rv'].get('ak') == 'adt' and st['rv']['def'] == sty:
                    out.append((fn, b, i, st))
    return out


def field_stores(F, sty, field, scope=None):
    """[(fn, block, idx, stmt)] assignments to <sty>.field through any place."""
    from qv import effects
    out = []
    for fn in F.fns.values():
        if fn.crate != 'quandary' or '::tests::' in fn.gpath or (scope and not scope(fn)):
            continue
        for b, blk in enumerate(fn.blocks):
            if blk['cleanup']:
                continue
            for i, st in enumerate(blk['stmts']):
                if st['k'] == 'assign' and st['lhs']['p']:
                    ch = effects.place_field_chain(fn, fn.canon(st['lhs']))
                    if ch and ch[-1] == (sty, field):
                        out.append((fn, b, i, st))
    return out


def prove_at(an, b, i, goals):
    ok, facts, res = an.prove(b, i, goals)
    unmet = '; '.join(fmt(g) + ' <= 0' for g, r in zip(goals, res) if not r)
    return ok, unmet


# ------------------------------------------------------------------ T3 premise: a Vec assembled from bounded pieces
def vec_pieces_bound(F, fn, b, limit=65535):
    """`vec.try_into::<Box<Rdata>>().unwrap()`: the Vec starts empty (Vec::new / with_capacity) and grows only through
    extend_from_slice calls that are not on a cycle; every piece is Name::wire_repr() (<= 255) or a slice whose length
    E5 bounds by a small constant.  The sum of the bounds must not exceed 65535."""
    S = make_summary(F)
    an = Analyzer(fn, F, S)
    t = fn.blocks[b]['term']
    oc = origin_call(an, t['args'][0]['pl']['l'])
    if not oc:
        return False, 'no producing conversion'
    cb, ct = oc
    src = ct['args'][0]
    if not is_place(src):
        return False, 'conversion source is not a place'
    v = fn.canon(src['pl'])['l']
    if not fn.local_ty(v).startswith('std::vec::Vec<u8>'):
        return False, 'conversion source is %s, not a Vec<u8>' % fn.local_ty(v)
    defs = [d for d in fn.defs().get(v, []) if not fn.blocks[d[0]]['cleanup']]
    if len(defs) != 1 or defs[0][2] != 'call' or not re.search(r'Vec::<T>::(new|with_capacity)$|Vec::<T, A>::with_capacity', callee_name(defs[0][3])):
        return False, 'the Vec is not created empty by Vec::new / with_capacity'
    total = 0
    pieces = []
    for bb, tt in fn.calls():
        muts = [a for a in tt['args'] if is_place(a) and fn.local_ty(a['pl']['l']).startswith('&mut ') and fn.canon({'l': a['pl']['l'], 'p': a['pl']['p'] + ['deref'], 'ty': ''})['l'] == v and not fn.canon({'l': a['pl']['l'], 'p': a['pl']['p'] + ['deref'], 'ty': ''})['p']]
        if not muts:
            continue
        n = callee_name(tt)
        if not n.endswith('Vec::<T, A>::extend_from_slice'):
            return False, 'the Vec is also modified by %s' % n
        if bb in fn.reachable(fn.succs()[bb]):
            return False, 'extend_from_slice at %s is inside a loop' % fn.where(bb)
        piece = tt['args'][1]
        txt = paths.show_operand(fn, piece)
        if re.search(r'Name::wire_repr\(', txt) and not re.search(r'Index|index', txt):
            total += 255
            pieces.append('name<=255')
            continue
        Ls = lin(an.atom_len({'l': piece['pl']['l'], 'p': piece['pl']['p'] + ['deref'], 'ty': ''}))
        got = None
        for K in (2, 4, 6, 16, 20, 255):
            ok, facts, res = an.prove(bb, None, [le(Ls, lin(c=K))])
            if ok:
                got = K
                break
        if got is None:
            return False, 'cannot bound the piece %s appended at %s' % (txt[:80], fn.where(bb))
        total += got
        pieces.append('slice<=%d' % got)
    return total <= limit and bool(pieces), 'pieces %s, total <= %d' % (pieces, total)


def _reads_between(fn, head, frm, to, atoms):
    """Some statement strictly after `frm` and up to (and including) `to`, along the straight line starting at block
    `head`, reads one of the places named by `atoms` ('P:<canonical place>')."""
    from qv.facts import rvalue_places
    x = frm[0]
    pos = frm[1] + 1
    while True:
        sts = fn.blocks[x]['stmts']
        hi = to[1] + 1 if x == to[0] else len(sts)
        for k in range(pos, hi):
            st = sts[k]
            if st['k'] == 'assign':
                for pl in rvalue_places(st['rv']):
                    if 'P:' + fn.canon_str(pl) in atoms:
                        return True
        if x == to[0]:
            return False
        nx = [y for y in fn.succs()[x] if not fn.blocks[y]['cleanup']]
        if len(nx) != 1:
            return True
        x, pos = nx[0], 0


def check_store_preserves(R, F, S, rule, sty, inv_terms, fields, exceptions=None, scope=None):
    """Strong invariant: every store to one of `fields` of struct `sty` re-establishes every invariant constraint that
    mentions the stored field (with the stored value substituted, the other fields at their current values).

    Stores to several of the fields inside ONE basic block form a group: no call (hence no other code that could look at
    the struct -- the method holds `&mut self`) runs between them, so the invariant is required after the LAST store of
    the group only, with all stored values substituted at once and everything evaluated in the state before the first
    store, where the invariant still holds.  (`limit` and `available` moved together by set_limit, in either order.)
    inv_terms(sp) -> [(lhs_expr, rhs_expr, text)] meaning lhs <= rhs, over atoms built from the self place string sp."""
    exceptions = exceptions or {}
    n = 0
    counts = {}
    stores = []
    for f in fields:
        for fn, b, i, st in field_stores(F, sty, f, scope):
            k = (fn.gpath, f)
            counts[k] = counts.get(k, 0) + 1
            stores.append((fn, b, i, st, f, '%s|%s-store@%s#%d' % (sty, f, fn.gpath, counts[k])))
    def chain_head(fn, b):
        # blocks linked by goto / overflow-assert terminators with no other way in form one straight line without calls
        seen = set()
        while b not in seen:
            seen.add(b)
            ps = [p for p in fn.preds()[b] if not fn.blocks[p]['cleanup']]
            if len(ps) != 1 or fn.blocks[ps[0]]['term']['k'] not in ('goto', 'assert'):
                break
            if [x for x in fn.succs()[ps[0]] if not fn.blocks[x]['cleanup']] != [b]:
                break
            b = ps[0]
        return b

    def chain_pos(fn, head, b):
        k, x = 0, head
        while x != b:
            nx = [y for y in fn.succs()[x] if not fn.blocks[y]['cleanup']]
            x = nx[0]
            k += 1
        return k
    groups = {}
    for rec in stores:
        fn, b, i, st, f, key = rec
        base = fn.canon_str({'l': st['lhs']['l'], 'p': st['lhs']['p'][:-1], 'ty': ''})
        groups.setdefault((fn.gpath, chain_head(fn, b), base), []).append(rec)
    for (gp, head, base), recs in groups.items():
        fn = recs[0][0]
        recs.sort(key=lambda r: (chain_pos(fn, head, r[1]), r[2]))
        an = Analyzer(fn, F, S)
        b, first = recs[0][1], recs[0][2]
        news = {}
        ok = True
        unmet = ''
        for (_, sb_, i, st, f, key) in recs:
            an._site = (b, first)
            new = an.ev_rv(st['rv'], 0, (b, first))
            atom = 'P:%s.%s' % (base, f)
            if new is None:
                ok, unmet = False, 'stored value is not linear'
                break
            if (sb_, i) != (b, first) and _reads_between(fn, head, (b, first), (sb_, i), set(news)):
                # the value of a later store may read a field that an earlier store of the group has already replaced
                ok, unmet = False, 'a store of the group reads a field stored earlier in the same group'
                break
            news[atom] = new          # a second store to the same field in the block supersedes the first
        if ok:
            goals = []
            for lhs, rhs, txt in inv_terms(base):
                if not any(a in lhs or a in rhs for a in news):
                    continue

                def sub(e):
                    out = {}
                    for a, c in e.items():
                        out = add(out, scale(news[a], c)) if a in news else add(out, {a: c})
                    return out
                goals.append(le(sub(lhs), sub(rhs)))
            ok, unmet = prove_at(an, b, first, goals)
        for (_, sb_, i, st, f, key) in recs:
            n += 1
            cands = [v for (g3, f3, k3), v in exceptions.items() if g3 == fn.gpath and f3 == f]
            ex = bool(cands)
            why = 'the store keeps the invariant' if len(recs) == 1 else 'the %d stores of this block together keep the invariant' % len(recs)
            okk = ok
            if not okk and cands:
                for reason, prem in cands:
                    pok, pdet = prem(F, fn, sb_)
                    why = 'justified exception: %s [premises %s: %s]' % (reason, 'hold' if pok else 'FAILED', pdet)
                    if pok:
                        okk = True
                        break
            R.require(okk, rule, key, fn.where(sb_), why, 'cannot prove that the store of %s keeps the invariant: %s%s' % (f, unmet, ('; ' + why) if ex else ''))
    return n
