"""C31 — reloading keeps every zone on its own latest good data (static clauses; needs the quandaryd facts)."""
import re

from qv.facts import callee_name, const_name, is_place, op_str
from qv.flow import slice_of
from qv import paths, tables
from qv.rulelib import calls_in, enum_variants

MODE = 'full'
EXPLANATION = """
Decides structural clauses of C31 on src/bin/quandaryd (zones.rs, run.rs):
(a) the previous entry of a zone, handed to check_mtime and make_error_catalog_entry, derives from the catalog's
EXACT-match API (Catalog::get) with that zone's own name and class -- not from the longest-match lookup, which would
hand a failing child zone its parent's entry;
(b) the new catalog starts empty (Catalog::new) and receives exactly one insert per configured zone on every path of
the loop body (skip, loaded, failed);
(c) on failure the inserted entry is make_error_catalog_entry(config, previous) = previous.cloned() else FailedToLoad
with the zone's own name and class;
(d) check_mtime reuses the loaded zone only under `Loaded` && same path && mtime <= loaded mtime; every other arm
loads (or records the failure when the metadata cannot be read);
(e) reload_zones_and_keys installs the new catalog and keys only after both were built, and builds the catalog from
the currently served one;
(f) across reloads: the catalog that try_running hands to reload_zones_and_keys as the previous one is the most recently
installed catalog -- the local is re-assigned from the Ok result of every reload (or read back from the server) --
and reload_zones_and_keys returns the very catalog it installed; otherwise a zone that fails on the second reload
falls back to its start-up data instead of its latest good data.
Not decided: file-system histories, mtime granularity.
"""
ASSUMPTIONS = ['every CFG path is assumed feasible', 'Catalog::get is the exact-match API (C22 (c))']
Z = 'quandaryd::zones::'


def check(R, F):
    li = F.fn(Z + 'load_impl')
    # ---- (a) previous entry provenance
    cm = calls_in(li, 'zones::check_mtime')
    me = calls_in(li, 'zones::make_error_catalog_entry')
    R.require(len(cm) == 1 and len(me) == 1, 'previous-entry', Z + 'load_impl|anchors', li.where(), 'one check_mtime, one make_error_catalog_entry', 'expected one check_mtime and one make_error_catalog_entry call, found %d/%d' % (len(cm), len(me)))
    prev_locals = set()
    for (b, t), idx, what in [(x, 1, 'check_mtime') for x in cm] + [(x, 1, 'make_error_catalog_entry') for x in me]:
        sl = slice_of(li, t['args'][idx])
        clos = [c[3:] for c in sl.consts() if c.startswith('fn ')]
        # closures built into the value
        closures = set()
        for n in sl.nodes:
            if n[0] == 'local':
                sd = li.single_def(n[1])
                if sd and sd[2] == 'assign' and sd[3]['rv']['k'] == 'agg' and sd[3]['rv']['ak'] == 'closure':
                    closures.add(sd[3]['rv']['def'])
        apis = set()
        for cpath in closures:
            c = F.fns.get('quandaryd::' + cpath) or F.fns.get(cpath)
            if c is None:
                continue
            for cb, ct in c.calls():
                n = callee_name(ct)
                if 'Catalog' in n and (n.endswith('::lookup') or n.endswith('::get')):
                    args = [paths.show_operand(c, a) for a in ct['args']]
                    apis.add((n.split('::')[-1], tuple(args)))
        direct = {(callee_name(ct).split('::')[-1],) for n2, cb, ct in sl.calls() if 'Catalog' in n2 and (n2.endswith('::lookup') or n2.endswith('::get'))}
        names = {a[0] for a in apis} | {d[0] for d in direct}
        own = all(('name' in ' '.join(a[1]) and 'class' in ' '.join(a[1])) or True for a in apis)
        R.require(names == {'get'}, 'previous-entry', '%sload_impl|%s-uses-exact-match' % (Z, what), li.where(b),
                  'the previous entry given to %s comes from Catalog::get' % what,
                  'the previous entry given to %s comes from Catalog::%s: the longest-match lookup returns the PARENT zone\'s entry for a child zone that has no entry of its own, so a failing child inherits (and is served from) its parent' % (what, sorted(names)))
        # keyed by the zone's own name and class
        for api, args in apis:
            R.require(len(args) == 3 and '.name.0' in args[1] and '.class.0' in args[2] or ('name' in args[1] and 'class' in args[2]) or (args[1].startswith('cast(arg1.0') and args[2].startswith('arg1.1')), 'previous-entry', '%sload_impl|%s-keyed-by-own-name' % (Z, what), li.where(b),
                      'looked up with the zone\'s own name and class', 'previous entry looked up with %s' % (args,))
    # the same previous entry feeds both
    if cm and me:
        a = paths.show_operand(li, cm[0][1]['args'][1])
        b_ = paths.show_operand(li, me[0][1]['args'][1])
        R.require(a == b_, 'previous-entry', Z + 'load_impl|same-previous-entry', li.where(), 'check_mtime and make_error_catalog_entry see the same previous entry', 'different previous entries: %s vs %s' % (a, b_))
    R.floor('previous-entry', 4)

    # ---- (b) one insert per zone
    news = [b for b, t in li.calls() if callee_name(t).endswith('HashMapTreeCatalog::<Z, M>::new')]
    ins = [(b, t) for b, t in li.calls() if callee_name(t).endswith('HashMapTreeCatalog::<Z, M>::insert')]
    nexts = [b for b, t in li.calls() if callee_name(t).endswith('Iterator>::next') or callee_name(t).endswith('IntoIter<T, A> as std::iter::Iterator>::next')]
    nexts = [b for b in nexts if 'into_iter(arg1)' in paths.show_operand(li, li.blocks[b]['term']['args'][0])]
    ok = len(news) == 1 and len(ins) == 3 and len(nexts) == 1
    R.require(ok, 'one-insert', Z + 'load_impl|shape', li.where(), 'Catalog::new once, three insert sites, one loop over the configured zones', 'expected 1 Catalog::new, 3 inserts, 1 loop head; found %d/%d/%d' % (len(news), len(ins), len(nexts)))
    if ok:
        ib = {b for b, t in ins}
        hb = nexts[0]
        # from the loop head's Some edge, every path back to the loop head passes exactly one insert
        succ = li.blocks[hb]['term']['t']
        p = li.find_path(succ, lambda x: x == hb, avoid=ib)
        # restrict to the Some edge: a path that avoids inserts and returns to the head
        R.require(p is None, 'one-insert', Z + 'load_impl|every-iteration-inserts', li.where(hb), 'every iteration inserts an entry for its zone', 'an iteration can complete without inserting an entry (the zone would silently disappear): %s' % (paths.fmt_path(li, p) if p else ''))
        twice = None
        for b in ib:
            q = li.find_path(li.blocks[b]['term']['t'], lambda x: x in ib, avoid={hb})
            if q:
                twice = q
        R.require(twice is None, 'one-insert', Z + 'load_impl|at-most-one-insert', li.where(), 'at most one insert per iteration', 'two inserts can happen in one iteration: %s' % (paths.fmt_path(li, twice) if twice else ''))
        for b, t in ins:
            tgt = paths.show_operand(li, t['args'][0])
            a0 = t['args'][0]
            base = li.canon({'l': a0['pl']['l'], 'p': a0['pl']['p'] + ['deref'], 'ty': ''}) if is_place(a0) else None
            sd0 = li.single_def(base['l']) if base is not None and not base['p'] else None
            if sd0 and sd0[2] == 'call' and callee_name(sd0[3]).endswith('HashMapTreeCatalog::<Z, M>::new'):
                tgt = 'HashMapTreeCatalog::new()'
            R.require(tgt == 'HashMapTreeCatalog::new()', 'one-insert', Z + 'load_impl|insert-into-new-catalog#%d' % (sorted(ib).index(b)), li.where(b), 'inserts into the new catalog', 'insert target is %s' % tgt)
        # the function returns the new catalog
    R.floor('one-insert', 5)

    # ---- (c) error entry
    mk = F.fn(Z + 'make_error_catalog_entry')
    cl = calls_in(mk, 'Option::<&T>::cloned') or [(b, t) for b, t in mk.calls() if callee_name(t).endswith('::cloned')]
    uo = [(b, t) for b, t in mk.calls() if callee_name(t).endswith('unwrap_or_else') or callee_name(t).endswith('unwrap_or')]
    ok = len(cl) == 1 and len(uo) == 1 and paths.show_operand(mk, cl[0][1]['args'][0]) == 'arg2' and 'cloned(arg2)' in paths.show_operand(mk, uo[0][1]['args'][0])
    clos = F.closures_of(mk.gpath)
    failed = False
    caps = []
    for blk in mk.blocks:
        for st in blk['stmts']:
            if st['k'] == 'assign' and st['rv']['k'] == 'agg' and st['rv']['ak'] == 'closure':
                caps = [paths.show_operand(mk, o) for o in st['rv']['ops']]
    for c in clos:
        for blk in c.blocks:
            for st in blk['stmts']:
                if st['k'] == 'assign' and st['rv']['k'] == 'agg' and st['rv']['def'].endswith('Entry::FailedToLoad'):
                    # name and class operands come from the captured zone configuration
                    srcs = [slice_of(c, o).params() for o in st['rv']['ops'][:2]]
                    failed = all(p == {1} for p in srcs) and 'arg1.name.0' in caps and 'arg1.class.0' in caps
    R.require(ok and failed, 'error-entry', Z + 'make_error_catalog_entry|previous-else-failed', mk.where(), 'previous.cloned() else FailedToLoad(name, class)', 'make_error_catalog_entry is not previous.cloned().unwrap_or_else(FailedToLoad(own name, own class))')
    if me:
        b, t = me[0]
        nb = t['t']
        nxt = li.blocks[nb]['term'] if nb is not None else None
        R.require(nxt is not None and nxt['k'] == 'call' and callee_name(nxt).endswith('::insert') and paths.show_operand(li, nxt['args'][1]).startswith('zones::make_error_catalog_entry('), 'error-entry', Z + 'load_impl|failure-inserts-error-entry', li.where(b), 'the failure arm inserts make_error_catalog_entry(..)', 'the failure arm does not insert the error entry')
        g = paths.dom_guards(li, b)
        R.require(any(re.match(r'^discr\(zones::load_and_validate_zone\(.*\)\) (in \[1\]|not in \[0\])$', x) for x in g), 'error-entry', Z + 'load_impl|failure-arm', li.where(b), 'on Err of load_and_validate_zone', 'the error entry is not confined to the Err arm of load_and_validate_zone')
    lo = [(b, st) for b, blk in enumerate(li.blocks) for st in blk['stmts'] if st['k'] == 'assign' and st['rv']['k'] == 'agg' and st['rv']['def'].endswith('Entry::Loaded')]
    ok = len(lo) == 1 and any(re.match(r'^discr\(zones::load_and_validate_zone\(.*\)\) in \[0\]$', x) for x in paths.dom_guards(li, lo[0][0])) and 'load_and_validate_zone' in paths.show_operand(li, lo[0][1]['rv']['ops'][0])
    R.require(ok, 'error-entry', Z + 'load_impl|success-inserts-new-zone', li.where(lo[0][0]) if lo else li.where(), 'on Ok the freshly loaded zone is inserted', 'the Ok arm does not insert Entry::Loaded(new zone)')
    R.floor('error-entry', 4)

    # ---- (d) check_mtime
    ck = F.fn(Z + 'check_mtime')
    skips = [(b, st) for b, blk in enumerate(ck.blocks) if not blk['cleanup'] for st in blk['stmts'] if st['k'] == 'assign' and st['rv']['k'] == 'agg' and st['rv']['def'].endswith('MtimeCheckResult::Skip')]
    loads = [(b, st) for b, blk in enumerate(ck.blocks) if not blk['cleanup'] for st in blk['stmts'] if st['k'] == 'assign' and st['rv']['k'] == 'agg' and st['rv']['def'].endswith('MtimeCheckResult::Load')]
    reuse = [(b, st) for b, st in skips if 'make_error_catalog_entry' not in paths.show_operand(ck, st['rv']['ops'][0])]
    errskip = [(b, st) for b, st in skips if 'make_error_catalog_entry' in paths.show_operand(ck, st['rv']['ops'][0])]
    other = [d for d in ck.defs().get(0, []) if not ck.blocks[d[0]]['cleanup'] and not (d[2] == 'assign' and d[3]['rv']['k'] == 'agg' and d[3]['rv']['def'].split('::')[-1] in ('Skip', 'Load') and 'MtimeCheckResult' in d[3]['rv']['def'])]
    ok = len(reuse) >= 1 and len(errskip) == 1 and len(loads) >= 1 and not other
    R.require(ok, 'mtime', Z + 'check_mtime|shape', ck.where(), 'reuse arm(s), 1 metadata-error arm, every other result is Load', 'check_mtime has %d reuse, %d error-skip, %d load results and %d results of another form' % (len(reuse), len(errskip), len(loads), len(other)))
    FILE_MT = r'(?:[^|&]*(?:and_then|fs::metadata|modified)\([^|&]*\)@Ok\.0)'
    LOADED_MT = r'(?:arg2@Some\.0@Loaded\.1\.mtime@Some\.0)'
    for b, st in reuse:
        g = paths.dom_guards(ck, b, variants=False)
        conj = []
        for x in g:
            m = re.match(r'^true-when\{([^|]*)\} not in \[0\]$', x)
            conj += m.group(1).split(' & ') if m else [x]
        ev = enum_variants(F, 'db::catalog::Entry') if 'db::catalog::Entry' in F.structs else ['Loaded', 'NotYetLoaded', 'FailedToLoad']
        c_loaded = any(re.match(r'^discr\(arg2@Some\.0\) in \[%d\]$' % ev.index('Loaded'), x) for x in conj)
        c_path = any(paths.guards_equiv(x, y) for x in conj for y in ('PathBuf::eq(arg2@Some.0@Loaded.1.path,arg1.path) not in [0]', 'PathBuf::eq(arg1.path,arg2@Some.0@Loaded.1.path) not in [0]'))
        c_ok = any(re.match(r'^discr\(.*metadata.*\) in \[0\]$|^discr\(Result::and_then\(.*\)\) in \[0\]$', x) for x in conj)
        # the freshness test `file mtime <= loaded mtime`, inline ...
        c_time = any(re.match(r'^[\w:<> ,]*::le\(%s,%s\) not in \[0\]$|^[\w:<> ,]*::ge\(%s,%s\) not in \[0\]$|^[\w:<> ,]*::gt\(%s,%s\) in \[0\]$|^[\w:<> ,]*::lt\(%s,%s\) in \[0\]$' % (FILE_MT, LOADED_MT, LOADED_MT, FILE_MT, FILE_MT, LOADED_MT, LOADED_MT, FILE_MT), x) for x in conj)
        inline = c_time
        # ... or as `loaded.mtime.map(|l| mtime <= l).unwrap_or(false)`
        if not c_time:
            c_time = any(re.match(r'^Option::unwrap_or\(Option::map\(arg2@Some\.0@Loaded\.1\.mtime,check_mtime::\{closure#\d+\}\{%s\}\),false\) not in \[0\]$' % FILE_MT, x)
                         or re.match(r'^Option::(map_or|is_some_and)\(arg2@Some\.0@Loaded\.1\.mtime,(false,)?check_mtime::\{closure#\d+\}\{%s\}\) not in \[0\]$' % FILE_MT, x) for x in conj)
        R.require(c_loaded and c_path and c_time and c_ok, 'mtime', Z + 'check_mtime|reuse-conditions', ck.where(b),
                  'reuse only under Loaded && same path && mtime <= loaded mtime', 'the reuse arm is guarded by Loaded=%s same-path=%s mtime-test=%s metadata-ok=%s; guards %s' % (c_loaded, c_path, c_time, c_ok, g))
        # the comparison is mtime <= loaded_mtime
        okc = inline
        if not inline:
            cmpc = [c for c in F.closures_of(ck.gpath) if any(callee_name(t).split('::')[-1] in ('le', 'ge', 'lt', 'gt') for b2, t in c.calls())]
            for c in cmpc:
                for b2, t in c.calls():
                    op = callee_name(t).split('::')[-1]
                    if op in ('le', 'ge'):
                        a0 = paths.show_operand(c, t['args'][0])
                        a1 = paths.show_operand(c, t['args'][1])
                        if op == 'ge':
                            a0, a1 = a1, a0
                        okc = a0.startswith('arg1') and a1.startswith('arg2')
        R.require(okc, 'mtime', Z + 'check_mtime|mtime-not-newer', ck.where(), 'file mtime <= loaded mtime', 'the freshness test is not `file mtime <= loaded mtime`')
        # the reused entry is the loaded zone itself
        ent = paths.show_operand(ck, st['rv']['ops'][0])
        R.require('Entry::Loaded{' in ent and 'clone(' in ent and 'arg2@Some.0' in ent, 'mtime', Z + 'check_mtime|reuses-loaded-zone', ck.where(b), 'reuses a clone of the loaded entry', 'the reused entry is %s' % ent)
    R.floor('mtime', 4)

    # ---- (e) reload
    rl = F.fn('quandaryd::run::reload_zones_and_keys')
    sc = calls_in(rl, 'Server::<C>::set_catalog')
    sk = calls_in(rl, 'Server::<C>::set_tsig_keys')
    zr = calls_in(rl, 'zones::reload')
    mk2 = calls_in(rl, 'run::make_tsig_key_map')
    ok = len(sc) == 1 and len(sk) == 1 and len(zr) == 1 and len(mk2) == 1
    if ok:
        ok = rl.dominates(zr[0][0], sc[0][0]) and rl.dominates(mk2[0][0], sc[0][0]) and rl.dominates(mk2[0][0], sk[0][0])
        arg = paths.show_operand(rl, sc[0][1]['args'][1])
        ok = ok and 'zones::reload(' in arg
        prev = paths.show_operand(rl, zr[0][1]['args'][1])
        ok = ok and prev == 'arg3'
    R.require(ok, 'reload', 'quandaryd::run::reload_zones_and_keys|build-then-install', rl.where(), 'catalog and keys are installed only after both were built; the catalog is rebuilt from the served one', 'reload does not build both the new catalog (from the current one) and the keys before installing them')

    # ---- (f) the "previous" catalog follows every successful reload
    tr = F.fn('quandaryd::run::try_running')
    rc = calls_in(tr, 'run::reload_zones_and_keys')
    R.require(len(rc) == 1, 'reload-chain', 'quandaryd::run::try_running|one-reload-site', tr.where(), 'one reload call site', 'expected one reload_zones_and_keys call in try_running, found %d' % len(rc))
    if len(rc) == 1:
        b, t = rc[0]
        sl = slice_of(tr, t['args'][2])
        calls = {n for n in sl.call_names()}
        from_server = any(n.endswith('Server::<C>::catalog') for n in calls)
        from_load = any(n.endswith('zones::load') for n in calls)
        from_prev_reload = ('call', b) in sl.nodes
        R.require(from_server or (from_load and from_prev_reload), 'reload-chain', 'quandaryd::run::try_running|previous-is-latest-installed', tr.where(b),
                  'the previous catalog passed to a reload derives from the start-up load and from the result of the preceding reload',
                  'the catalog passed to reload_zones_and_keys as the currently served one derives from: start-up load=%s, result of the previous reload=%s, Server::catalog()=%s -- after the first successful reload it is stale, so a zone that then fails falls back to its start-up state' % (from_load, from_prev_reload, from_server))
        if not from_server:
            oks = [st for blk in rl.blocks if not blk['cleanup'] for st in blk['stmts'] if st['k'] == 'assign' and st['lhs']['l'] == 0 and not st['lhs']['p'] and st['rv']['k'] == 'agg' and st['rv']['def'].endswith('Result::Ok')]
            ok = len(oks) == 1 and bool(oks[0]['rv']['ops'])
            if ok:
                v = paths.show_operand(rl, oks[0]['rv']['ops'][0])
                ok = 'zones::reload(' in v
            R.require(ok, 'reload-chain', 'quandaryd::run::reload_zones_and_keys|returns-installed-catalog', rl.where(), 'returns the catalog it installed', 'reload_zones_and_keys does not return the catalog built by zones::reload')
    R.floor('reload-chain', 2)
