"""C05 — query answers follow the resolution algorithm (static clauses)."""
import re

from qv.facts import callee_name, const_name, is_place, op_str, MissingAnchor
from qv.flow import slice_of
from qv import paths, tables
from qv.rulelib import HANDLE_NON_AXFR, W, enum_variants, calls_in, one_call

MODE = 'lib'
EXPLANATION = """
Decides five structural clauses of C05 on the MIR of server::query:
(a) outcome tables: in answer, answer_any and follow_cname_2 each Lookup*Result variant leads to exactly the set of
RCODE / AA / section-writing effects RFC 1034 §4.3.2, RFC 2308 and RFC 6604 prescribe (frozen spec table in this file;
any extra or missing effect in an arm is reported);
(b) the TTL operand of the negative-caching SOA derives from both the SOA RRset's own TTL and its MINIMUM field through a
minimum operation (RFC 2308 §3);
(c) CNAME chain limit: the previous-owners vector has capacity MAX_CNAME_CHAIN_LEN-1 = 7, the capacity-exceeded arm and
the loop-detected arm both return ServFail, and ServFail handling clears AA, sets SERVFAIL and clears the records;
(d) referral glue: addresses of name servers at or below the delegated zone are added with the error propagated (never
through execute_allowing_truncation), the others only through execute_allowing_truncation;
(e) additional-section processing reads the embedded name at the RDATA offset of its type's layout ({NS,MD,MF,MB}:0, MX:2,
SRV:6) and writes addresses only through execute_allowing_truncation.
(f) lookup options: a zone lookup skips the wrong-zone test (unchecked: true) only for the QNAME the catalog lookup
matched (answer / answer_any, name = question.qname); the restarted lookup for a CNAME target in follow_cname_2 and the
address lookups keep the test (unchecked: false), so an out-of-zone target yields WrongZone instead of being walked
through the tree with label indices of another name; both address lookups of do_referral search below zone cuts (glue
and sibling glue live there) and lookup_addrs receives that flag unchanged.
Not decided: equality of the produced sections with a reference implementation for arbitrary catalogs (value-level).
"""
ASSUMPTIONS = ['every CFG path of the MIR is assumed feasible', 'frozen spec table written from RFC 1034 §4.3.2 / RFC 2308 §3 / RFC 6604 §3 / RFC 2782']

Q = 'server::query::'
# universe of response-affecting effects recognised in an arm
UNIVERSE = [W + x for x in ('set_rcode', 'set_aa', 'set_tc', 'clear_rrs', 'add_answer_rrset', 'add_answer_rr', 'add_authority_rrset',
                            'add_authority_rr', 'add_additional_rrset', 'add_additional_rr', 'set_extended_rcode')] + \
           [Q + x for x in ('do_cname', 'do_referral', 'add_negative_caching_soa', 'do_additional_section_processing',
                            'follow_cname_1', 'follow_cname_2', 'add_additional_addresses', 'answer', 'answer_any')]

SPEC = {
    (Q + 'answer', 'db::zone::LookupResult'): {
        'Found': {'set_aa(true)', 'add_answer_rrset', 'do_additional_section_processing'},
        'Cname': {'do_cname'},
        'Referral': {'do_referral'},
        'NoRecords': {'set_aa(true)', 'add_negative_caching_soa'},
        'NxDomain': {'set_rcode(NXDOMAIN)', 'set_aa(true)', 'add_negative_caching_soa'},
        'WrongZone': 'diverges',
    },
    (Q + 'answer_any', 'db::zone::LookupAllResult'): {
        'Found': {'set_aa(true)', 'add_answer_rrset', 'add_negative_caching_soa'},
        'Referral': {'do_referral'},
        'NxDomain': {'set_rcode(NXDOMAIN)', 'set_aa(true)', 'add_negative_caching_soa'},
        'WrongZone': 'diverges',
    },
    (Q + 'follow_cname_2', 'db::zone::LookupResult'): {
        'Found': {'add_answer_rrset', 'do_additional_section_processing'},
        'Cname': {'follow_cname_1'},
        'Referral': {'do_referral'},
        'NoRecords': {'add_negative_caching_soa'},
        'NxDomain': {'set_rcode(NXDOMAIN)', 'add_negative_caching_soa'},
        'WrongZone': set(),
    },
}
RCODE_NAMES = {0: 'NOERROR', 1: 'FORMERR', 2: 'SERVFAIL', 3: 'NXDOMAIN', 4: 'NOTIMP', 5: 'REFUSED', 9: 'NOTAUTH'}


_FACTS = [None]


def _region_calls_with_closures(fn, region, depth=0):
    """Calls in the region, plus the calls of closures that are built in it (a loop body rewritten as
    `iter.try_for_each(|x| ..)` or `execute(|| ..)` keeps its effects)."""
    out = list(tables.region_calls(fn, region))
    F = _FACTS[0]
    if F is None or depth > 2:
        return out
    for b in sorted(region):
        for st in fn.blocks[b]['stmts']:
            if st['k'] == 'assign' and st['rv']['k'] == 'agg' and st['rv'].get('ak') == 'closure':
                c = F.fns.get(st['rv']['def'])
                if c is not None:
                    out += _region_calls_with_closures(c, set(range(len(c.blocks))), depth + 1)
    return out


def effect_set(fn, region):
    out = set()
    for name, cargs, b in _region_calls_with_closures(fn, region):
        if name not in UNIVERSE:
            continue
        s = name.split('::')[-1]
        if s == 'set_rcode':
            m = re.search(r'Rcode\((\d+)_u8\)', cargs[1] or '')
            s = 'set_rcode(%s)' % (RCODE_NAMES.get(int(m.group(1)), m.group(1)) if m else '?')
        elif s in ('set_aa', 'set_tc'):
            s = '%s(%s)' % (s, cargs[1] if cargs[1] is not None else '?')
        out.add(s)
    return out


def diverges(fn, region):
    return bool(region) and not any(fn.blocks[b]['term']['k'] == 'ret' for b in fn.reachable(min(region))) or \
        any('panic' in callee_name(fn.blocks[b]['term']) for b in region if fn.blocks[b]['term']['k'] == 'call')


def check_referral_glue(R, F):
    dr = F.fn(Q + 'do_referral')
    direct = calls_in(dr, Q + 'add_additional_addresses')
    # ordering, independent of how the name servers are collected: every mandatory glue lookup (a direct, error-
    # propagating add_additional_addresses call) happens before any optional one (through execute_allowing_truncation) --
    # otherwise an optional record that does not fit could pre-empt glue that must be there
    opt = [b for b, t in calls_in(dr, Q + 'execute_allowing_truncation')]
    if direct and opt:
        late = None
        for ob in opt:
            for mb, mt in direct:
                p_ = dr.find_path(dr.blocks[ob]['term']['t'], lambda x, mb=mb: x == mb) if dr.blocks[ob]['term']['t'] is not None else None
                late = late or p_
        R.require(late is None, 'referral-glue', Q + 'do_referral|mandatory-before-optional', dr.where(direct[0][0]), 'all mandatory glue is written before any optional address lookup',
                  'a mandatory glue lookup can run after an optional one (%s): optional data that does not fit may pre-empt glue' % (paths.fmt_path(dr, late) if late else ''))
    clos = F.closures_of(Q + 'do_referral')
    inclos = [(c, b, t) for c in clos for b, t in calls_in(c, Q + 'add_additional_addresses')]
    pushes = calls_in(dr, 'std::vec::Vec::<T, A>::push')
    glue_vec = other_vec = None
    for b, t in pushes:
        g = paths.dom_guards(dr, b)
        base = dr.canon({'l': t['args'][0]['pl']['l'], 'p': ['deref'], 'ty': ''})['l']
        if any(re.match(r'^Name::eq_or_subdomain_of\(.*,arg2\) not in \[0\]$', x) for x in g):
            glue_vec = base
        elif any(re.match(r'^Name::eq_or_subdomain_of\(.*,arg2\) in \[0\]$', x) for x in g):
            other_vec = base
    R.require(glue_vec is not None and other_vec is not None and glue_vec != other_vec, 'referral-glue', Q + 'do_referral|classification', dr.where(),
              'NS targets split by eq_or_subdomain_of(child_zone)', 'cannot find the split of NS targets by eq_or_subdomain_of(child_zone) into two vectors')
    if glue_vec is None or other_vec is None:
        return

    def iterated_vec(fn, operand):
        sl = slice_of(fn, operand)
        out = set()
        for n, b, t in sl.calls():
            if n.endswith('IntoIterator>::into_iter') and 'Vec' in n:
                a = t['args'][0]
                if is_place(a):
                    out.add(fn.canon(a['pl'])['l'])
        return out
    ok = len(direct) == 1
    detail = ''
    if ok:
        b, t = direct[0]
        vecs = iterated_vec(dr, t['args'][1])
        nxt = dr.blocks[t['t']]['term'] if t['t'] is not None else None
        propagated = nxt is not None and nxt['k'] == 'call' and callee_name(nxt).endswith('Try>::branch') and is_place(nxt['args'][0]) and nxt['args'][0]['pl']['l'] == t['dest']['l']
        ok = vecs == {glue_vec} and propagated and const_name(t['args'][2]) == 'true'
        detail = 'iterates %s (glue vector is _%s), error propagated with ?: %s, search_below_cuts=%s' % (sorted(vecs), glue_vec, propagated, const_name(t['args'][2]))
    R.require(ok, 'referral-glue', Q + 'do_referral|in-bailiwick-mandatory', dr.where(direct[0][0]) if direct else dr.where(),
              'in-bailiwick glue is added with the error propagated, below cuts', 'in-bailiwick glue is not added unconditionally with its error propagated: ' + (detail or '%d direct add_additional_addresses calls' % len(direct)))
    ex = calls_in(dr, Q + 'execute_allowing_truncation')
    ok = len(ex) == 1 and len(inclos) == 1
    if ok:
        b, t = ex[0]
        sl = slice_of(dr, t['args'][0])
        clos_built = {st['rv']['def'] for blk in dr.blocks for st in blk['stmts'] if st['k'] == 'assign' and st['rv']['k'] == 'agg' and st['rv']['ak'] == 'closure'}
        vecs = iterated_vec(dr, t['args'][0])
        ok = inclos[0][0].gpath in clos_built and other_vec in vecs and glue_vec not in vecs
    R.require(ok, 'referral-glue', Q + 'do_referral|others-optional', dr.where(), 'other name servers only through execute_allowing_truncation',
              'addresses of name servers outside the delegated zone are not confined to execute_allowing_truncation over the non-glue vector')
    R.floor('referral-glue', 3)



def lookup_options(fn, o):
    """(unchecked, search_below_cuts) of a LookupOptions operand: True / False / a description for non-constants."""
    txt = paths.show_operand(fn, o)
    m = re.search(r'unchecked: (true|false), search_below_cuts: (true|false)', txt)
    if m:
        return m.group(1) == 'true', m.group(2) == 'true'
    m = re.match(r'^(?:db::)?zone::LookupOptions\{(.*),(.*)\}$', txt)
    if m:
        cv = lambda x: True if x == 'true' else False if x == 'false' else x
        return cv(m.group(1)), cv(m.group(2))
    if txt == 'LookupOptions::default()':
        return False, False
    return txt, txt


def check_lookup_options(R, F):
    n = 0
    for gp, fn in sorted(F.fns.items()):
        if not gp.startswith(Q) or fn.crate != 'quandary' or '::tests::' in gp:
            continue
        for b, t in fn.calls():
            cn = callee_name(t)
            if not re.search(r'db::zone::Zone::lookup(_all|_addrs)?$', cn):
                continue
            n += 1
            unchecked, below = lookup_options(fn, t['args'][-1])
            name = paths.show_operand(fn, t['args'][1])
            key = '%s|%s' % (gp, cn.split('::')[-1])
            if unchecked is True:
                ok = gp in (Q + 'answer', Q + 'answer_any') and re.search(r'question\)*\)?\.qname', name) is not None
                R.require(ok, 'lookup-options', key, fn.where(b), 'unchecked lookup of the QNAME the catalog matched (%s)' % name[:80],
                          'the wrong-zone test is skipped (unchecked: true) for a name that is not the QNAME matched by the catalog lookup (%s): an out-of-zone name would be resolved with label indices of another name (wrong NXDOMAIN/answers, or an underflow in lookup_base)' % name[:120])
            else:
                R.require(unchecked is False, 'lookup-options', key, fn.where(b), 'wrong-zone test kept (unchecked: false) for %s' % name[:80],
                          'cannot determine the `unchecked` option of this lookup (%s)' % unchecked)
            if cn.endswith('lookup_addrs'):
                R.require(below == 'arg3', 'lookup-options', key + '|below-cuts-forwarded', fn.where(b), 'search_below_cuts is the caller-supplied flag', 'lookup_addrs is called with search_below_cuts = %s instead of the caller-supplied flag' % below)
    dr = F.fn(Q + 'do_referral')
    sites = [(dr, b, t) for b, t in calls_in(dr, Q + 'add_additional_addresses')] + [(c, b, t) for c in F.closures_of(Q + 'do_referral') for b, t in calls_in(c, Q + 'add_additional_addresses')]
    for k, (fn, b, t) in enumerate(sites):
        v = const_name(t['args'][2]) if t['args'][2]['k'] == 'const' else paths.show_operand(fn, t['args'][2])
        R.require(v == 'true', 'lookup-options', '%s|add_additional_addresses#%d-below-cuts' % (fn.gpath, k), fn.where(b), 'referral addresses are searched below zone cuts',
                  'a referral looks up name-server addresses with search_below_cuts = %s: glue (also glue below a sibling cut of the same parent) lives below cuts and would be dropped' % v)
    R.require(len(sites) == 2, 'lookup-options', Q + 'do_referral|two-address-lookups', dr.where(), 'mandatory and optional address lookups', 'expected 2 add_additional_addresses sites in do_referral, found %d' % len(sites))
    R.floor('lookup-options', 8, '4 zone lookups + forwarded flag + 2 referral sites + count')


def check(R, F):
    from rules.name_rules import check_raw_name_comparisons
    check_raw_name_comparisons(R, F)
    _FACTS[0] = F
    check_lookup_options(R, F)

    # ---- (a) outcome tables
    for (fpath, enum), spec in SPEC.items():
        fn = F.fn(fpath)
        variants = enum_variants(F, enum)
        sw = [(b, txt) for b, txt in tables.switches(fn, r'^discr\(Zone::lookup(_all)?\(') if len(tables.arms(fn, b)) >= 3]
        if len(sw) != 1:
            R.bad('outcome-table', fpath + '|dispatch', fn.where(), 'expected exactly one switch on the discriminant of the zone lookup result, found %d' % len(sw))
            continue
        b = sw[0][0]
        rows = tables.table(fn, b)
        for vi, vname in enumerate(variants):
            row = tables.row_for(rows, vi)
            want = spec.get(vname)
            key = '%s|%s' % (fpath, vname)
            if want is None:
                R.bad('outcome-table', key, fn.where(b), 'variant %s has no row in the spec table' % vname)
                continue
            if row is None:
                R.bad('outcome-table', key, fn.where(b), 'no arm for variant %s' % vname)
                continue
            got = effect_set(fn, row['region'])
            if want == 'diverges':
                R.require(not got and diverges(fn, row['region']), 'outcome-table', key, fn.where(row['target']),
                          'arm diverges (documented unreachable: unchecked lookup)', 'arm for %s expected to diverge without effects, has %s' % (vname, sorted(got)))
                continue
            R.require(got == want, 'outcome-table', key, fn.where(row['target']),
                      'effects %s' % sorted(got),
                      'effects of the %s arm are %s, the RFC table prescribes %s (extra: %s, missing: %s)' % (vname, sorted(got), sorted(want), sorted(got - want), sorted(want - got)))
    # the section-writing helpers used in those arms leave AA / RCODE / TC alone: the header effects of an outcome are
    # exactly the ones listed in the table above (a referral reached through a CNAME keeps the AA of the first owner)
    for h in ('do_referral', 'add_negative_caching_soa', 'do_additional_section_processing', 'add_additional_addresses', 'follow_cname_1'):
        hf = F.fn(Q + h)
        fns_ = [hf] + F.closures_of(hf.gpath)
        hdr = sorted({callee_name(t).split('::')[-1] for f_ in fns_ for b_, t in f_.calls() if callee_name(t) in (W + 'set_aa', W + 'set_rcode', W + 'set_tc', W + 'set_extended_rcode', W + 'clear_rrs')})
        R.require(not hdr, 'outcome-table', Q + h + '|no-header-effects', hf.where(), '%s writes records only; AA/RCODE are decided by the outcome arms' % h, '%s also changes the header (%s): the flags decided by the outcome table are overwritten' % (h, hdr))
    R.floor('outcome-table', 21)
    # do_cname sets AA (RFC 6604 §2.1) before following the chain
    dc = F.fn(Q + 'do_cname')
    b_aa = [b for b, t in calls_in(dc, W + 'set_aa') if const_name(t['args'][1]) == 'true']
    b_f1 = [b for b, t in calls_in(dc, Q + 'follow_cname_1')]
    R.require(len(b_aa) == 1 and len(b_f1) == 1 and dc.dominates(b_aa[0], b_f1[0]) and not calls_in(dc, W + 'set_rcode'),
              'outcome-table', Q + 'do_cname|aa-then-follow', dc.where(), 'do_cname sets AA then follows the chain', 'do_cname no longer sets AA before following the chain (or sets an RCODE)')
    # in answer_any/Found the SOA is added only when no RRset was written
    aa = F.fn(Q + 'answer_any')
    (sb, st) = one_call(aa, Q + 'add_negative_caching_soa') if len(calls_in(aa, Q + 'add_negative_caching_soa')) == 1 else (None, None)
    soas = calls_in(aa, Q + 'add_negative_caching_soa')
    ok = False
    for b, t in soas:
        g = paths.direct_guards(aa, b)
        # the count of RRsets written: a counter variable, or the result of a fold / try_fold / count over the RRsets
        if any(re.match(r'^Eq\((var:\w+|.*\b(try_fold|fold|count)\(.*),0_\w+\) not in \[0\]$', x) for x in g):
            ok = True
    R.require(ok, 'outcome-table', Q + 'answer_any|Found-empty-soa', aa.where(), 'SOA added under n_added == 0 in the Found arm',
              'answer_any no longer adds the negative-caching SOA exactly when no RRset was written')

    # ---- (b) negative-caching TTL = min(SOA TTL, MINIMUM)
    nc = F.fn(Q + 'add_negative_caching_soa')
    b, t = one_call(nc, W + 'add_authority_rr')
    ttl_idx = [i for i, a in enumerate(t['args']) if is_place(a) and a['pl']['ty'] == 'rr::ttl::Ttl']
    if len(ttl_idx) != 1:
        R.bad('neg-ttl', Q + 'add_negative_caching_soa|ttl-operand', nc.where(b), 'cannot identify the TTL operand of add_authority_rr')
    else:
        sl = slice_of(nc, t['args'][ttl_idx[0]])
        names = sl.call_names()
        from_min = any(n.endswith(Q + 'read_soa_minimum') for n in names)
        from_ttl = ('ttl',) in {fp[-1:] for fp in sl.field_paths() if fp}
        via_min = any(re.search(r'(::min$|::min_by|cmp::min)', n) for n in names)
        R.require(from_min and from_ttl and via_min, 'neg-ttl', Q + 'add_negative_caching_soa|ttl-operand', nc.where(b),
                  'TTL derives from the SOA RRset TTL and from read_soa_minimum through min',
                  'the TTL of the negative-caching SOA derives from: MINIMUM field=%s, SOA RRset .ttl=%s, through a minimum=%s; RFC 2308 §3 requires min(SOA TTL, MINIMUM)' % (from_min, from_ttl, via_min))
    # and the record written is the SOA of the zone, in the authority section, type SOA
    R.require('Type(6_u16)' in ' '.join(op_str(a) for a in t['args']), 'neg-ttl', Q + 'add_negative_caching_soa|type', nc.where(b), 'type SOA', 'add_authority_rr not called with Type::SOA')

    # ---- (c) CNAME chain limit and loops
    f2 = F.fn(Q + 'follow_cname_2')
    f1 = F.fn(Q + 'follow_cname_1')
    tys = [l['ty'] for l in f2.locals[1:f2.argc + 1]]
    caps = [int(m.group(1)) for ty in tys for m in [re.search(r'arrayvec::ArrayVec<std::boxed::Box<name::Name>, (\d+)>', ty)] if m]
    R.require(caps == [7], 'cname-limit', Q + 'follow_cname_2|capacity', f2.where(), 'previous-owners capacity 7 = 8 links - 1',
              'previous-owners vector capacities %s, expected [7] (at most 8 links)' % caps)
    tp = calls_in(f2, 'ArrayVec::<T, CAP>::try_push')
    ok = False
    for b, t in tp:
        # the is_ok() == false edge must build Err(ServFail) and not call follow_cname_1
        for bb in range(len(f2.blocks)):
            g = paths.direct_guards(f2, bb)
            if any(re.match(r'^Result::is_ok\(ArrayVec::try_push\(.*\)\) in \[0\]$', x) for x in g):
                cs = tables.region_consts(f2, {bb})
                if any('ProcessingError::ServFail' in c for c in cs):
                    ok = True
    R.require(len(tp) == 1 and ok, 'cname-limit', Q + 'follow_cname_2|overflow-servfail', f2.where(), 'try_push failure returns ServFail',
              'the arm taken when the chain exceeds its capacity no longer returns ProcessingError::ServFail')
    # follow_cname_1 is reachable from follow_cname_2 only on the try_push-ok edge
    f1calls = calls_in(f2, Q + 'follow_cname_1')
    ok = all(any(re.match(r'^Result::is_ok\(ArrayVec::try_push\(.*\)\) not in \[0\]$', x) for x in paths.dom_guards(f2, b)) for b, t in f1calls) and len(f1calls) == 1
    R.require(ok, 'cname-limit', Q + 'follow_cname_2|continue-only-after-push', f2.where(), 'chain continues only after the owner was recorded', 'follow_cname_1 is called without a successful try_push of the current owner')
    # loop detection in follow_cname_1
    ok = False
    for bb in range(len(f1.blocks)):
        g = paths.direct_guards(f1, bb)
        cs = tables.region_consts(f1, {bb})
        if any('ProcessingError::ServFail' in c for c in cs) and any(('contains' in x or 'Name::eq' in x or 'PartialEq' in x or 'eq(' in x) for x in g):
            ok = True
    allg = [x for bb in range(len(f1.blocks)) for x in paths.direct_guards(f1, bb)]
    has_eq = any(re.search(r'Name::eq\(|::eq\(.*arg2', x) for x in allg)
    has_contains = any('contains(' in x for x in allg)
    R.require(ok and has_eq and has_contains, 'cname-limit', Q + 'follow_cname_1|loop-servfail', f1.where(), 'loop (== QNAME or already seen) returns ServFail',
              'loop detection in follow_cname_1 incomplete: compares with QNAME=%s, with previous owners=%s, ServFail arm=%s' % (has_eq, has_contains, ok))
    # the answer record is written before recursing, and step 2 is only reached after it
    b_rr = [b for b, t in calls_in(f1, W + 'add_answer_rr')]
    b_f2 = [b for b, t in calls_in(f1, Q + 'follow_cname_2')]
    R.require(len(b_rr) == 1 and len(b_f2) == 1 and f1.dominates(b_rr[0], b_f2[0]), 'cname-limit', Q + 'follow_cname_1|write-then-follow', f1.where(), 'CNAME RR written before the next lookup', 'follow_cname_2 reachable without writing the CNAME RR')
    # ServFail handling
    hn = F.fn(HANDLE_NON_AXFR)
    pe = enum_variants(F, 'server::ProcessingError')
    sw = [(b, txt) for b, txt in tables.switches(hn, r'^discr\(.*@Err\.0\)$')]
    if len(sw) != 1:
        R.bad('cname-limit', HANDLE_NON_AXFR + '|servfail-arm', hn.where(), 'cannot find the match on the ProcessingError')
    else:
        rows = tables.table(hn, sw[0][0])
        row = tables.row_for(rows, pe.index('ServFail'))
        got = effect_set(hn, row['region'])
        R.require(got == {'set_aa(false)', 'set_rcode(SERVFAIL)', 'clear_rrs'}, 'cname-limit', HANDLE_NON_AXFR + '|servfail-arm', hn.where(row['target']),
                  'ServFail: AA cleared, SERVFAIL, records cleared', 'ServFail arm effects %s, expected set_aa(false), set_rcode(SERVFAIL), clear_rrs' % sorted(got))
    R.floor('cname-limit', 6)

    # ---- (d) referral glue
    check_referral_glue(R, F)

    # ---- (e) additional-section processing
    ap = F.fn(Q + 'do_additional_section_processing')
    R.require(not calls_in(ap, Q + 'add_additional_addresses'), 'additional', Q + 'do_additional_section_processing|optional-only', ap.where(),
              'no direct add_additional_addresses call', 'additional addresses are added outside execute_allowing_truncation')
    sw = [(b, txt) for b, txt in tables.switches(ap, r'^arg2\.0$')]
    if len(sw) != 1:
        R.bad('additional', Q + 'do_additional_section_processing|dispatch', ap.where(), 'expected one switch on the RR type code, found %d' % len(sw))
    else:
        rows = tables.table(ap, sw[0][0])
        want = {2: 0, 3: 0, 4: 0, 7: 0, 15: 2, 33: 6}
        seen = {}
        rn_calls = [(b, t) for b, t in ap.calls() if callee_name(t).endswith(Q + 'read_name_from_rdata')]
        ex_calls = [b for b, t in ap.calls() if callee_name(t).endswith(Q + 'execute_allowing_truncation')]
        for r in rows:
            offs = set()
            # offsets used by this arm: a constant argument of a read_name_from_rdata call inside the arm, or a constant
            # the arm assigns to the variable that a later, shared call passes as the offset
            for b, t in rn_calls:
                a = t['args'][1]
                reach = ap.find_path(r['target'], lambda x, b=b: x == b) is not None
                if not reach:
                    continue
                if a['k'] == 'const':
                    if b in r['region']:
                        m = re.match(r'^(\d+)_usize$', const_name(a))
                        offs.add(int(m.group(1)) if m else None)
                    continue
                l = ap.canon(a['pl'])['l'] if is_place(a) else None
                ds = [d for d in ap.defs().get(l, []) if not ap.blocks[d[0]]['cleanup']] if l is not None else []
                mine = [d for d in ds if d[0] in r['region'] or d[0] == r['target']]
                for d in mine:
                    rv = d[3].get('rv') if d[2] == 'assign' else None
                    m = re.match(r'^(\d+)_usize$', const_name(rv['op'])) if rv and rv['k'] == 'use' and rv['op']['k'] == 'const' else None
                    offs.add(int(m.group(1)) if m else None)
            uses_exec = any(ap.find_path(r['target'], lambda x, e=e: x == e) is not None for e in ex_calls) and bool(offs)
            for v in r['values']:
                seen[v] = (offs, uses_exec)
            if r['otherwise']:
                reach_rn = any(ap.find_path(r['target'], lambda x, b=b: x == b) is not None for b, t in rn_calls)
                R.require(not reach_rn, 'additional', Q + 'do_additional_section_processing|other-types', ap.where(r['target']), 'no processing for other types', 'fall-through arm performs additional-section processing')
        for v, off in sorted(want.items()):
            got = seen.get(v)
            R.require(got is not None and got[0] == {off} and got[1], 'additional', Q + 'do_additional_section_processing|type-%d' % v, ap.where(),
                      'type %d: name at RDATA offset %d, via execute_allowing_truncation' % (v, off),
                      'type %d: expected embedded name at RDATA offset %d through execute_allowing_truncation, got %s' % (v, off, got))
        extra = sorted(set(seen) - set(want))
        R.require(not extra, 'additional', Q + 'do_additional_section_processing|no-extra-types', ap.where(), 'exactly NS/MD/MF/MB/MX/SRV', 'unexpected types with additional-section processing: %s' % extra)
    R.floor('additional', 8)
