"""C24 — the zone-file parser is total and only yields valid records (static clauses)."""
import re

from qv.facts import callee_name, const_name, is_place
from qv.flow import slice_of
from qv import paths, tables
from qv.rulelib import calls_in
from rules import rdata_tables as rt

MODE = 'lib'
EXPLANATION = """
Decides structural clauses of C24 on src/zone_file:
(a) error latch: Parser::next tests the `error` flag before anything else and returns None when it is set; every path on
which it returns Some(Err(_)) sets the flag first; RecordsOnly::next latches on $INCLUDE; fs::Parser::next empties its
file stack on every Some(Err(_)) path and returns None on an empty stack;
(b) parse_type maps exactly TYPE 10 (NULL), 41 (OPT) and 250 (TSIG) to errors and every other value to Ok(type), and is
the only producer of a record's type;
(c) generic-form (\\#) validation: every (type, class) that Rdata::validate validates -- other than NULL/OPT/TSIG -- has
an explicit arm in parse_rdata, and that arm's \\# branch goes through parse_unknown_rdata_with_validation with the
validator Rdata::validate dispatches to for that (type, class) (for single-name types: the same name validator with
the same completeness requirement); only the fall-through arm uses the unvalidated form; the validated form returns Ok
only on the validator's Ok edge;
(d) a record's owner is a Box<Name> (absolute by construction, type-level).
Not decided: termination on arbitrary input (no variant analysis); panic freedom of the tokenizer is outside this check.
"""
ASSUMPTIONS = ['every CFG path is assumed feasible']
ZR = 'zone_file::record::<impl zone_file::Parser<S>>::'


def some_err_blocks(fn):
    """Blocks that assign `_0 = Some(x)` where x is a Result::Err aggregate."""
    out = []
    for b, bl in enumerate(fn.blocks):
        if bl['cleanup']:
            continue
        for st in bl['stmts']:
            if st['k'] == 'assign' and st['lhs']['l'] == 0 and not st['lhs']['p'] and st['rv']['k'] == 'agg' and st['rv']['def'].endswith('Option::Some') and st['rv']['ops']:
                txt = paths.show_operand(fn, st['rv']['ops'][0])
                if txt.startswith('Result::Err{') or txt.startswith('result::Result::Err{'):
                    out.append(b)
                elif is_place(st['rv']['ops'][0]):
                    sl = slice_of(fn, st['rv']['ops'][0], through_calls=False)
                    for n in sl.nodes:
                        if n[0] == 'local':
                            sd = fn.single_def(n[1])
                            if sd and sd[2] == 'assign' and sd[3]['rv']['k'] == 'agg' and sd[3]['rv']['def'].endswith('Result::Err'):
                                out.append(b)
    return sorted(set(out))


def validator_id(F, fn, t):
    """Identity of the validator handed to parse_unknown_rdata_with_validation at call t."""
    a = t['args'][1]
    if a['k'] == 'const' and a.get('def'):
        return ('fn', a['def'])
    if is_place(a):
        sl = slice_of(fn, a, through_calls=False)
        for c in sl.consts():
            if c.startswith('fn '):
                return ('fn', c[3:])
        for n in sl.nodes:
            if n[0] == 'local':
                sd = fn.single_def(n[1])
                if sd and sd[2] == 'assign' and sd[3]['rv']['k'] == 'agg' and sd[3]['rv']['ak'] == 'closure':
                    c = F.fns.get(sd[3]['rv']['def'])
                    if c is not None:
                        return ('calls', tuple(sorted(callee_name(tt) for bb, tt in c.calls() if 'validate' in callee_name(tt))))
    return ('?', None)


def leaf(F, ident):
    """Normalise: a helper that only forwards to Name::validate_* is identified by what it calls."""
    if ident[0] == 'fn':
        f = F.fns.get(ident[1])
        if f is not None and f.gpath == 'rr::rdata::helpers::validate_name':
            return ('calls', tuple(sorted(callee_name(tt) for bb, tt in f.calls() if 'validate' in callee_name(tt))))
        return ('fn', ident[1].replace('rr::rdata::Rdata::', '').split('::')[-1])
    return ident


def _passes_inner_error(fn, b):
    """The error payload of the Some(Err(e)) built in block b is, unmodified, the error the inner iterator's next()
    returned (value provenance, not the shape of the match)."""
    from qv import origins
    for i, st in enumerate(fn.blocks[b]['stmts']):
        if st['k'] == 'assign' and st['lhs']['l'] == 0 and not st['lhs']['p'] and st['rv']['k'] == 'agg' and st['rv']['def'].endswith('Option::Some') and st['rv']['ops'] and is_place(st['rv']['ops'][0]):
            o = st['rv']['ops'][0]
            leaves = origins._from_operand(fn, b, i, o, [('down', 'Err'), ('f', 0)], set(), 0)
            if leaves and all(l[0] == 'call' and callee_name(l[2]).endswith('Iterator>::next') and [x for x in l[3] if x[0] == 'down'][-1:] == [('down', 'Err')] for l in leaves):
                return True
    return False


def check(R, F):
    # ---- (a) latch
    nx = F.fn('<zone_file::Parser<S> as std::iter::Iterator>::next')
    sw0 = nx.blocks[0]['term']
    ok = sw0['k'] == 'switch' and paths.show_operand(nx, sw0['op']) == 'arg1.error'
    none_b = [b for b, bl in enumerate(nx.blocks) if not bl['cleanup'] for st in bl['stmts'] if st['k'] == 'assign' and st['lhs']['l'] == 0 and st['rv']['k'] == 'agg' and st['rv']['def'].endswith('Option::None')]
    ok = ok and any('arg1.error not in [0]' in paths.dom_guards(nx, b) for b in none_b)
    work = calls_in(nx, 'zone_file::Parser::<S>::parse_lines_until_returnable_data_found')
    ok = ok and len(work) == 1 and 'arg1.error in [0]' in paths.dom_guards(nx, work[0][0])
    R.require(ok, 'latch', nx.gpath + '|flag-first', nx.where(), 'error flag tested first; None once set; parsing only when clear', 'Parser::next does not test the error flag before parsing / return None when it is set')
    for b in some_err_blocks(nx):
        sets = [bb for bb, bl in enumerate(nx.blocks) if not bl['cleanup'] for st in bl['stmts'] if st['k'] == 'assign' and st['lhs']['p'] and isinstance(st['lhs']['p'][-1], dict) and st['lhs']['p'][-1].get('n') == 'error' and const_name(st['rv'].get('op', {'k': 'const', 'val': ''})) == 'true']
        okb = any(nx.dominates(s, b) for s in sets)
        R.require(okb, 'latch', nx.gpath + '|err-sets-flag#%d' % some_err_blocks(nx).index(b), nx.where(b), 'Some(Err) is returned only after error = true', 'Some(Err(_)) is returned on a path that does not set the error flag: the iterator would yield more after its first error')
    R.require(len(some_err_blocks(nx)) >= 1, 'latch', nx.gpath + '|err-sites', nx.where(), 'error return found', 'no Some(Err) return found (anchor)', nontrivial=False)
    # every error source of the helper reaches next's Err arm: the helper has no way to swallow an error
    ro = F.fn('<zone_file::RecordsOnly<S> as std::iter::Iterator>::next')
    for b in some_err_blocks(ro):
        g = paths.dom_guards(ro, b)
        if _passes_inner_error(ro, b):
            continue   # passing an inner error through: the inner parser has latched already
        sets = [bb for bb, bl in enumerate(ro.blocks) if not bl['cleanup'] for st in bl['stmts'] if st['k'] == 'assign' and st['lhs']['p'] and isinstance(st['lhs']['p'][-1], dict) and st['lhs']['p'][-1].get('n') == 'error' and const_name(st['rv'].get('op', {'k': 'const', 'val': ''})) == 'true']
        R.require(any(ro.dominates(s, b) for s in sets), 'latch', ro.gpath + '|include-latches', ro.where(b), 'the $INCLUDE error sets the inner flag', 'RecordsOnly::next returns its own error without latching')
    fs = F.fn('<zone_file::fs::Parser as std::iter::Iterator>::next')
    errs = some_err_blocks(fs)
    clears = [b for b, t in fs.calls() if callee_name(t).endswith('Vec::<T, A>::clear') and paths.show_operand(fs, t['args'][0]) == 'arg1.files']
    for k, b in enumerate(errs):
        R.require(any(fs.dominates(c, b) for c in clears), 'latch', fs.gpath + '|err-clears-stack#%d' % k, fs.where(b), 'the file stack is emptied before Some(Err) is returned', 'fs::Parser::next returns Some(Err(_)) at %s without emptying the file stack: it would continue with the including file afterwards' % fs.where(b))
    R.require(len(errs) >= 4, 'latch', fs.gpath + '|err-sites', fs.where(), '%d error returns' % len(errs), 'expected at least 4 error returns (parse error, too deep, invalid path, open failure), found %d' % len(errs))
    R.floor('latch', 8)

    # ---- (b) parse_type
    pt = F.fn(ZR + 'parse_type')
    sw = [(b, txt) for b, txt in tables.switches(pt) if len(pt.blocks[b]['term']['targets']) >= 3 and txt.endswith('.0')]
    ok = len(sw) == 1
    if ok:
        rows = tables.table(pt, sw[0][0])
        bad_vals = sorted(v for r in rows for v in r['values'])
        errs_ok = all(any('Result::Err' in c or 'Error::new' in n for c in r['consts'] for n in [c]) or any('Error::new' in c[0] for c in r['calls']) for r in rows if not r['otherwise'])
        other = [r for r in rows if r['otherwise']][0]
        ok = bad_vals == [10, 41, 250] and errs_ok and 'agg std::result::Result::Ok' in other['consts'] and not any('Error::new' in c[0] for c in other['calls'])
    R.require(ok, 'parse-type', pt.gpath, pt.where(), 'NULL, OPT and TSIG are rejected, everything else accepted', 'parse_type rejects %s' % (bad_vals if sw else 'unknown'))
    prr = [gp for gp, fn in F.fns.items() if gp.startswith('zone_file::') for bl in fn.blocks for st in bl['stmts'] if st['k'] == 'assign' and st['rv']['k'] == 'agg' and st['rv']['def'] == 'zone_file::ParsedRr']
    ok = len(prr) == 1
    if ok:
        fn = F.fns[prr[0]]
        st = [s for bl in fn.blocks for s in bl['stmts'] if s['k'] == 'assign' and s['rv']['k'] == 'agg' and s['rv']['def'] == 'zone_file::ParsedRr'][0]
        f = dict(zip(st['rv']['fields'], st['rv']['ops']))
        ty = paths.show_operand(fn, f['rr_type'])
        rd = paths.show_operand(fn, f['rdata'])
        ok = 'parse_type(' in ty and 'parse_rdata(' in rd and 'parse_type(' in rd
    R.require(ok, 'parse-type', 'zone_file::ParsedRr|type-from-parse-type', '', 'a record\'s type comes from parse_type and its RDATA from parse_rdata(class, that type)', 'ParsedRr is built in %s with type %s' % (prr, ty if prr else None))
    own = [f['ty'] for v in F.struct('zone_file::ParsedRr')['variants'] for f in v['fields'] if f['name'] == 'owner']
    R.require(own in (['std::rc::Rc<name::Name>'], ['std::boxed::Box<name::Name>']), 'parse-type', 'zone_file::ParsedRr|owner-is-name', '', 'owner: %s (absolute by construction)' % own, 'ParsedRr.owner has type %s' % own, nontrivial=False)

    # ---- (c) generic-form validation
    tv, _ = rt.extract(F.fn(rt.VALIDATE))
    tp, _ = rt.extract(F.fn(rt.PARSE_RDATA))
    if tv is None or tp is None:
        R.bad('generic-form', 'tables', '', 'cannot extract the dispatch tables (fails closed)')
        return
    skip = {10, 41, 250}
    for key in sorted((k for k in tv if k[0] != '_' and k[0] not in skip and tv[k]), key=str):
        vname = tv[key][0]
        prow = tp.get(key)
        if not prow:
            R.bad('generic-form', 'parse_rdata|%s/%s' % key, F.fn(rt.PARSE_RDATA).where(), '(type %s, class %s) is validated by %s but has no arm in parse_rdata: its \\# form would be accepted unvalidated' % (key[0], key[1], vname))
            continue
        pfn = F.fns.get('zone_file::' + prow[0].replace('record::', 'record::<impl zone_file::Parser<S>>::')) or F.fns.get(ZR + prow[0].split('::')[-1])
        if pfn is None:
            R.bad('generic-form', 'parse_rdata|%s/%s' % key, '', 'cannot resolve %s' % prow[0])
            continue
        uv = calls_in(pfn, ZR + 'parse_unknown_rdata_with_validation')
        plain = calls_in(pfn, ZR + 'parse_unknown_rdata')
        ok = len(uv) == 1 and not plain
        want = leaf(F, ('fn', 'rr::rdata::' + vname.replace('std13::', 'std13::<impl rr::rdata::Rdata>::').replace('srv::', 'srv::<impl rr::rdata::Rdata>::').replace('ipv6::', 'ipv6::<impl rr::rdata::Rdata>::')))
        if want[0] == 'fn':
            want = ('fn', vname.split('::')[-1])
        got = leaf(F, validator_id(F, pfn, uv[0][1])) if uv else None
        guard_ok = bool(uv) and any(re.match(r'^discr\(Result<T, E>::branch\(.*check_backslash_hash\(.*\)\)@Continue\.0 not in \[0\]$|^Result<T, E>::branch\(.*check_backslash_hash\(.*\)\)@Continue\.0 not in \[0\]$', x) for x in paths.dom_guards(pfn, uv[0][0]))
        R.require(ok and got == want and guard_ok, 'generic-form', 'parse_rdata|%s/%s' % key, pfn.where(uv[0][0]) if uv else pfn.where(),
                  '%s: \\# form validated with %s' % (prow[0].split('::')[-1], want[1] if want[0] == 'fn' else [paths.short(x) for x in want[1]]),
                  'the \\# form of (type %s, class %s) is validated with %s, but Rdata::validate uses %s%s' % (key[0], key[1], got, want, '' if guard_ok else ' (or the validated form is not on the \\# branch)'))
    dflt = tp.get(('_', '*'), [])
    R.require(any('parse_unknown_rdata' in x and 'validation' not in x for x in dflt), 'generic-form', 'parse_rdata|default', F.fn(rt.PARSE_RDATA).where(), 'unknown types use the unvalidated generic form', 'the fall-through arm of parse_rdata is %s' % dflt)
    extra = sorted((k for k in tp if k[0] != '_' and k not in tv), key=str)
    R.require(not extra, 'generic-form', 'parse_rdata|no-extra-arms', '', 'no arm without a validator', 'parse_rdata has arms %s that Rdata::validate does not know' % extra)
    # the validated form returns Ok only on the validator's Ok edge
    pv = F.fn(ZR + 'parse_unknown_rdata_with_validation')
    oks = [b for b, bl in enumerate(pv.blocks) if not bl['cleanup'] for st in bl['stmts'] if st['k'] == 'assign' and st['lhs']['l'] == 0 and st['rv']['k'] == 'agg' and st['rv']['def'].endswith('Result::Ok')]
    vcall = [b for b, t in pv.calls() if 'FnOnce' in callee_name(t) or 'call_once' in callee_name(t) or not t.get('callee')]
    ok = len(oks) == 1 and len(vcall) >= 1 and any(pv.dominates(v, oks[0]) for v in vcall) and any(re.search(r'(is_ok|discr\().*', x) for x in paths.dom_guards(pv, oks[0]))
    R.require(ok, 'generic-form', pv.gpath + '|ok-only-if-valid', pv.where(), 'Ok only after the validator accepted the RDATA', 'parse_unknown_rdata_with_validation can return Ok without the validator having accepted')
    R.floor('generic-form', 18)
