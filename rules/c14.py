"""C14 — wire-format name decoding is total and bounded (static clauses)."""
import re

from qv.facts import callee_name, const_int, is_place
from qv import paths
from qv.flags import FlagCFG
from rules import e5, namewire
from rules.namewire import NW, local_named

MODE = 'lib'
TECHNIQUE = 'static analysis: panic-site census over rustc MIR with dominating-guard linear entailment (Fourier-Motzkin), callee summaries verified at the producing statements, flag-sensitive path queries for the lemmas'
EXPLANATION = """
Decides, on the MIR of name/wire.rs and the six public Name wire functions, for ANY slice and ANY start offset:
(a) totality: every panic-capable site (bounds-checked index, range index, overflow-checked +/-, unwrap, ArrayVec::push)
is discharged -- by linear entailment from the guards that dominate it (E5), by a declared precondition that is proved
at every call site (parse_pointer: index < len), or by a lemma whose premises are machine-checked (at most 128 labels
are pushed; the first-chunk length is set before it is unwrapped);
(b) the summaries callers rely on: skip_compressed Ok(n) => 1 <= n <= len+1; parse_pointer Ok(p) => index+2 <= len and
p < chunk_start (strictly backwards, hence termination of the chunk loop); validate/parse_uncompressed Ok(n) => 1 <= n <=
len and n <= 255 (latched-counter lemma); parse_compressed Ok((_, n)) => 1 <= n and start+n <= len (first-chunk lemma);
the public functions are plain wrappers;
(c) limits, sibling agreement of the four decoders: each rejects a label length above 63 (LabelTooLong) and an
accumulated length above 255 (NameTooLong: smallest rejected value 256 of a length that counts the terminating null
label), and the label-offset vectors hold 128 entries;
(d) a compression pointer is the low 14 bits of the two octets at the label position.
Not decided: equality of the decoded name and length with a reference decoder (value-level); memory safety of
new_boxed_name (trusted unsafe code).
"""
ASSUMPTIONS = ['every CFG path feasible except those excluded by one boolean loop flag', 'arrayvec / core slice APIs behave as documented',
               'unsafe new_boxed_name trusted']
FNS = [NW + x for x in ('parse_uncompressed_name', 'validate_uncompressed_name', 'parse_compressed_name', 'parse_pointer', 'skip_compressed_name')]
PUBS = ['name::Name::' + x for x in ('try_from_compressed', 'try_from_uncompressed', 'try_from_uncompressed_all', 'validate_uncompressed', 'validate_uncompressed_all', 'skip_compressed')]


def first_chunk_set(F, fn, b):
    """Premise of `wire_len_of_first_chunk.unwrap()`: the chunk loop body runs at least once and every round sets it."""
    first, nxt, cs = local_named(fn, 'wire_len_of_first_chunk'), local_named(fn, 'next_chunk'), local_named(fn, 'chunk_start')
    if None in (first, nxt, cs):
        return False, 'locals not found'
    sd = fn.single_def(cs)
    body = sd[0] if sd else None
    gi = [bb for bb, t in fn.calls() if callee_name(t) == 'std::option::Option::<T>::get_or_insert' and fn.canon({'l': t['args'][0]['pl']['l'], 'p': ['deref'], 'ty': ''})['l'] == first]
    if body is None or len(gi) != 1:
        return False, 'loop body / get_or_insert not found'
    # loop header: the switch block whose Some edge enters `body`
    hdr = [p for p in fn.preds()[body] if fn.blocks[p]['term']['k'] == 'switch']
    if len(hdr) != 1:
        return False, 'loop header not found'
    h = hdr[0]
    outside = [(bb, i, k, n) for (bb, i, k, n) in fn.defs().get(nxt, []) if not fn.blocks[bb]['cleanup'] and not fn.dominates(body, bb)]
    some_first = len(outside) == 1 and outside[0][2] == 'assign' and outside[0][3]['rv']['k'] == 'agg' and outside[0][3]['rv']['def'].endswith('Option::Some') and fn.dominates(outside[0][0], h)
    # every way back to the header from the body passes get_or_insert
    back = paths.must_pass(fn, body, [h], lambda x: x == gi[0])
    # the unwrap is reachable only through the header
    only_via_h = fn.dominates(h, b)
    # the argument of unwrap is that option
    a = fn.blocks[b]['term']['args'][0]
    is_first = is_place(a) and fn.canon(a['pl'])['l'] == first
    ok = some_first and back is None and only_via_h and is_first
    return ok, 'next_chunk starts as Some(start): %s; every round reaches get_or_insert: %s; unwrap only after the loop: %s' % (some_first, back is None, only_via_h)


def label_vec_premise(gpath):
    def f(F, fn, b):
        class Rr:
            def require(self, ok, *a, **k):
                self.ok, self.detail = ok, (a[3] if ok else a[4])
        r = Rr()
        namewire.check_label_vec(r, F, 'x', gpath, '')
        return r.ok, r.detail
    return f


def name_slice_premise(F, fn, b):
    """`&octets[..wire_len]` in parse_uncompressed_name: wire_len is the latched `offset` counter, <= len(octets)."""
    from qv import origins
    from qv.bounds import Analyzer, le
    t = fn.blocks[b]['term']
    rng = t['args'][1]
    sd = fn.single_def(rng['pl']['l']) if is_place(rng) and not rng['pl']['p'] else None
    if not (sd and sd[2] == 'assign' and sd[3]['rv']['k'] == 'agg' and sd[3]['rv']['def'].endswith('RangeTo')):
        return False, 'not a ..end range'
    base = t['args'][0]
    if fn.canon({'l': base['pl']['l'], 'p': base['pl']['p'] + ['deref'], 'ty': ''})['l'] != 1:
        return False, 'the indexed slice is not the `octets` parameter'
    end = sd[3]['rv']['ops'][0]
    flag, off = local_named(fn, 'finished'), local_named(fn, 'offset')
    lv = origins.trace(fn, end['pl']['l'], [], at=(sd[0], sd[1])) if is_place(end) else []
    if flag is None or off is None or not lv or not all(lf[0] == 'rv' and lf[3]['k'] == 'use' and is_place(lf[3]['op']) and lf[3]['op']['pl']['l'] == off and not lf[3]['op']['pl']['p'] for lf in lv):
        return False, 'the range end is not the `offset` counter'
    an = Analyzer(fn, F, e5.make_summary(F))
    ok, detail = namewire.latched_counter(an, flag, off, lv[0][1], lambda e: [le(e, namewire.LEN1)])
    # the counter is not written between that read and the index call
    later = [bb for (bb, i, k, n) in fn.defs().get(off, []) if not fn.blocks[bb]['cleanup'] and bb != 0 and fn.find_path(lv[0][1], lambda x, bb=bb: x == bb) and fn.find_path(bb, lambda x: x == b) and bb != lv[0][1]]
    fc = FlagCFG(fn, flag)
    later = [bb for bb in later if fc.reaches(lv[0][1], True, [bb])]
    return ok and not later, detail if ok else detail


EXCEPTIONS = {
    (NW + 'parse_uncompressed_name', 'range-index', 1): ('wire_len is the offset counter latched when the null label was read: <= len(octets)', name_slice_premise),
    (NW + 'parse_compressed_name', 'foreign', 1): ('at most 128 labels are pushed into ArrayVec<u8, 128>', label_vec_premise(NW + 'parse_compressed_name')),
    (NW + 'parse_uncompressed_name', 'foreign', 1): ('at most 128 labels are pushed into ArrayVec<u8, 128>', label_vec_premise(NW + 'parse_uncompressed_name')),
    (NW + 'parse_compressed_name', 'unwrap', 1): ('the first-chunk length is set in every round of the chunk loop, which runs at least once', first_chunk_set),
}


def check_limits(R, F):
    """(c): thresholds of the LabelTooLong / NameTooLong rejections, normalised to the smallest rejected value."""
    for gp in FNS:
        if gp.endswith('parse_pointer'):
            continue
        fn = F.fn(gp)
        lab, name = [], []
        for b, blk in enumerate(fn.blocks):
            if blk['cleanup']:
                continue
            for st in blk['stmts']:
                if st['k'] == 'assign' and st['rv']['k'] == 'agg' and st['rv']['def'].endswith('Error::LabelTooLong'):
                    lab.append(b)
                if st['k'] == 'assign' and st['rv']['k'] == 'agg' and st['rv']['def'].endswith('Error::NameTooLong'):
                    name.append(b)
        def thresholds(bs):
            out = set()
            for b in bs:
                for g in paths.direct_guards(fn, b):
                    m = re.match(r'^(Gt|Ge)\((.*),(?:cast\()?(\d+)_u\w+\)?\) not in \[0\]$', g)
                    if m:
                        out.add(int(m.group(3)) + (1 if m.group(1) == 'Gt' else 0))
                    m = re.match(r'^(Le|Lt)\((.*),(?:cast\()?(\d+)_u\w+\)?\) in \[0\]$', g)
                    if m:
                        out.add(int(m.group(3)) + (1 if m.group(1) == 'Le' else 0))
            return out
        tl = thresholds(lab)
        R.require(bool(lab) and tl == {64}, 'limits', gp + '|label-63', fn.where(lab[0]) if lab else fn.where(), 'labels longer than 63 octets are rejected', 'LabelTooLong thresholds (smallest rejected length) are %s, expected {64}' % sorted(tl))
        if gp.endswith('parse_compressed_name'):
            ext = [(b, t) for b, t in fn.calls() if callee_name(t) == 'arrayvec::ArrayVec::<T, CAP>::try_extend_from_slice']
            caps = [re.search(r'ArrayVec<u8, (\d+)>', fn.local_ty(fn.canon({'l': t['args'][0]['pl']['l'], 'p': ['deref'], 'ty': ''})['l'])) for b, t in ext]
            ok = len(ext) == 1 and caps[0] and caps[0].group(1) == '255' and bool(name)
            R.require(ok, 'limits', gp + '|name-255', fn.where(), 'the reconstructed name is bounded by an ArrayVec<u8, 255> whose overflow is NameTooLong', 'the 255-octet limit is not enforced by a 255-octet buffer')
        else:
            tn = thresholds(name)
            R.require(bool(name) and tn == {256}, 'limits', gp + '|name-255', fn.where(name[0]) if name else fn.where(), 'names longer than 255 octets are rejected', 'NameTooLong thresholds (smallest rejected length) are %s, expected {256}' % sorted(tn))
    # skip_compressed_name: the length compared with 255 counts the terminating null label (offset + 1), for both chunk endings
    sk = F.fn(NW + 'skip_compressed_name')
    tup = [st for blk in sk.blocks if not blk['cleanup'] for st in blk['stmts'] if st['k'] == 'assign' and st['rv']['k'] == 'agg' and st['rv'].get('ak') == 'tuple' and len(st['rv']['ops']) == 2]
    shapes = sorted((paths.show_operand(sk, st['rv']['ops'][0]), paths.show_operand(sk, st['rv']['ops'][1])) for st in tup)
    if not tup:
        # the rule reads the two lengths off the (minimum uncompressed length, chunk length) pair the scan records; code
        # that carries them differently (two arguments of a helper, two variables) is a shape it does not decide
        R.bad('limits', NW + 'skip_compressed_name|uncompressed-length-counts-null', sk.where(), 'cannot find the (minimum uncompressed length, chunk length) pair in skip_compressed_name: shape not recognised')
        R.floor('limits', 9)
        return
    R.require(shapes == [('Add(var:usize,1_usize)', 'Add(var:usize,1_usize)'), ('Add(var:usize,1_usize)', 'Add(var:usize,2_usize)')], 'limits', NW + 'skip_compressed_name|uncompressed-length-counts-null', sk.where(),
              '(minimum uncompressed length, chunk length) = (offset+1, offset+1) for a null label and (offset+1, offset+2) for a pointer', 'skip_compressed_name tracks %s' % shapes)
    chk = [paths.show_operand(sk, sk.blocks[b]['term']['op']) for b in range(len(sk.blocks)) if sk.blocks[b]['term']['k'] == 'switch' and not sk.blocks[b]['cleanup']]
    R.require(any(re.match(r'^Gt\(\(?.*Some.*\.0\.0\)?,255_usize\)$|^Gt\(var:usize@Some\.0\.0,255_usize\)$', c) or ('.0.0' in c and c.startswith('Gt(') and c.endswith(',255_usize)')) for c in chk), 'limits', NW + 'skip_compressed_name|limit-on-uncompressed-length', sk.where(),
              'the 255 limit is applied to the minimum uncompressed length (field 0)', 'the final NameTooLong test does not compare the minimum uncompressed length with 255: %s' % chk)
    R.floor('limits', 9)


def check(R, F):
    S = e5.make_summary(F)
    fns = [F.fn(g) for g in FNS + PUBS]
    n = e5.run_sites(R, F, fns, 'totality', exceptions=EXCEPTIONS, S=S)
    R.floor('totality', 25, 'panic-capable sites counted in name/wire.rs')
    e5.check_pres(R, F, S, 'totality.pre', only=('name::wire::parse_pointer',))
    R.floor('totality.pre', 1)
    namewire.check_all(R, F, S, 'summary')
    R.floor('summary', 12)
    check_limits(R, F)
    R.extra['panic_sites'] = n
