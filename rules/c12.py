"""C12 — the writer serialises what it was given (static clauses)."""
import re

from qv.facts import callee_name, const_name, is_place, op_str
from qv.flow import slice_of
from qv import paths, effects
from qv.rulelib import W, calls_in, one_call
from rules import writer_common as wc

MODE = 'lib'
EXPLANATION = """
Decides structural clauses of C12 on the MIR of message::writer:
(a) rollback completeness: the Writer fields that code reachable from a with_rollback closure may write are either
saved and restored by with_rollback, or written by the closure itself at a point after which no error return is
reachable (the section counters) -- so a failed operation leaves the message unchanged; with_rollback restores exactly
what it saved and only on the error edge;
(b) no overrun: `octets` is written only by the header setters (constant header offsets), write_u16, the constructors
and try_push, and in try_push the copy is dominated by the cursor+len <= available test;
(c) the OPT TTL (extended RCODE bits) never passes through a clamping Ttl constructor;
(d) set_limit stores min(new, len(octets)) when growing and max(new, cursor + reserved) when shrinking, and adjusts
`available` on both paths;
(e) clear_rrs resets exactly the fields the add_* operations may have changed (not qname, rr_start, limits, EDNS/TSIG
state) and recomputes ARCOUNT from the reservations.
(b') the Writer invariant 12 <= rr_start <= cursor <= available <= limit <= len(octets) holds after every store (E5), and the
raw writers' preconditions (position + len <= len(octets)) are proved at every call site: no operation writes outside
the buffer or beyond the limit.
(g) in case-preserving compression mode a name is never replaced by a pointer taken from a hint (hints promise equality
only up to ASCII case), so decoded names keep the case they were given.
(t) Error::Truncation is produced only by tests of the space actually about to be consumed (the amount compared with
available - cursor is the amount the success path then consumes); no operation gives up on an estimate, so whatever
fits is written.
Not decided: decoded-equals-given for arbitrary operation sequences; "fits uncompressed => never truncates".
"""
ASSUMPTIONS = ['trait-object and generic calls fan out to every implementation in the crate', 'every CFG path is assumed feasible']

def check(R, F):
    from rules import e5, writer_inv
    _S = e5.make_summary(F)
    writer_inv.check(R, F, _S)
    e5.check_pres(R, F, _S, 'writer-invariant.pre', only=("message::writer::Writer::<'a>::write", "message::writer::Writer::<'a>::write_u16"))
    R.floor('writer-invariant.pre', 5)
    wc.check_truncation_exact(R, F)

    # ---- (a)
    restored = wc.check_rollback_completeness(R, F, 'rollback')

    # ---- (b)
    wc.check_no_overrun(R, F)

    # ---- (c)
    wc.check_ttl_not_clamped_on_write(R, F, 'opt-ttl-raw')

    wc.check_anchor_freshness(R, F)

    # ---- (d) set_limit
    sl_fn = F.fn(W + 'set_limit')
    dw = effects.direct_writes(sl_fn)
    lim_sites = [b for b, k in dw.get((wc.WRITER_TY, 'limit'), []) if k == 'assign']
    av_sites = [b for b, k in dw.get((wc.WRITER_TY, 'available'), []) if k == 'assign']
    seen = {'grow': False, 'shrink': False}
    for b in lim_sites:
        st = [s for s in sl_fn.blocks[b]['stmts'] if s['k'] == 'assign' and s['lhs']['p'] and s['lhs']['p'][-1].get('n') == 'limit'][0]
        s = slice_of(sl_fn, st['rv']['op'])
        names = s.call_names()
        g = paths.dom_guards(sl_fn, b)
        grow = any(re.match(r'^Ge\(arg2,arg1\.limit\) not in \[0\]$', x) for x in g)
        shrink = any(re.match(r'^Ge\(arg2,arg1\.limit\) in \[0\]$', x) for x in g)
        if grow:
            ok = any(n.endswith('::min') for n in names) and any('len' in n for n in names) or any(fp[:1] == ('octets',) for fp in s.field_paths()) and any(n.endswith('::min') for n in names)
            seen['grow'] = True
            R.require(ok, 'set-limit', W + 'set_limit|grow-clamped-to-buffer', sl_fn.where(b), 'limit = min(new_limit, len(octets))', 'growing set_limit no longer clamps to the buffer length')
        if shrink:
            f = s.fields()
            ok = any(n.endswith('::max') for n in names) and {'cursor', 'limit', 'available'} <= f
            seen['shrink'] = True
            R.require(ok, 'set-limit', W + 'set_limit|shrink-clamped-to-content', sl_fn.where(b), 'limit = max(new_limit, cursor + limit - available)', 'shrinking set_limit no longer clamps to cursor + reserved space')
    R.require(seen['grow'] and seen['shrink'] and len(av_sites) == 2 and len(lim_sites) == 2, 'set-limit', W + 'set_limit|both-paths-adjust', sl_fn.where(),
              'limit and available are adjusted on the grow and on the shrink path', 'set_limit does not adjust both limit and available on both paths (limit writes %d, available writes %d)' % (len(lim_sites), len(av_sites)))
    for b in av_sites:
        st = [s for s in sl_fn.blocks[b]['stmts'] if s['k'] == 'assign' and s['lhs']['p'] and s['lhs']['p'][-1].get('n') == 'available'][0]
        txt = paths.show_operand(sl_fn, st['rv']['op'])
        ok = re.search(r'^(Add|Sub)\(arg1\.available,Sub\(', txt) is not None
        R.require(ok, 'set-limit', W + 'set_limit|available-delta@%s' % ('grow' if txt.startswith('Add') else 'shrink'), sl_fn.where(b), 'available moves by the same delta as limit: ' + txt, 'available is not adjusted by the limit delta: ' + txt)

    # ---- (e) clear_rrs
    wc.check_clear_rrs(R, F)
    R.floor('set-limit', 5)

    # ---- (g) case-preserving mode never trusts a hint (shared with C13)
    from rules import c13 as _c13
    _c13.check_case_preserving(R, F)
