"""C12 — the writer serialises what it was given (static clauses)."""
import re

from qv.facts import callee_name, const_name, is_place, op_str
from qv.flow import slice_of
from qv import paths, effects
from qv.rulelib import W, calls_in, one_call
from rules import writer_common as wc

MODE = 'lib'
EXPLANATION = """
Decides structural clauses of C12 on the MIR of message::writer:
(a) rollback completeness: the Writer fields that code reachable from a with_rollback closure may write are either
saved and restored by with_rollback, or written by the closure itself at a point after which no error return is
reachable (the section counters) -- so a failed operation leaves the message unchanged; with_rollback restores exactly
what it saved and only on the error edge;
(b) no overrun: `octets` is written only by the header setters (constant header offsets), write_u16, the constructors
and try_push, and in try_push the copy is dominated by the cursor+len <= available test;
(c) the OPT TTL (extended RCODE bits) never passes through a clamping Ttl constructor;
(d) set_limit stores min(new, len(octets)) when growing and max(new, cursor + reserved) when shrinking, and adjusts
`available` on both paths;
(e) clear_rrs resets exactly the fields the add_* operations may have changed (not qname, rr_start, limits, EDNS/TSIG
state) and recomputes ARCOUNT from the reservations.
Not decided: decoded-equals-given for arbitrary operation sequences; "fits uncompressed => never truncates".
"""
ASSUMPTIONS = ['trait-object and generic calls fan out to every implementation in the crate', 'every CFG path is assumed feasible']

HEADER_SETTERS = ['set_id', 'set_qr', 'set_opcode', 'set_aa', 'set_tc', 'set_rd', 'set_ra', 'set_rcode', 'set_extended_rcode']


def octets_writers(F):
    """Writer methods that write into the buffer: index_mut / copy / fill on `octets`, or indexed stores."""
    out = {}
    for gp, fn in F.fns.items():
        if not gp.startswith('message::writer::'):
            continue
        hits = []
        for b, blk in enumerate(fn.blocks):
            if blk['cleanup']:
                continue
            for st in blk['stmts']:
                if st['k'] == 'assign' and st['lhs']['p']:
                    c = fn.canon(st['lhs'])
                    names = [p['n'] for p in c['p'] if isinstance(p, dict) and 'f' in p]
                    if names[:1] == ['octets'] and any(isinstance(p, dict) and ('idx' in p or 'cidx' in p) for p in c['p']) and effects.strip_ty(fn.local_ty(c['l'])) == wc.WRITER_TY:
                        hits.append(b)
            t = blk['term']
            if t['k'] == 'call':
                n = callee_name(t)
                if ('IndexMut' in n or 'index_mut' in n or n.endswith('copy_from_slice') or n.endswith('::fill') or 'copy_within' in n) and t['args'] and is_place(t['args'][0]):
                    sl = slice_of(fn, t['args'][0], through_calls=True)
                    if any(fp[:1] == ('octets',) for fp in sl.field_paths()) or any('octets' in n2 for n2 in sl.places()):
                        hits.append(b)
        if hits:
            out[gp] = sorted(set(hits))
    return out


def check(R, F):
    # ---- (a)
    restored = wc.check_rollback_completeness(R, F, 'rollback')

    # ---- (b)
    ow = octets_writers(F)
    allowed = {W + s for s in HEADER_SETTERS} | {W + 'new', W + 'try_from_template_impl', W + 'write'}
    for gp in sorted(ow):
        fn = F.fns[gp]
        R.require(gp in allowed, 'octets-writers', gp, fn.where(ow[gp][0]), 'allowed buffer writer',
                  '%s writes into the message buffer but is not one of the bounded writers (header setters, write_u16, constructors, try_push)' % gp)
    R.floor('octets-writers', 10)
    # the raw writer `write` is called only by try_push (under the space test) and write_u16
    wcallers = sorted({fn.gpath for fn in F.fns.values() for b, t in calls_in(fn, W + 'write')})
    R.require(wcallers == sorted([W + 'try_push', W + 'write_u16']), 'octets-writers', W + 'write|callers', F.fn(W + 'write').where(),
              'raw write is called only by try_push and write_u16', 'the unchecked raw writer is called by %s, expected only try_push and write_u16' % wcallers)
    tp = F.fn(W + 'try_push')
    for b, t in calls_in(tp, W + 'write'):
        ok = False
        for s_ in tp.doms(b):
            for p in tp.preds()[s_]:
                sw = tp.blocks[p]['term']
                if sw['k'] == 'switch' and not tp.dominates(s_, p):
                    txt = paths.explain_edge(tp, p, s_)
                    if txt and re.match(r'^Ge\(Sub\(arg1\.available,arg1\.cursor\),slice::len\(arg2\)\) not in \[0\]$', txt):
                        ok = True
        pos = paths.show_operand(tp, t['args'][1])
        R.require(ok and pos == 'arg1.cursor', 'try-push-guard', W + 'try_push|write', tp.where(b),
                  'write(cursor, data) is dominated by available - cursor >= len(data)', 'the buffer write in try_push is not dominated by the available - cursor >= len(data) test, or does not write at the cursor (%s)' % pos)
    # cursor advances by exactly len(data) after the write
    dwp = effects.direct_writes(tp)
    for b, k in dwp.get((wc.WRITER_TY, 'cursor'), []):
        st = [s2 for s2 in tp.blocks[b]['stmts'] if s2['k'] == 'assign' and s2['lhs']['p'] and s2['lhs']['p'][-1].get('n') == 'cursor']
        txt = paths.show_operand(tp, st[0]['rv']['op']) if st else '?'
        R.require(txt == 'Add(arg1.cursor,slice::len(arg2))', 'try-push-guard', W + 'try_push|advance', tp.where(b), 'cursor += len(data)', 'try_push advances the cursor by %s' % txt)
    R.floor('try-push-guard', 2)
    # write_u16 callers: constant header offsets or the RDLENGTH slot reserved in add_rr
    for fn, b, t in [(fn, b, t) for fn in F.fns.values() if fn.gpath.startswith('message::writer::') for b, t in calls_in(fn, W + 'write_u16')]:
        a = t['args'][1]
        if a['k'] == 'const':
            v = int(re.match(r'(\d+)', const_name(a)).group(1))
            R.require(v + 2 <= 12, 'write-u16-offset', '%s|const-%d' % (fn.gpath, v), fn.where(b), 'header offset %d' % v, 'write_u16 at constant offset %d is outside the header' % v)
        else:
            # must be the saved cursor taken after the `available - cursor >= 2` test
            txt = paths.show_operand(fn, a)
            g = paths.dom_guards(fn, b)
            ok = any(re.search(r'Lt\(Sub\(.*available.*cursor.*\),2_usize\) in \[0\]', x) for x in g) and 'cursor' in txt
            R.require(ok, 'write-u16-offset', '%s|%s' % (fn.gpath, 'rdlength-slot'), fn.where(b), 'RDLENGTH slot reserved under available - cursor >= 2',
                      'write_u16 at a variable offset (%s) that is not the RDLENGTH slot reserved under the available - cursor >= 2 test' % txt)
    R.floor('write-u16-offset', 5)

    # ---- (c)
    wc.check_ttl_not_clamped_on_write(R, F, 'opt-ttl-raw')

    # ---- (d) set_limit
    sl_fn = F.fn(W + 'set_limit')
    dw = effects.direct_writes(sl_fn)
    lim_sites = [b for b, k in dw.get((wc.WRITER_TY, 'limit'), []) if k == 'assign']
    av_sites = [b for b, k in dw.get((wc.WRITER_TY, 'available'), []) if k == 'assign']
    seen = {'grow': False, 'shrink': False}
    for b in lim_sites:
        st = [s for s in sl_fn.blocks[b]['stmts'] if s['k'] == 'assign' and s['lhs']['p'] and s['lhs']['p'][-1].get('n') == 'limit'][0]
        s = slice_of(sl_fn, st['rv']['op'])
        names = s.call_names()
        g = paths.dom_guards(sl_fn, b)
        grow = any(re.match(r'^Ge\(arg2,arg1\.limit\) not in \[0\]$', x) for x in g)
        shrink = any(re.match(r'^Ge\(arg2,arg1\.limit\) in \[0\]$', x) for x in g)
        if grow:
            ok = any(n.endswith('::min') for n in names) and any('len' in n for n in names) or any(fp[:1] == ('octets',) for fp in s.field_paths()) and any(n.endswith('::min') for n in names)
            seen['grow'] = True
            R.require(ok, 'set-limit', W + 'set_limit|grow-clamped-to-buffer', sl_fn.where(b), 'limit = min(new_limit, len(octets))', 'growing set_limit no longer clamps to the buffer length')
        if shrink:
            f = s.fields()
            ok = any(n.endswith('::max') for n in names) and {'cursor', 'limit', 'available'} <= f
            seen['shrink'] = True
            R.require(ok, 'set-limit', W + 'set_limit|shrink-clamped-to-content', sl_fn.where(b), 'limit = max(new_limit, cursor + limit - available)', 'shrinking set_limit no longer clamps to cursor + reserved space')
    R.require(seen['grow'] and seen['shrink'] and len(av_sites) == 2 and len(lim_sites) == 2, 'set-limit', W + 'set_limit|both-paths-adjust', sl_fn.where(),
              'limit and available are adjusted on the grow and on the shrink path', 'set_limit does not adjust both limit and available on both paths (limit writes %d, available writes %d)' % (len(lim_sites), len(av_sites)))
    for b in av_sites:
        st = [s for s in sl_fn.blocks[b]['stmts'] if s['k'] == 'assign' and s['lhs']['p'] and s['lhs']['p'][-1].get('n') == 'available'][0]
        txt = paths.show_operand(sl_fn, st['rv']['op'])
        ok = re.search(r'^(Add|Sub)\(arg1\.available,Sub\(', txt) is not None
        R.require(ok, 'set-limit', W + 'set_limit|available-delta@%s' % ('grow' if txt.startswith('Add') else 'shrink'), sl_fn.where(b), 'available moves by the same delta as limit: ' + txt, 'available is not adjusted by the limit delta: ' + txt)

    # ---- (e) clear_rrs
    cr = F.fn(W + 'clear_rrs')
    dw = effects.direct_writes(cr)
    written = {f for (c, f), sites in dw.items() if c == wc.WRITER_TY and any(k in ('assign', 'calldest') for b, k in sites)}
    want = {'ancount', 'nscount', 'arcount', 'cursor', 'section', 'most_recent_owner', 'most_recent_name_in_rdata'}
    R.require(written == want, 'clear-rrs', W + 'clear_rrs|fields', cr.where(), 'resets %s' % sorted(written),
              'clear_rrs writes %s, expected exactly %s (missing %s, extra %s)' % (sorted(written), sorted(want), sorted(want - written), sorted(written - want)))
    # must reset everything add_* may write except octets / counters handled above
    add_roots = [c.gpath for p, c in wc.rollback_closures(F) if p.gpath != W + 'add_question']
    addw = set(effects.transitive_writes(F, add_roots, wc.WRITER_TY))
    R.require(addw - {'qname'} <= want, 'clear-rrs', W + 'clear_rrs|covers-add-effects', cr.where(), 'add_* may write %s, all reset' % sorted(addw),
              'add_* operations may write %s which clear_rrs does not reset' % sorted(addw - want))
    # cursor := rr_start
    for b, blk in enumerate(cr.blocks):
        for st in blk['stmts']:
            if st['k'] == 'assign' and st['lhs']['p'] and st['lhs']['p'][-1].get('n') == 'cursor':
                txt = paths.show_operand(cr, st['rv']['op'])
                R.require(txt == 'arg1.rr_start', 'clear-rrs', W + 'clear_rrs|cursor', cr.where(b), 'cursor = rr_start', 'clear_rrs sets cursor to %s, expected rr_start' % txt)
    # arcount recomputed from reservations
    g_all = [x for b in range(len(cr.blocks)) for x in paths.direct_guards(cr, b)]
    R.require(any('arg1.edns' in x for x in g_all) and any('arg1.tsig' in x for x in g_all), 'clear-rrs', W + 'clear_rrs|arcount-keeps-reservations', cr.where(),
              'ARCOUNT recounts the reserved OPT and TSIG records', 'clear_rrs no longer recounts the reserved OPT/TSIG records in ARCOUNT')
    R.floor('clear-rrs', 4)
    R.floor('set-limit', 5)
