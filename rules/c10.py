"""C10 — TSIG-signed requests are authenticated before being answered (static clauses)."""
import re

from qv.facts import callee_name, const_name, is_place
from qv.flow import slice_of
from qv import paths, tables
from qv.rulelib import succeeded_before, HMWC, HANDLE_QUERY, W, calls_in, enum_variants, mutates_response
from rules import writer_common as wc

MODE = 'lib'
EXPLANATION = """
Decides structural clauses of C10 (oracle: RFC 8945 §5.2, §5.3 and the table in the property):
(a) verification_core: the MAC is verified only on paths on which check_mac_size returned Ok, the time is checked only
on paths on which verify_truncated_left returned Ok, and Ok is returned only after check_time returned Ok -- decided by
the provenance of the value each dominating branch tests (through `?`, `.or(..)`, an extracted helper's return slot);
(b) the response table of verify_tsig_and_write_tsig_rr: Ok -> (NOERROR, 0, signed response), BadSig -> (NOTAUTH, 16,
unsigned), BadTime -> (NOTAUTH, 18, signed with the request MAC), FormErr -> (FORMERR, 16, unsigned); unknown algorithm
and unknown key -> NOTAUTH + BADKEY(17) unsigned; the function returns rcode == NOERROR;
(c) gate: inside the TSIG arm every exit other than the `true` result of verify_tsig_and_write_tsig_rr returns without
touching the response again, and opcode dispatch is reached from that arm only through it;
(d) the key lookup requires the key name AND the configured algorithm to match;
(e) ReadTsigRr::try_from rejects class != ANY or TTL != 0 with FormErr, and the TTL it tests is the raw field (not a Ttl
value that has been through the RFC 2181 clamp, for which 0x80000000 reads as 0);
(f) the TSIG arm is taken only for the last additional record;
(g) the time check accepts exactly |now - time signed| <= fudge at full width: the fudge is widened to u64, the clock
difference is never narrowed (a skew of k*65536 s must not alias to a small one) -- rule shared with C11.
Not decided: MAC values (C11), time arithmetic on arbitrary clocks.
"""
ASSUMPTIONS = ['hmac/sha crates trusted', 'every CFG path is assumed feasible']
TS = 'message::tsig::'


def tsig_setters(F):
    """Writer::set_tsig and thin wrappers around it in server::* : {gpath: (index of the mode argument, of the record)}.
    A wrapper calls set_tsig exactly once, before any other effect on the response, with two of its own parameters."""
    out = {W + 'set_tsig': (1, 2)}
    for gp, fn in F.fns.items():
        if not gp.startswith('server::') or fn.crate != 'quandary':
            continue
        cs = calls_in(fn, W + 'set_tsig')
        if len(cs) != 1:
            continue
        b, t = cs[0]
        m1 = re.match(r'^arg(\d)$', paths.show_operand(fn, t['args'][1]))
        m2 = re.match(r'^arg(\d)$', paths.show_operand(fn, t['args'][2]))
        first = all(fn.dominates(b, bb) for bb, tt in fn.calls() if bb != b and mutates_response(fn, tt))
        if m1 and m2 and first:
            out[gp] = (int(m1.group(1)) - 1, int(m2.group(1)) - 1)
    return out


def tsig_calls(fn, setters):
    """[(block, term, mode operand, record operand)] for calls of set_tsig or one of its wrappers."""
    out = []
    for b, t in fn.calls():
        n = callee_name(t)
        if n in setters and fn.gpath != n and not (fn.gpath in setters and n == W + 'set_tsig'):
            mi, ri = setters[n]
            out.append((b, t, t['args'][mi], t['args'][ri]))
    return out


def _table_by_provenance(F, vt, ve):
    """{outcome: (rcode, tsig error, mode variant, mode text, block)} when the three values are decided in separate steps:
    each value that reaches set_rcode / the prepared TSIG RR / the TSIG mode is traced to the statements that produced it,
    and each such statement is attributed to the outcomes (arms of the match on verify_request's result) it is reached
    under.  {} if any value cannot be attributed."""
    from qv import origins
    setters = tsig_setters(F)
    st_ = tsig_calls(vt, setters)
    sr = calls_in(vt, W + 'set_rcode')
    if len(st_) != 1 or len(sr) != 1:
        return {}
    prep_op = st_[0][3]
    pd = vt.single_def(prep_op['pl']['l']) if is_place(prep_op) and not prep_op['pl']['p'] else None
    if not pd or pd[2] != 'call' or not callee_name(pd[3]).endswith('PreparedTsigRr::new_from_read') or len(pd[3]['args']) < 4:
        return {}

    def outcomes(b):
        res = set()
        for gs in paths.reaching_guard_sets(vt, b):
            got = None
            for x in gs:
                if re.match(r'^discr\(ReadTsigRr::verify_request\(arg1,arg2,arg3,arg4,arg5\)\) in \[0\]$', x):
                    got = {'Ok'}
                m = re.match(r'^discr\(ReadTsigRr::verify_request\(arg1,arg2,arg3,arg4,arg5\)@Err\.0\) in \[([\d, ]+)\]$', x)
                if m:
                    got = {ve[int(v)] for v in m.group(1).split(',')}
                m = re.match(r'^discr\(ReadTsigRr::verify_request\(arg1,arg2,arg3,arg4,arg5\)@Err\.0\) not in \[([\d, ]+)\]$', x)
                if m:
                    got = set(ve) - {ve[int(v)] for v in m.group(1).split(',')}
            if got is None:
                return None
            res |= got
        return res

    def per_outcome(o, at):
        if not is_place(o):
            return None
        c = vt.canon(o['pl'])
        out = {}
        for lf in origins.trace(vt, c['l'], origins.norm_path(c['p']), at=at):
            if lf[0] == 'const':
                v, b = paths.show_operand(vt, lf[1]), lf[2]
            elif lf[0] == 'rv' and lf[3].get('k') == 'agg':
                v, b = '%s{%s}' % (paths.short(lf[3]['def']), ','.join(paths.show_operand(vt, x) for x in lf[3]['ops'])), lf[1]
            elif lf[0] == 'rv' and lf[3].get('k') == 'use':
                v, b = paths.show_operand(vt, lf[3]['op']), lf[1]
            else:
                return None
            oc = outcomes(b)
            if not oc:
                return None
            for k in oc:
                if k in out and out[k] != (v, b):
                    return None
                out[k] = (v, b)
        return out
    rc = per_outcome(sr[0][1]['args'][1], (sr[0][0], None))
    er = per_outcome(pd[3]['args'][3], (pd[0], None))
    md = per_outcome(st_[0][2], (st_[0][0], None))
    if not rc or not er or not md or not (set(rc) == set(er) == set(md)):
        return {}
    rows = {}
    for k in rc:
        mode = re.match(r'^(?:writer::)?TsigMode::(\w+)', md[k][0])
        rows[k] = (rc[k][0], er[k][0], mode.group(1) if mode else md[k][0], md[k][0], md[k][1])
    return rows


def check(R, F):
    # ---- (a) order in verification_core
    vc = F.fn(TS + "ReadTsigRr::<'_>::verification_core")
    def blk(suffix):
        c = [b for b, t in vc.calls() if callee_name(t).endswith(suffix)]
        return c[0] if len(c) == 1 else None
    cms, vtl, ct = blk(TS + 'check_mac_size'), blk('Authenticator::verify_truncated_left'), blk(TS + 'check_time')
    oks = [b for b, bl in enumerate(vc.blocks) if not bl['cleanup'] for st in bl['stmts'] if st['k'] == 'assign' and st['lhs']['l'] == 0 and st['rv']['k'] == 'agg' and st['rv']['def'].endswith('Result::Ok')]
    ok = None not in (cms, vtl, ct) and len(oks) == 1
    R.require(ok, 'verify-order', vc.gpath + '|anchors', vc.where(), 'check_mac_size, verify_truncated_left, check_time and one Ok', 'cannot find exactly one call of each of the three checks and one Ok return')
    if ok:
        is_cms = lambda t: callee_name(t) == TS + 'check_mac_size'
        is_vtl = lambda t: callee_name(t).endswith('Authenticator::verify_truncated_left')
        is_ct = lambda t: callee_name(t) == TS + 'check_time'
        order = succeeded_before(vc, vtl, is_cms) and succeeded_before(vc, ct, is_vtl)
        R.require(order, 'verify-order', vc.gpath + '|size-then-mac-then-time', vc.where(oks[0]), 'MAC size accepted before the MAC is verified; MAC verified before the time is checked', 'the MAC is verified on a path on which check_mac_size did not succeed, or the time is checked on a path on which the MAC was not verified (RFC 8945 §5.2)')
        allthree = succeeded_before(vc, oks[0], is_ct) and order
        R.require(allthree, 'verify-order', vc.gpath + '|ok-only-on-success-edges', vc.where(oks[0]), 'Ok only after all three checks succeeded', 'Ok is reachable without the success of every check (size, MAC, time)')
        # MAC failure maps to BadSig, and the MAC verified is the record's MAC
        orr = [t for b, t in vc.calls() if callee_name(t).endswith('Result::<T, E>::or')]
        form_or = len(orr) == 1 and 'VerificationError::BadSig' in paths.show_operand(vc, orr[0]['args'][1])
        if not form_or:
            # written out: `if verify(..).is_err() { return Err(BadSig) }` / a match on Err -- BadSig is built exactly
            # where the MAC verification is known to have failed
            from qv.rulelib import failed_before
            bs = [b_ for b_, bl in enumerate(vc.blocks) if not bl['cleanup'] for st in bl['stmts'] if st['k'] == 'assign' and st['rv']['k'] == 'agg' and st['rv']['def'].endswith('VerificationError::BadSig')]
            form_or = len(bs) >= 1 and all(failed_before(vc, b_, is_vtl) for b_ in bs)
        R.require(form_or, 'verify-order', vc.gpath + '|mac-mismatch-is-badsig', vc.where(), 'MAC mismatch -> BadSig', 'a MAC mismatch is not mapped to BadSig')
        mac_arg = paths.show_operand(vc, vc.blocks[vtl]['term']['args'][1])
        R.require(mac_arg == 'ReadTsigRr::mac(arg1)', 'verify-order', vc.gpath + '|verifies-record-mac', vc.where(vtl), 'verifies self.mac()', 'verify_truncated_left is given %s' % mac_arg)
    R.floor('verify-order', 5)

    # ---- (b) response table
    vt = F.fn('server::verify_tsig_and_write_tsig_rr')
    ve = enum_variants(F, TS + 'VerificationError')
    rows = {}
    for b, bl in enumerate(vt.blocks):
        if bl['cleanup']:
            continue
        for st in bl['stmts']:
            if st['k'] == 'assign' and st['rv']['k'] == 'agg' and st['rv']['ak'] == 'tuple' and len(st['rv']['ops']) == 3:
                ops = [paths.show_operand(vt, o) for o in st['rv']['ops']]
                g = paths.dom_guards(vt, b)
                key = None
                for x in g:
                    m = re.match(r'^discr\(ReadTsigRr::verify_request\(arg1,arg2,arg3,arg4,arg5\)\) in \[0\]$', x)
                    if m:
                        key = 'Ok'
                    m = re.match(r'^discr\(ReadTsigRr::verify_request\(arg1,arg2,arg3,arg4,arg5\)@Err\.0\) in \[(\d)\]$', x)
                    if m:
                        key = ve[int(m.group(1))]
                mode = re.match(r'^TsigMode::(\w+)', ops[2])
                rows[key] = (ops[0], ops[1], mode.group(1) if mode else ops[2], ops[2], b)
    spec = {'Ok': ('Rcode(0_u8)', 'ExtendedRcode(0_u16)', 'Response'), 'BadSig': ('Rcode(9_u8)', 'ExtendedRcode(16_u16)', 'Unsigned'),
            'BadTime': ('Rcode(9_u8)', 'ExtendedRcode(18_u16)', 'Response'), 'FormErr': ('Rcode(1_u8)', 'ExtendedRcode(16_u16)', 'Unsigned')}
    if not rows:
        rows = _table_by_provenance(F, vt, ve)
    if not rows:
        # the rule reads the table off one (rcode, error, mode) tuple per outcome; a function that decides the three in
        # separate steps is a different program shape that it does not decide
        R.bad('tsig-table', vt.gpath + '|table', vt.where(), 'cannot find the (rcode, TSIG error, mode) tuples of verify_tsig_and_write_tsig_rr: shape not recognised')
    for k, want in (spec.items() if rows else ()):
        got = rows.get(k)
        R.require(got is not None and got[:3] == want, 'tsig-table', vt.gpath + '|' + k, vt.where(got[4]) if got else vt.where(), '%s -> %s' % (k, want), 'outcome %s produces %s, the RFC 8945 table prescribes %s' % (k, got[:3] if got else None, want))
        if got and want[2] == 'Response':
            R.require('ReadTsigRr::mac(arg1)' in got[3] and 'arg3' in got[3] and 'arg4' in got[3], 'tsig-table', vt.gpath + '|' + k + '-signed-with-request-mac', vt.where(got[4]), 'signed with the request MAC, the algorithm and the key', 'the signed response mode is built from %s' % got[3])
    if rows:
        R.require(set(rows) == set(spec), 'tsig-table', vt.gpath + '|complete', vt.where(), 'one row per outcome', 'rows %s' % sorted(map(str, rows)))
    setters = tsig_setters(F)
    st_ = tsig_calls(vt, setters)
    sr = calls_in(vt, W + 'set_rcode')
    R.require(len(st_) == 1 and len(sr) == 1 and 'new_from_read(arg1,arg5,300_u16' in paths.show_operand(vt, st_[0][3]).replace('PreparedTsigRr::', ''), 'tsig-table', vt.gpath + '|writes-rcode-and-tsig', vt.where(), 'set_rcode(rcode) and set_tsig(mode, prepared(error))', 'verify_tsig_and_write_tsig_rr does not write exactly one RCODE and one TSIG RR')
    # the result can be true only if rcode == NOERROR: every definition of the return value is `false` or (derives from)
    # the comparison of the rcode with NOERROR
    rdefs = [d for d in vt.defs().get(0, []) if not vt.blocks[d[0]]['cleanup']]
    def ret_ok(d):
        if d[2] == 'assign' and d[3]['rv']['k'] == 'use' and d[3]['rv']['op']['k'] == 'const':
            return const_name(d[3]['rv']['op']) == 'false'
        txt = paths.show_operand(vt, d[3]['rv']['op']) if d[2] == 'assign' and d[3]['rv']['k'] == 'use' else (callee_name(d[3]) + '(' + ','.join(paths.show_operand(vt, a) for a in d[3]['args']) + ')' if d[2] == 'call' else '?')
        # rcode == NOERROR, or the verification result itself being Ok (NOERROR is the Ok row of the table)
        return re.search(r'Rcode(?: as std::cmp::PartialEq>)?::eq\(.*Rcode\(0_u8\)\)', txt) is not None or re.search(r'Result(::<T, E>)?::is_ok\(.*verify_request\(', txt) is not None
    R.require(bool(rdefs) and all(ret_ok(d) for d in rdefs) and any(not (d[2] == 'assign' and d[3]['rv']['k'] == 'use' and d[3]['rv']['op']['k'] == 'const') for d in rdefs), 'tsig-table', vt.gpath + '|returns-noerror-only', vt.where(), 'returns true only when rcode == NOERROR', 'the function can return true without rcode == NOERROR')
    for name, what in (('server::find_tsig_algorithm_or_write_error', 'unknown-algorithm'), ('server::find_tsig_key_or_write_error', 'unknown-key')):
        fn = F.fn(name)
        rc = [(b, t) for b, t in calls_in(fn, W + 'set_rcode')]
        stc = tsig_calls(fn, setters)
        ok = len(rc) == 1 and const_name(rc[0][1]['args'][1]).endswith('Rcode(9_u8)') and len(stc) == 1
        if ok:
            mode = paths.show_operand(fn, stc[0][2])
            prep = paths.show_operand(fn, stc[0][3])
            ok = mode.startswith('TsigMode::Unsigned') and 'ExtendedRcode(17_u16)' in prep
            nones = [b for b, bl in enumerate(fn.blocks) for s2 in bl['stmts'] if s2['k'] == 'assign' and s2['lhs']['l'] == 0 and s2['rv']['k'] == 'agg' and s2['rv']['def'].endswith('Option::None')]
            if nones:
                ok = ok and len(nones) == 1 and fn.dominates(stc[0][0], nones[0])
            else:
                # the function hands the lookup's own Option back: the error is written exactly where that Option is
                # known to be None, and nothing else is returned
                from qv import origins
                from qv.rulelib import failed_before
                from qv.rulelib import _origin_of_failure
                lv = origins.trace(fn, 0, [('down', 'Some')])
                look = [lf[2] for lf in lv if lf[0] == 'call']
                src = _origin_of_failure(fn, look[0]['dest']['l']) if len(look) == 1 and not look[0]['dest']['p'] else None
                ok = ok and len(lv) == 1 and len(look) == 1 and failed_before(fn, stc[0][0], lambda t_: t_ is look[0] or (src is not None and t_ is src))
        R.require(ok, 'tsig-table', name + '|' + what, fn.where(), '%s -> NOTAUTH, BADKEY(17), unsigned, None' % what, '%s does not answer NOTAUTH/BADKEY unsigned and return None' % what)
    R.floor('tsig-table', 10)

    # ---- (c) gate
    hm = F.fn(HMWC)
    helpers = [('server::find_tsig_algorithm_or_write_error', 'discr'), ('server::find_tsig_key_or_write_error', 'discr'), ('server::verify_tsig_and_write_tsig_rr', 'bool')]
    for name, kind in helpers:
        cs = calls_in(hm, name)
        if len(cs) != 1:
            R.bad('gate', HMWC + '|' + name.split('::')[-1], hm.where(), 'expected one call')
            continue
        b, t = cs[0]
        # failing edge: next switch; find blocks directly controlled by the failure condition
        sw = None
        x = t['t']
        hops = 0
        while x is not None and hops < 4 and sw is None:
            if hm.blocks[x]['term']['k'] == 'switch':
                sw = x
            else:
                ss = hm.succs()[x]
                x = ss[0] if len(ss) == 1 else None
            hops += 1
        if sw is None:
            R.bad('gate', HMWC + '|' + name.split('::')[-1], hm.where(b), 'the result is not tested')
            continue
        tt = hm.blocks[sw]['term']
        # the edge taken for `false` / `None` (discriminant 0): listed explicitly, or the otherwise edge when only the
        # success value is listed (`let Some(x) = .. else { return }`)
        fail = [tb for v, tb in tt['targets'] if v == 0]
        if not fail and [v for v, tb in tt['targets']] == [1]:
            fail = [tt['otherwise']]
        bad = None
        for fb in fail:
            bad = bad or hm.find_path(fb, lambda z: hm.blocks[z]['term']['k'] == 'call' and (mutates_response(hm, hm.blocks[z]['term']) or callee_name(hm.blocks[z]['term']).endswith('peek_rr')))
        R.require(bool(fail) and bad is None, 'gate', HMWC + '|' + name.split('::')[-1] + '-failure-returns', hm.where(sw), 'on failure the function returns at once', 'after %s failed processing continues: %s' % (name.split('::')[-1], paths.fmt_path(hm, bad) if bad else 'no failure edge found'))
    # within the TSIG arm, tsig_key is recorded only after verification succeeded
    wk = [b for b, bl in enumerate(hm.blocks) if not bl['cleanup'] for s2 in bl['stmts'] if s2['k'] == 'assign' and s2['lhs']['p'] and isinstance(s2['lhs']['p'][-1], dict) and s2['lhs']['p'][-1].get('n') == 'tsig_key']
    R.require(len(wk) == 1 and any(re.match(r'^server::verify_tsig_and_write_tsig_rr\(.*\) not in \[0\]$', x) for x in paths.dom_guards(hm, wk[0])), 'gate', HMWC + '|key-recorded-after-verification', hm.where(wk[0]) if wk else hm.where(), 'tsig_key set only after successful verification', 'Context.tsig_key is set without the verification having succeeded')
    # verification happens before opcode dispatch: the TSIG scan dominates handle_query
    hq = calls_in(hm, HANDLE_QUERY)
    vcall = calls_in(hm, 'server::verify_tsig_and_write_tsig_rr')
    if hq and vcall:
        p = hm.find_path(vcall[0][0], lambda z: z == hq[0][0], avoid={b for b in range(len(hm.blocks)) if any(re.match(r'^server::verify_tsig_and_write_tsig_rr\(.*\) not in \[0\]$', x) for x in paths.direct_guards(hm, b))})
        R.require(p is None, 'gate', HMWC + '|dispatch-only-after-true', hm.where(vcall[0][0]), 'from the TSIG arm the query is dispatched only through the `true` edge', 'handle_query is reachable from the verification call without its `true` edge: %s' % (paths.fmt_path(hm, p) if p else ''))
    R.floor('gate', 5)

    # ---- (d) key + algorithm
    fk = F.fn('server::find_tsig_key_or_write_error')
    get = calls_in(fk, 'HashMap::<K, V, S>::get') or [(b, t) for b, t in fk.calls() if re.search(r'HashMap::<[^>]*>::get$', callee_name(t))]
    flt = calls_in(fk, 'Option::<T>::filter')
    ok = len(get) == 1 and 'key_name' in paths.show_operand(fk, get[0][1]['args'][1])
    somes = [b for b, bl in enumerate(fk.blocks) for s2 in bl['stmts'] if s2['k'] == 'assign' and s2['lhs']['l'] == 0 and s2['rv']['k'] == 'agg' and s2['rv']['def'].endswith('Option::Some')]
    if flt:
        # keys.get(name).filter(|(a, _)| *a == algorithm)
        ok = ok and len(flt) == 1 and 'HashMap::get' in paths.show_operand(fk, flt[0][1]['args'][0]).replace('<K, V, S>', '')
        alg = any('Algorithm as std::cmp::PartialEq' in callee_name(t) for c in F.closures_of(fk.gpath) for b, t in c.calls())
        gated = len(somes) == 1 and any(re.match(r'^discr\(Option::filter\(.*\)\) in \[1\]$', x) for x in paths.dom_guards(fk, somes[0]))
        if not somes and len(flt) == 1:
            # the function hands back (a projection of) the filtered lookup itself: Some only if the filter said Some
            from qv import origins as _or
            from qv.rulelib import _origin_of_failure
            lv = _or.trace(fk, 0, [('down', 'Some')])
            gated = len(lv) == 1 and lv[0][0] == 'call' and not lv[0][2]['dest']['p'] and (lv[0][2] is flt[0][1] or _origin_of_failure(fk, lv[0][2]['dest']['l']) is flt[0][1])
    else:
        # the same test written inline (a match guard, an `if`): Some(key) only under `get(name)` being Some AND the
        # stored algorithm equal to the requested one
        eqs = [(b, t) for b, t in fk.calls() if 'Algorithm as std::cmp::PartialEq' in callee_name(t) or callee_name(t).endswith('PartialEq<&B> for &A>::eq')]
        alg = len(eqs) == 1 and any('HashMap::get(' in paths.show_operand(fk, a).replace('<K, V, S>', '') for a in eqs[0][1]['args']) and any(re.match(r'^arg\d$', paths.show_operand(fk, a)) for a in eqs[0][1]['args'])
        g = paths.dom_guards(fk, somes[0]) if len(somes) == 1 else []
        gated = len(somes) == 1 and any(re.match(r'^discr\(HashMap(<K, V, S>)?::get\(.*\)\) in \[1\]$', x) for x in g) and any(re.search(r'::eq\(.*HashMap(<K, V, S>)?::get\(.*\) not in \[0\]$', x) for x in g)
    R.require(ok and alg, 'key-lookup', fk.gpath + '|name-and-algorithm', fk.where(), 'the key is looked up by name and its algorithm compared with the requested one', 'the key lookup does not require both the key name and the algorithm to match')
    R.require(gated, 'key-lookup', fk.gpath + '|some-only-when-filtered', fk.where(), 'a key is returned only when the lookup succeeded and the algorithm matched', 'a key can be returned without the name lookup having succeeded and the algorithm having matched')

    # ---- (e) class / TTL of the TSIG RR
    tf = F.fn("<message::tsig::ReadTsigRr<'a> as std::convert::TryFrom<message::reader::ReadRr<'a>>>::try_from")
    fe = [b for b, bl in enumerate(tf.blocks) if not bl['cleanup'] for s2 in bl['stmts'] if s2['k'] == 'assign' and s2['rv']['k'] == 'agg' and s2['rv']['def'].endswith('FromReadRrError::FormErr')]
    conds = []
    if len(fe) == 1:
        for (p, s) in tf.transitive_control_edges(fe[0]):
            e = paths.explain_edge(tf, p, s)
            if e:
                conds.append((e, p))
    cls = any(re.search(r'(ne|eq)\(arg1\.class,.*Class\(255_u16\)|Qclass\(255', e) for e, p in conds) or any('arg1.class' in e for e, p in conds)
    ttl_edges = [(e, p) for e, p in conds if 'ttl' in e.lower()]
    R.require(len(fe) == 1 and cls and bool(ttl_edges), 'tsig-rr-fields', tf.gpath + '|class-any-ttl-zero', tf.where(fe[0]) if fe else tf.where(), 'FormErr under class != ANY or TTL != 0', 'ReadTsigRr::try_from does not reject class != ANY / TTL != 0 with FormErr (conditions: %s)' % [e for e, p in conds])
    clamps = wc.clamping_ttl_constructors(F)
    for e, p in ttl_edges:
        sl = slice_of(tf, tf.blocks[p]['term']['op'])
        typed = sorted({n[1] for n in sl.nodes if n[0] == 'place' and n[2] and n[2][-1] == 'ttl' and tf.canon({'l': n[3], 'p': [], 'ty': ''}) is not None and 'rr::ttl::Ttl' in [pp.get('ty') for pp in [{}]] or False})
        from_ttl_value = any(n[0] == 'place' and n[2] and n[2][-1] == 'ttl' for n in sl.nodes) and any(n.endswith('From<rr::ttl::Ttl> for u32>::from') or 'rr::ttl::Ttl' in n for n in sl.call_names())
        R.require(not from_ttl_value, 'tsig-rr-fields', tf.gpath + '|ttl-not-clamped', tf.where(p), 'the TTL test reads the raw field',
                  'the TTL != 0 test reads ReadRr.ttl, a Ttl that has been through the RFC 2181 clamp (%s): a TSIG RR whose TTL field is 0x80000000..0xffffffff reads as 0 and is accepted instead of FORMERR' % clamps)
    R.floor('tsig-rr-fields', 2)

    # ---- (f) last record
    g = paths.dom_guards(hm, vcall[0][0]) if vcall else []
    R.require(any(x.startswith('Ne(') and 'Reader::arcount' in x and x.endswith(' in [0]') for x in g) and any(re.match(r'^Type::eq\(PeekRr::rr_type\(.*\),Type\(250_u16\)\) not in \[0\]$', x) for x in g), 'last-record', HMWC + '|tsig-arm-last', hm.where(), 'verification only for the last additional record of type TSIG', 'the TSIG arm is not confined to the last additional record')

    # ---- (g) time window at full width
    from rules.c11 import check_time_window
    check_time_window(R, F)
    R.floor('time-window', 1)
