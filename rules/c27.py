"""C27 — RRL response streams (static clauses)."""
import re

from qv.facts import callee_name, const_name, const_int, is_place, op_str
from qv.flow import slice_of
from qv import paths, tables
from qv.rulelib import calls_in

MODE = 'lib'
EXPLANATION = """
Decides how the rate-limit key is composed (server::rrl, server::ReceivedInfo):
(a) Key.dest is ip_to_dest_u64(source): IPv4 -> u32(addr) & ipv4_netmask, IPv6 -> top 64 bits & ipv6_netmask, and
Key.ipv6 is is_ipv6() of the same, already canonicalised, source;
(b) ReceivedInfo::new maps ::ffff:a.b.c.d (octets 0..10 zero, octets 10 and 11 = 0xff) to the IPv4 address made of
octets 12..15 and leaves every other address unchanged;
(c) Key.qname_hash is the constant 0 unless the category is NoError, and then hashes the source of synthesis if there is
one, else the QNAME (through Name's case-insensitive Hash, C16);
(d) Category::from maps RCODE 0 -> NoError, 3 -> NxDomain, everything else -> Error;
(e) subject_to_rrl is send_response && transport == Udp && opcode == QUERY, and its true edge dominates the bucket access;
(f) the prefix setters build masks MAX << (width - len), 0 for len 0, and reject len > width.
(g) in answer / answer_any the lookup result's source of synthesis is stored into the context before any step that can
fail, so a truncated (or slipped) wildcard answer is keyed by the wildcard and not by its QNAME;
Not decided: hash-collision behaviour; "exactly when" over address pairs (value-level).
"""
ASSUMPTIONS = ['std::net conversions are trusted', 'every CFG path is assumed feasible']

PR = 'server::rrl::Rrl::process_response'


def check(R, F):
    pr = F.fn(PR)
    # ---- (a) key composition
    keys = [(b, st) for b, blk in enumerate(pr.blocks) if not blk['cleanup'] for st in blk['stmts'] if st['k'] == 'assign' and st['rv']['k'] == 'agg' and st['rv']['def'] == 'server::rrl::Key']
    if len(keys) != 1:
        R.bad('key', PR + '|single-key', pr.where(), 'expected exactly one Key construction, found %d' % len(keys))
    else:
        b, st = keys[0]
        f = dict(zip(st['rv']['fields'], st['rv']['ops']))
        dest = paths.show_operand(pr, f['dest'])
        R.require(dest == 'Rrl::ip_to_dest_u64(arg1,arg2.received_info.source)', 'key', PR + '|dest', pr.where(b), 'dest = ip_to_dest_u64(source)', 'Key.dest is %s' % dest)
        v6 = paths.show_operand(pr, f['ipv6'])
        R.require(v6 == 'IpAddr::is_ipv6(arg2.received_info.source)', 'key', PR + '|ipv6', pr.where(b), 'ipv6 = source.is_ipv6()', 'Key.ipv6 is %s' % v6)
        cat = paths.show_operand(pr, f['category'])
        R.require(cat == 'T::into(Writer::extended_rcode(arg2.response))', 'key', PR + '|category', pr.where(b), 'category = Category::from(extended RCODE of the response)', 'Key.category is %s' % cat)
        # ---- (c) qname hash
        qh = f['qname_hash']
        defs = pr.defs().get(pr.canon(qh['pl'])['l'], []) if is_place(qh) else []
        zero = [d for d in defs if d[2] == 'assign' and d[3]['rv']['k'] == 'use' and d[3]['rv']['op']['k'] == 'const' and const_int(d[3]['rv']['op']) == 0]
        hashed = [d for d in defs if d not in zero]
        ok0 = len(zero) == 1 and any(re.match(r'^Category::eq\(.*,Category::NoError\) in \[0\]$', g) for g in paths.dom_guards(pr, zero[0][0]))
        R.require(ok0, 'key', PR + '|qname-hash-zero-unless-noerror', pr.where(zero[0][0]) if zero else pr.where(), 'qname_hash = 0 when the category is not NoError', 'qname_hash is not the constant 0 exactly when the category differs from NoError')
        okh = len(hashed) == 1 and any(re.match(r'^Category::eq\(.*,Category::NoError\) not in \[0\]$', g) for g in paths.dom_guards(pr, hashed[0][0]))
        if okh:
            sl = slice_of(pr, qh)
            names = sl.call_names()
            fps = sl.field_paths()
            okh = any(n.endswith('BuildHasher::hash_one') for n in names) and any('source_of_synthesis' in fp for fp in fps) and any('qname' in fp for fp in fps)
            # source of synthesis preferred: the QNAME is read only on the None edge
            from qv.facts import place_str
            qn_blocks = [bb for bb, blk in enumerate(pr.blocks) if not blk['cleanup'] for s2 in blk['stmts']
                         if s2['k'] == 'assign' and s2['rv']['k'] == 'ref' and place_str(s2['rv']['pl']).endswith('.qname')]
            pref = all(any(re.match(r'^discr\(arg2\.source_of_synthesis\) (in \[0\]|not in \[1\])$', g) for g in paths.dom_guards(pr, bb)) for bb in qn_blocks) and bool(qn_blocks)
            okh = okh and pref
        R.require(okh, 'key', PR + '|qname-hash-source', pr.where(hashed[0][0]) if hashed else pr.where(), 'NoError: hash_one(source of synthesis if any, else QNAME)', 'under NoError the qname hash is not hash_one over the source of synthesis when present and the QNAME otherwise')
    R.floor('key', 5)
    ip = F.fn('server::rrl::Rrl::ip_to_dest_u64')
    rets = {}
    for b, blk in enumerate(ip.blocks):
        for st in blk['stmts']:
            if st['k'] == 'assign' and not st['lhs']['p'] and st['lhs']['l'] == 0:
                rets[tuple(paths.dom_guards(ip, b, variants=False))] = paths.show_operand(ip, {'k': 'copy', 'pl': {'l': 0, 'p': [], 'ty': ''}}) if False else (paths.show_operand(ip, st['rv']['op']) if st['rv']['k'] in ('use', 'cast') else '%s(%s,%s)' % (st['rv']['op'], paths.show_operand(ip, st['rv']['a']), paths.show_operand(ip, st['rv']['b'])))
    v4 = [v for g, v in rets.items() if any('in [0]' in x and 'discr(arg2)' in x for x in g)]
    v6 = [v for g, v in rets.items() if any('in [1]' in x and 'discr(arg2)' in x for x in g)]
    R.require(v4 == ['BitAnd(ip_addr::from(arg2@V4.0),arg1.params.ipv4_netmask)'], 'mask', 'server::rrl::Rrl::ip_to_dest_u64|v4', ip.where(), 'IPv4: u32(addr) & ipv4_netmask', 'IPv4 destination is computed as %s' % v4)
    R.require(v6 == ['BitAnd(cast(Shr(ip_addr::from(arg2@V6.0),64_i32)),arg1.params.ipv6_netmask)'], 'mask', 'server::rrl::Rrl::ip_to_dest_u64|v6', ip.where(), 'IPv6: (u128(addr) >> 64) & ipv6_netmask', 'IPv6 destination is computed as %s' % v6)
    # ---- (f) prefix setters
    for name, width, field, mx in (('set_ipv4_prefix_len', 32, 'ipv4_netmask', 'u32::MAX'), ('set_ipv6_prefix_len', 64, 'ipv6_netmask', 'u64::MAX')):
        fn = F.fn('server::rrl::RrlParams::' + name)
        ws = [(b, st) for b, blk in enumerate(fn.blocks) for st in blk['stmts'] if st['k'] == 'assign' and st['lhs']['p'] and st['lhs']['p'][-1].get('n') == field]
        vals = sorted((paths.show_operand(fn, st['rv']['op']) if st['rv']['k'] == 'use' else '%s(%s,%s)' % (st['rv']['op'], paths.show_operand(fn, st['rv']['a']), paths.show_operand(fn, st['rv']['b'])), tuple(paths.dom_guards(fn, b))) for b, st in ws)
        exprs = [v[0] for v in vals]
        want_shift = 'Shl(%s,Sub(%d_u8,arg2))' % (mx, width)
        ok = len(vals) == 2 and any(e.startswith('0_') for e in exprs) and want_shift in exprs
        zero_g = [g for e, g in vals if e.startswith('0_')]
        ok = ok and any(re.match(r'^Eq\(arg2,0_u8\) not in \[0\]$', x) for x in (zero_g[0] if zero_g else ())) and all(any(re.match(r'^Gt\(arg2,%d_u8\) in \[0\]$' % width, x) for x in g) for e, g in vals)
        R.require(ok, 'mask', 'server::rrl::RrlParams::%s|mask' % name, fn.where(), 'mask = MAX << (%d - len), 0 for len 0, len > %d rejected' % (width, width), '%s builds %s' % (name, exprs))
    R.floor('mask', 4)

    # ---- (b) IPv4-mapped canonicalisation
    ri = F.fn('server::ReceivedInfo::new')
    v4b = [(b, t) for b, t in ri.calls() if callee_name(t).endswith('Ipv4Addr::new')]
    ok = len(v4b) == 1
    if ok:
        b, t = v4b[0]
        args = [paths.show_operand(ri, a) for a in t['args']]
        want = ['Ipv6Addr::octets(arg1@V6.0)[_]'] * 4
        idx = []
        for a in t['args']:
            c = ri.canon(a['pl']) if is_place(a) else None
            sd = ri.single_def(a['pl']['l']) if is_place(a) else None
            if sd and sd[2] == 'assign' and sd[3]['rv']['k'] == 'use' and is_place(sd[3]['rv']['op']):
                pl = sd[3]['rv']['op']['pl']
                ip_ = [p for p in pl['p'] if isinstance(p, dict) and 'idx' in p]
                if ip_:
                    isd = ri.single_def(ip_[0]['idx'])
                    idx.append(const_int(isd[3]['rv']['op']) if isd and isd[3]['rv']['k'] == 'use' else None)
        g = paths.dom_guards(ri, b, variants=False)
        cond_all = any('::all(' in x and 'Ipv6Addr::octets(' in x and 'ops::Range{0_usize,10_usize}' in x and x.endswith(' not in [0]') for x in g)
        eq_ff = [x for x in g if re.match(r'^Eq\(Ipv6Addr::octets\(arg1@V6\.0\)\[_\],(u8::MAX|255_u8)\) not in \[0\]$', x)]
        ok = idx == [12, 13, 14, 15] and cond_all and len(eq_ff) == 2
        clo = F.closures_of(ri.gpath)
        zero_cmp = any(st['rv']['k'] == 'bin' and st['rv']['op'] == 'Eq' and const_int(st['rv']['b']) == 0 for c in clo for blk in c.blocks for st in blk['stmts'] if st['k'] == 'assign')
        ok = ok and zero_cmp
        R.require(ok, 'canonical', 'server::ReceivedInfo::new|v4-mapped', ri.where(b), '::ffff:a.b.c.d -> V4(octets 12..15) under octets[0..10]==0, [10]==[11]==0xff',
                  'IPv4-mapped detection: address octets %s, all-zero prefix test=%s (closure compares with 0=%s), 0xff tests=%d' % (idx, cond_all, zero_cmp, len(eq_ff)))
    else:
        R.bad('canonical', 'server::ReceivedInfo::new|v4-mapped', ri.where(), 'expected one Ipv4Addr::new call')
    # the 0xff tests are on octets 10 and 11
    ff_idx = []
    for b, blk in enumerate(ri.blocks):
        for st in blk['stmts']:
            if st['k'] == 'assign' and st['rv']['k'] == 'bin' and st['rv']['op'] == 'Eq' and 'u8::MAX' in op_str(st['rv']['b']) or (st['k'] == 'assign' and st['rv']['k'] == 'bin' and st['rv']['op'] == 'Eq' and const_int(st['rv']['b']) == 255):
                a = st['rv']['a']
                sd = ri.single_def(a['pl']['l']) if is_place(a) else None
                if sd and sd[3]['rv']['k'] == 'use' and is_place(sd[3]['rv']['op']):
                    ip_ = [p for p in sd[3]['rv']['op']['pl']['p'] if isinstance(p, dict) and 'idx' in p]
                    if ip_:
                        isd = ri.single_def(ip_[0]['idx'])
                        ff_idx.append(const_int(isd[3]['rv']['op']) if isd else None)
    R.require(sorted(ff_idx) == [10, 11], 'canonical', 'server::ReceivedInfo::new|ff-octets', ri.where(), '0xff tested at octets 10 and 11', '0xff is tested at octets %s' % sorted(map(str, ff_idx)))
    # other arms return the original address
    srcs = [paths.show_operand(ri, st['rv']['op']) for b, blk in enumerate(ri.blocks) for st in blk['stmts'] if st['k'] == 'assign' and not st['lhs']['p'] and ri.locals[st['lhs']['l']]['name'] == 'source' and st['rv']['k'] == 'use']
    R.require(sorted(set(srcs)) == ['arg1'], 'canonical', 'server::ReceivedInfo::new|others-unchanged', ri.where(), 'all other addresses are kept', 'non-mapped arms yield %s' % srcs)
    R.floor('canonical', 3)

    # ---- (d) category table
    cf = F.fn('<server::rrl::Category as std::convert::From<message::rcode::ExtendedRcode>>::from')
    sw = tables.switches(cf, r'^arg1\.0$')
    ok = len(sw) == 1
    if ok:
        rows = tables.table(cf, sw[0][0])
        m = {}
        for r in rows:
            c = [x for x in r['consts'] if 'Category::' in x]
            for v in r['values']:
                m[v] = c
            if r['otherwise']:
                m['_'] = c
        ok = m == {0: ['agg server::rrl::Category::NoError'], 3: ['agg server::rrl::Category::NxDomain'], '_': ['agg server::rrl::Category::Error']}
    R.require(ok, 'category', cf.gpath, cf.where(), '0 -> NoError, 3 -> NxDomain, else Error', 'Category::from table is %s' % (m if sw else 'not a switch on the code'))

    # ---- (e) subject_to_rrl
    sr = F.fn('server::rrl::subject_to_rrl')
    conds = set()
    for b in range(len(sr.blocks)):
        t = sr.blocks[b]['term']
        if t['k'] == 'switch':
            conds.add(paths.show_operand(sr, t['op']))
    res = [paths.show_operand(sr, t['args'][0]) + '==' + paths.show_operand(sr, t['args'][1]) for b, t in sr.calls() if not t['dest']['p'] and t['dest']['l'] == 0]
    ok = 'arg1.send_response' in conds and 'Transport::eq(arg1.received_info.transport,Transport::Udp)' in conds and res == ['Reader::opcode(arg1.received)==Opcode(0_u8)']
    falses = [b for b, blk in enumerate(sr.blocks) for st in blk['stmts'] if st['k'] == 'assign' and not st['lhs']['p'] and st['lhs']['l'] == 0 and st['rv']['k'] == 'use' and const_name(st['rv']['op']) == 'false']
    R.require(ok and len(falses) == 1, 'subject', 'server::rrl::subject_to_rrl|conjunction', sr.where(), 'send_response && transport == Udp && opcode == QUERY', 'subject_to_rrl tests %s and returns %s' % (sorted(conds), res))
    locks = calls_in(pr, 'std::sync::Mutex::<T>::lock')
    ok = len(locks) == 1 and any(re.match(r'^rrl::subject_to_rrl\(arg2\) not in \[0\]$', g) for g in paths.dom_guards(pr, locks[0][0]))
    R.require(ok, 'subject', PR + '|dominates-bucket-access', pr.where(locks[0][0]) if locks else pr.where(), 'the bucket is touched only under subject_to_rrl', 'the bucket access is not dominated by subject_to_rrl(context) == true')
    # rrl is applied to every response of handle_message, after processing
    hm = F.fn('server::Server::<C>::handle_message')
    prc = calls_in(hm, PR)
    hw = calls_in(hm, 'server::Server::<C>::handle_message_with_context')
    fin = [b for b, t in hm.calls() if callee_name(t).endswith("Writer::<'a>::finish")]
    ok = len(prc) == 1 and len(hw) == 1 and hm.dominates(hw[0][0], prc[0][0]) and all(not hm.find_path(hw[0][0], lambda x: x == f, avoid={prc[0][0]} | {b for b in range(len(hm.blocks)) if any(re.match(r'^discr\(arg1\.rrl\) (in \[0\]|not in \[1\])$', g) for g in paths.direct_guards(hm, b))}) for f in fin)
    R.require(ok, 'subject', 'server::Server::<C>::handle_message|rrl-after-processing', hm.where(), 'process_response runs after processing and before finish whenever RRL is configured', 'process_response is not applied between processing and finish on every path with RRL configured')
    R.floor('subject', 3)

    # ---- (g) the wildcard source of synthesis reaches the key on *every* outcome of the answer, including the one where
    # writing the answer fails (truncation: a slipped / truncated wildcard answer is still a response of the wildcard's
    # stream).  So the store `context.source_of_synthesis = <lookup result>.source_of_synthesis` must not be preceded,
    # after the lookup, by a step that can fail (seed C27-e: store moved below `add_answer_rrset(..)?`).
    from qv import effects
    from rules.writer_common import _fallible_local_call
    n_stores = 0
    for gp in ('server::query::answer', 'server::query::answer_any'):
        fn = F.fn(gp)
        stores = [b for (c, f), sites in effects.direct_writes(fn).items() if f == 'source_of_synthesis' and c.endswith('Context') for b, k in sites]
        fallible = [x for x in fn.reachable(0) if not fn.blocks[x]['cleanup'] and _fallible_local_call(fn, x)]
        for k, b in enumerate(sorted(set(stores))):
            n_stores += 1
            before = [x for x in fallible if x != b and fn.find_path(x, lambda y, b=b: y == b)]
            R.require(not before, 'sos-recorded', '%s|store#%d-before-fallible-steps' % (gp, k), fn.where(b),
                      'source_of_synthesis is recorded before any step of the answer that can fail',
                      'the source of synthesis is recorded only after %s, which can fail (truncation): a truncated wildcard answer is then keyed by its QNAME' % sorted({paths.short(callee_name(fn.blocks[x]['term'])) for x in before}))
    R.floor('sos-recorded', 4, 'answer: Found, Cname, NoRecords; answer_any: Found')
