"""C17 — code <-> text round trips (finite tables, decided exhaustively)."""
import re

from qv.facts import callee_name, const_name, const_int, is_place, op_str
from qv.flow import slice_of
from qv import paths, tables

MODE = 'lib'
EXPLANATION = """
The domain of C17 is a finite mnemonic table plus a uniform numeric fallback, so the property is decided on the tables
extracted from the MIR of the Display / FromStr impls of Type, Class, Qtype and Qclass:
(1) the Display table {value -> mnemonic} equals the IANA table frozen in this file;
(2) every Display mnemonic has a FromStr row with the same value, and every FromStr row maps to the IANA value (aliases
such as ANY allowed);
(3) no mnemonic has the RFC 3597 form TYPEn / CLASSn;
(4) the mnemonic comparison is case-insensitive: the comparison callee folds ASCII case, or the scrutinee derives from an
ASCII-uppercased copy of the input and every literal is upper case;
(5) fallbacks: Display falls through to "TYPE"/"CLASS" + the decimal value (or delegates to Type/Class), FromStr falls
through to a case-insensitive prefix test + u16::from_str of the rest (or delegates);
(6) Opcode/Rcode TryFrom<u8> and Rcode TryFrom<ExtendedRcode> return Ok exactly on the interval [0, 15] (interval
evaluation of the guard), with the value passed through unchanged.
Level: exhaustive over the finite tables; the numeric fallback trusts u16's Display/FromStr.
"""
ASSUMPTIONS = ['core::fmt and u16::from_str are trusted', 'IANA table frozen in rules/c17.py from the IANA DNS parameters registry / RFC 1035 §3.2.2-3.2.5, RFC 2782, RFC 3596, RFC 6891, RFC 8945, RFC 1995, RFC 2136']

TYPE = {1: 'A', 2: 'NS', 3: 'MD', 4: 'MF', 5: 'CNAME', 6: 'SOA', 7: 'MB', 8: 'MG', 9: 'MR', 10: 'NULL', 11: 'WKS', 12: 'PTR',
        13: 'HINFO', 14: 'MINFO', 15: 'MX', 16: 'TXT', 28: 'AAAA', 33: 'SRV', 41: 'OPT', 250: 'TSIG'}
CLASS = {1: 'IN', 3: 'CH', 4: 'HS'}
QTYPE = {251: 'IXFR', 252: 'AXFR', 253: 'MAILB', 254: 'MAILA', 255: '*'}
QCLASS = {254: 'NONE', 255: '*'}
ALIASES = {'message::question::Qtype': {'ANY': 255}, 'message::question::Qclass': {'ANY': 255}}
SPECS = [
    ('rr::rr_type::Type', TYPE, 'TYPE', None),
    ('class::Class', CLASS, 'CLASS', None),
    ('message::question::Qtype', QTYPE, None, 'rr::rr_type::Type'),
    ('message::question::Qclass', QCLASS, None, 'class::Class'),
]
FOLDING = ('eq_ignore_ascii_case', '<util::Caseless<\'_> as std::cmp::PartialEq>::eq')


def str_lit(o):
    if o['k'] != 'const' or not o['ty'].startswith('&') or 'str' not in o['ty']:
        return None
    v = const_name(o)
    m = re.match(r'^"(.*)"$', v, re.S)
    return m.group(1) if m else None


def arg_lits(fn, t):
    """String literals reaching the arguments of a call (directly or through temporaries)."""
    out = []
    for a in t['args']:
        s = str_lit(a)
        if s is not None:
            out.append(s)
        elif is_place(a):
            for c in slice_of(fn, a, through_calls=False).consts():
                m = re.match(r'^"(.*)"$', c, re.S)
                if m:
                    out.append(m.group(1))
    return out


def display_table(fn):
    sws = [(b, txt) for b, txt in tables.switches(fn, r'^arg1\.0$')]
    if len(sws) != 1:
        return None, None, None
    b = sws[0][0]
    rows = tables.table(fn, b)
    out = {}
    other = None
    for r in rows:
        lits = []
        for name, cargs, bb in r['calls']:
            lits.extend(arg_lits(fn, fn.blocks[bb]['term']))
        if r['otherwise']:
            other = r
        for v in r['values']:
            out[v] = lits
    return out, other, b


def fromstr_table(fn):
    """[(literal, comparison callee, value text, block)] + the block where the chain falls through."""
    rows = []
    for b, t in fn.calls():
        lits = arg_lits(fn, t)
        n = callee_name(t)
        if not lits or not (n.endswith('::eq') or 'eq_ignore_ascii_case' in n or n.endswith('::ne')):
            continue
        nb = t['t']
        sw = fn.blocks[nb]['term'] if nb is not None else None
        if not sw or sw['k'] != 'switch':
            continue
        tt = sw['otherwise'] if [x for x in sw['targets'] if x[0] == 0] else None
        ft = [x[1] for x in sw['targets'] if x[0] == 0]
        val = None
        x = tt
        hops = 0
        while x is not None and hops < 4 and val is None:
            for st in fn.blocks[x]['stmts']:
                if st['k'] == 'assign' and st['rv']['k'] == 'agg' and st['rv']['def'].endswith('Result::Ok') and st['rv']['ops']:
                    val = const_int(st['rv']['ops'][0])
            ss = fn.succs()[x]
            x = ss[0] if len(ss) == 1 else None
            hops += 1
        rows.append((lits[0], n, val, b, t, ft[0] if ft else None))
    return rows


def interval_of_guard(g):
    """'Lt(arg1,16_u8) not in [0]' -> (0, 15) for an unsigned argument; None if not understood."""
    m = re.match(r'^(Lt|Le|Gt|Ge)\((arg1(?:\.0)?|cast\(arg1(?:\.0)?\)),(\d+)_u(?:8|16)\) (not in \[0\]|in \[0\])$', g)
    if not m:
        return None
    op, _, c, tr = m.groups()
    c = int(c)
    truth = tr == 'not in [0]'
    if not truth:
        op = {'Lt': 'Ge', 'Le': 'Gt', 'Gt': 'Le', 'Ge': 'Lt'}[op]
    if op == 'Lt':
        return (0, c - 1)
    if op == 'Le':
        return (0, c)
    if op == 'Gt':
        return (c + 1, None)
    return (c, None)


def check(R, F):
    for ty, spec, prefix, delegate in SPECS:
        disp = F.fn('<%s as std::fmt::Display>::fmt' % ty)
        frm = F.fn('<%s as std::str::FromStr>::from_str' % ty)
        dt, other, swb = display_table(disp)
        if dt is None:
            R.bad('display-table', ty + '|shape', disp.where(), 'Display::fmt is not a single switch on the code value: shape not recognised (fails closed)')
            continue
        # (1) Display table == IANA table
        for v, name in sorted(spec.items()):
            got = dt.get(v)
            R.require(got == [name], 'display-table', '%s|%d' % (ty, v), disp.where(swb), '%d -> %s' % (v, name), 'value %d is displayed as %s, IANA mnemonic is %s' % (v, got, name))
        extra = sorted(set(dt) - set(spec))
        R.require(not extra, 'display-table', ty + '|no-extra-rows', disp.where(swb), 'no rows beyond the IANA table', 'Display has rows for values %s that are not in the frozen table' % extra)
        # (5a) Display fallback
        if other is None:
            R.bad('display-fallback', ty, disp.where(), 'no fall-through arm')
        elif prefix:
            tmpl = [const_name(st['rv']['op']) for bb in other['region'] for st in disp.blocks[bb]['stmts']
                    if st['k'] == 'assign' and st['rv']['k'] == 'use' and st['rv']['op']['k'] == 'const' and st['rv']['op']['ty'].startswith('&[u8')]
            want = 'b"\\x%02x%s\\xc0\\x00"' % (len(prefix), prefix)
            disp_arg = any(name.endswith('Argument::<\'_>::new_display') for name, ca, bb in other['calls'])
            R.require(tmpl == [want] and disp_arg, 'display-fallback', ty, disp.where(other['target']), 'falls through to "%s{value}"' % prefix,
                      'Display fall-through is not "%s" followed by the decimal value: template %s' % (prefix, tmpl))
        else:
            ok = any(name == '<%s as std::fmt::Display>::fmt' % delegate for name, ca, bb in other['calls'])
            R.require(ok, 'display-fallback', ty, disp.where(other['target']), 'delegates to %s' % delegate, 'Display fall-through does not delegate to %s' % delegate)
        # (2)-(4) FromStr
        ft = fromstr_table(frm)
        byname = {}
        for lit, callee, val, b, t, ftgt in ft:
            byname.setdefault(lit, []).append((callee, val, b, t))
        allowed = dict((n, v) for v, n in spec.items())
        allowed.update(ALIASES.get(ty, {}))
        for v, name in sorted(spec.items()):
            rows = byname.get(name) or byname.get(name.upper()) or byname.get(name.lower())
            R.require(bool(rows) and rows[0][1] == v, 'fromstr-table', '%s|%s' % (ty, name), frm.where(rows[0][2]) if rows else frm.where(),
                      '"%s" -> %d' % (name, v), 'mnemonic "%s" (value %d) parses to %s' % (name, v, rows[0][1] if rows else 'nothing: no comparison with that literal'))
        for lit, rows in sorted(byname.items()):
            want = allowed.get(lit.upper())
            R.require(want is not None and rows[0][1] == want, 'fromstr-table', '%s|row-%s' % (ty, lit), frm.where(rows[0][2]), 'row "%s" -> %s' % (lit, rows[0][1]),
                      'FromStr row "%s" -> %s is not in the IANA table (expected %s)' % (lit, rows[0][1], want))
            R.require(re.match(r'^(TYPE|CLASS)\d+$', lit.upper()) is None, 'fromstr-table', '%s|row-%s-not-generic-form' % (ty, lit), frm.where(rows[0][2]), 'not of the form TYPEn/CLASSn', 'mnemonic %s collides with the RFC 3597 generic form' % lit, nontrivial=False)
        # (4) case-insensitivity (one instance per type; the offending literals are listed)
        sensitive = []
        n_alpha = 0
        first_b = None
        for lit, rows in sorted(byname.items()):
            callee, val, b, t = rows[0]
            if not any(ch.isalpha() for ch in lit):
                continue
            n_alpha += 1
            folding = any(x in callee for x in FOLDING)
            if not folding:
                # scrutinee derives from to_ascii_uppercase / to_uppercase and the literal is upper case (or lower/lower)
                other_args = [a for a in t['args'] if str_lit(a) is None]
                names = set()
                for a in other_args:
                    names |= slice_of(frm, a).call_names()
                up = any(n.endswith('to_ascii_uppercase') or n.endswith('::to_uppercase') for n in names)
                lo = any(n.endswith('to_ascii_lowercase') or n.endswith('::to_lowercase') for n in names)
                folding = (up and lit == lit.upper()) or (lo and lit == lit.lower())
            if not folding:
                sensitive.append((lit, callee))
                first_b = first_b if first_b is not None else b
        R.require(not sensitive, 'case-insensitive', ty, frm.where(first_b) if first_b is not None else frm.where(),
                  'all %d alphabetic mnemonics are compared ignoring ASCII case' % n_alpha,
                  'mnemonics are compared case-sensitively (%s on the raw input) for %s: e.g. "%s" is rejected' % (
                      sensitive[0][1] if sensitive else '', [x[0] for x in sensitive], sensitive[0][0].lower() if sensitive else ''))
        R.extra.setdefault('mnemonics_checked', 0)
        R.extra['mnemonics_checked'] += n_alpha
        # (5b) FromStr fallback
        names = [callee_name(t) for b, t in frm.calls()]
        if prefix:
            clos = F.closures_of(frm.gpath)
            pre_ok = False
            for c in clos:
                for b, t in c.calls():
                    if 'eq_ignore_ascii_case' in callee_name(t) and prefix in arg_lits(c, t):
                        pre_ok = True
            get = [t for b, t in frm.calls() if callee_name(t).endswith('<impl str>::get')]
            rng = get and paths.show_operand(frm, get[0]['args'][1])
            parse = [t for b, t in frm.calls() if callee_name(t).endswith('<impl str>::parse')]
            parse_u16 = bool(parse) and 'u16' in (parse[0]['callee'].get('gargs') or '')
            rest = parse and paths.show_operand(frm, parse[0]['args'][0])
            conv = any(n.endswith('Result::<T, E>::map') for n in names) and any(('<%s as std::convert::From<u16>>::from' % ty) in op_str(a) for b, t in frm.calls() for a in t['args'])
            ok = pre_ok and rng == 'ops::Range{0_usize,%d_usize}' % len(prefix) and parse_u16 and rest is not False and ('RangeFrom{%d_usize}' % len(prefix)) in (rest or '') and conv
            R.require(ok, 'fromstr-fallback', ty, frm.where(), 'falls through to %sn: case-insensitive prefix + u16::from_str' % prefix,
                      'FromStr fall-through: prefix test ok=%s, prefix range=%s, parses u16=%s, rest=%s, converts with From<u16>=%s' % (pre_ok, rng, parse_u16, rest, conv))
            # once the prefix matched, the verdict is u16::from_str's and nothing else: every path from taking the rest
            # of the text to the return passes the parse call, and no branch lies between the parse and the return
            # (a further acceptance test before or after it would reject values that Display produces, e.g. "%s0")
            pb = [b for b, t in frm.calls() if callee_name(t).endswith('<impl str>::parse')]
            ib = [b for b, t in frm.calls() if re.search(r'Index<', callee_name(t)) and 'RangeFrom' in paths.show_operand(frm, t['args'][1])]
            ok2 = len(pb) == 1 and len(ib) == 1
            why = 'cannot find exactly one parse call and one text[%d..] index' % len(prefix)
            if ok2:
                byp = paths.must_pass(frm, ib[0], frm.ret_blocks(), lambda b: b == pb[0])
                br = frm.find_path(pb[0], lambda b: b != pb[0] and frm.blocks[b]['term']['k'] == 'switch' and not frm.blocks[b]['cleanup'])
                ok2 = byp is None and br is None
                why = 'after the %s prefix matched, %s: some numeric forms that Display produces would be rejected' % (prefix, ('a path returns without consulting u16::from_str (%s)' % paths.fmt_path(frm, byp)) if byp else ('the result of u16::from_str is tested again before returning (%s)' % paths.fmt_path(frm, br or [])))
            R.require(ok2, 'fromstr-fallback', ty + '|verdict-is-u16-from_str', frm.where(pb[0]) if pb else frm.where(), 'after the prefix, accept exactly what u16::from_str accepts', why)
        else:
            ok = any(n == '<%s as std::str::FromStr>::from_str' % delegate for n in names)
            R.require(ok, 'fromstr-fallback', ty, frm.where(), 'delegates to %s::from_str' % delegate, 'FromStr fall-through does not delegate to %s' % delegate)
    R.floor('display-table', 34)
    R.floor('fromstr-table', 60)
    R.floor('case-insensitive', 4)
    R.floor('fromstr-fallback', 6)
    R.floor('display-fallback', 4)

    # (6) 4-bit conversions
    for path, argty in (('<message::opcode::Opcode as std::convert::TryFrom<u8>>::try_from', 'u8'),
                        ('<message::rcode::Rcode as std::convert::TryFrom<u8>>::try_from', 'u8'),
                        ('<message::rcode::Rcode as std::convert::TryFrom<message::rcode::ExtendedRcode>>::try_from', 'u16')):
        fn = F.fn(path)
        okb = [b for b, blk in enumerate(fn.blocks) for st in blk['stmts'] if st['k'] == 'assign' and st['rv']['k'] == 'agg' and st['rv']['def'].endswith('Result::Ok')]
        errb = [b for b, blk in enumerate(fn.blocks) for st in blk['stmts'] if st['k'] == 'assign' and st['rv']['k'] == 'agg' and st['rv']['def'].endswith('Result::Err')]
        if len(okb) != 1 or len(errb) != 1:
            R.bad('four-bit', path, fn.where(), 'expected one Ok and one Err construction')
            continue
        g = paths.dom_guards(fn, okb[0], variants=False)
        ivs = [interval_of_guard(x) for x in g]
        ge = paths.dom_guards(fn, errb[0], variants=False)
        ive = [interval_of_guard(x) for x in ge]
        ok = len(g) == 1 and ivs == [(0, 15)] and len(ge) == 1 and ive == [(16, None)]
        # payload unchanged
        st = [s for s in fn.blocks[okb[0]]['stmts'] if s['k'] == 'assign' and s['rv']['k'] == 'agg' and not s['rv']['def'].endswith('Result::Ok')]
        payload = paths.show_operand(fn, st[0]['rv']['ops'][0]) if st else '?'
        ok2 = payload in ('arg1', 'arg1.0', 'cast(arg1.0)', 'cast(arg1)')
        R.require(ok and ok2, 'four-bit', path, fn.where(okb[0]), 'Ok exactly on [0,15], value passed through (%s)' % payload,
                  'accepts on %s (guards %s), rejects on %s, payload %s; expected Ok exactly for values 0..=15' % (ivs, g, ive, payload))
    R.floor('four-bit', 3)
    R.extra['exhaustive'] = True
