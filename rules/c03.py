"""C03 — responses echo the request header and question (static clauses)."""
import re

from qv.facts import callee_name, const_name, const_int, is_place
from qv.flow import slice_of
from qv import paths, tables, effects
from qv.rulelib import HANDLE_MESSAGE, HMWC, W, calls_in, server_fns, mutates_response

MODE = 'lib'
EXPLANATION = """
Decides the structural clauses of C03 (oracle: RFC 1035 §4.1.1 and the property text):
(a) in handle_message the argument of set_id is Reader::id of the received message, set_qr gets the literal true,
set_opcode gets Reader::opcode, and set_rd is called only under opcode == QUERY with Reader::rd; a buffer shorter than a
header (Reader::try_from fails) and a request with QR set both reach Response::None before a Writer exists;
(b) QDCOUNT dispatch: 0 -> no question, 1 -> read_question, anything else -> send_response = false and return with no
further call; send_response == false yields Response::None, never finish();
(c) header bits: each header setter writes exactly the octet and mask RFC 1035 prescribes (QR 2/0x80, OPCODE 2/0x78<<3,
AA 2/0x04, TC 2/0x02, RD 2/0x01, RA 3/0x80, RCODE 3/0x0f); masks are pairwise disjoint per octet and leave the three Z
bits (octet 3, 0x70) uncovered; set_ra has no caller in server::*; Writer::new zero-fills the header;
(d) add_question receives the Question that read_question returned and nothing else; it is the only question ever added.
(e) the ID octets (0..2) of a response are written only by set_id (write_u16 at constant offset 0 has no other caller;
the only other constant-offset header writes are the four counters in finish_with_mac), so whatever handle_message
passed to set_id is what goes out -- also for TSIG-bearing responses;
(f) the question is complete before rr_start marks its end: rr_start is assigned only by the constructors (12) and by
add_question (the cursor), and no octet is pushed after that assignment -- clear_rrs rewinds to rr_start, so the
truncation / SERVFAIL / slip paths keep the echoed question intact.
Not decided: octet-for-octet equality of the echoed question for every QNAME encoding (value-level).
"""
ASSUMPTIONS = ['every CFG path is assumed feasible']
RD_ = "Reader<'a>::try_from(arg2)@Ok.0"

RFC_BITS = {  # setter -> (octet, mask)
    'set_qr': (2, 0x80), 'set_opcode': (2, 0x78), 'set_aa': (2, 0x04), 'set_tc': (2, 0x02), 'set_rd': (2, 0x01),
    'set_ra': (3, 0x80), 'set_rcode': (3, 0x0f), 'set_extended_rcode': (3, 0x0f),
}


def setter_masks(fn):
    """{octet index: set(masks touched)} from `octets[i] = octets[i] (|,&) const` statements."""
    out = {}
    for b, blk in enumerate(fn.blocks):
        if blk['cleanup']:
            continue
        for st in blk['stmts']:
            if st['k'] != 'assign' or not st['lhs']['p'] or st['rv']['k'] != 'bin' or st['rv']['op'] not in ('BitOr', 'BitAnd'):
                continue
            c = fn.canon(st['lhs'])
            idxs = [p for p in c['p'] if isinstance(p, dict) and 'idx' in p]
            if not idxs or 'octets' not in [p.get('n') for p in c['p'] if isinstance(p, dict) and 'f' in p]:
                continue
            sd = fn.single_def(idxs[0]['idx'])
            idx = const_int(sd[3]['rv']['op']) if sd and sd[3]['rv']['k'] == 'use' else None
            other = st['rv']['b']
            mask = None
            v = const_int(other)
            if v is None and is_place(other):
                sd2 = fn.single_def(other['pl']['l'])
                if sd2 and sd2[2] == 'assign':
                    rv2 = sd2[3]['rv']
                    if rv2['k'] == 'un' and rv2['op'] == 'Not' and const_int(rv2['a']) is not None:
                        v = (~const_int(rv2['a'])) & 0xff
                    elif rv2['k'] == 'bin' and rv2['op'] == 'Shl' and const_int(rv2['b']) is not None:
                        mask = ('shl', const_int(rv2['b']))
                    elif rv2['k'] == 'bin' and rv2['op'] == 'BitAnd' and const_int(rv2['b']) is not None:
                        mask = ('and', const_int(rv2['b']))
                    elif rv2['k'] == 'cast' or rv2['k'] == 'use':
                        mask = ('value', None)
            if v is not None:
                mask = (~v) & 0xff if st['rv']['op'] == 'BitAnd' else v
            out.setdefault(idx, []).append((st['rv']['op'], mask))
            if st['rv']['op'] == 'BitOr' and not isinstance(mask, int):
                UNMASKED.setdefault(fn.gpath, []).append((idx, mask, other))
    return out


UNMASKED = {}


def or_operand_confined(fn, idx, mask, other, allowed):
    """A non-constant value OR-ed into a header octet stays inside the field's bits: it is masked with a constant subset
    of the field, shifted from a 4-bit newtype (opcode), or is the value of a 4-bit newtype (Rcode / Opcode, whose
    constructors only admit values < 16) -- never a wider integer."""
    if isinstance(mask, tuple) and mask[0] == 'and':
        return (mask[1] & ~allowed) == 0, 'masked with 0x%02x' % mask[1]
    sl = slice_of(fn, other)
    ptys = sorted({fn.local_ty(p) for p in sl.params()})
    narrow = all(t in ('message::rcode::Rcode', 'message::opcode::Opcode', 'bool') or t.startswith('&mut message::writer::Writer') or t.startswith('&message::writer::Writer') for t in ptys)
    has_and = any(c for c in sl.consts() if re.match(r'^(15|120|1|2|4|128)_u8$', c))
    if isinstance(mask, tuple) and mask[0] == 'shl':
        return narrow, 'shifted value of %s' % ptys
    return narrow and bool(ptys), 'value derives from %s' % ptys


def check(R, F):
    UNMASKED.clear()
    hm = F.fn(HANDLE_MESSAGE)
    # ---- (a)
    def one(suffix):
        cs = calls_in(hm, W + suffix)
        return cs[0] if len(cs) == 1 else None
    for setter, want in (('set_id', "Reader::id(%s)" % RD_), ('set_qr', 'true'), ('set_opcode', "Reader::opcode(%s)" % RD_), ('set_rd', "Reader::rd(%s)" % RD_)):
        c = one(setter)
        got = paths.show_operand(hm, c[1]['args'][1]) if c else None
        R.require(c is not None and got == want, 'header-copy', HANDLE_MESSAGE + '|' + setter, hm.where(c[0]) if c else hm.where(), '%s(%s)' % (setter, want), '%s is called with %s, expected %s' % (setter, got, want))
    c = one('set_rd')
    if c:
        g = paths.dom_guards(hm, c[0])
        R.require(any(re.match(r"^Opcode::eq\(Reader::opcode\(.*\),Opcode\(0_u8\)\) not in \[0\]$", x) for x in g), 'header-copy', HANDLE_MESSAGE + '|rd-only-for-query', hm.where(c[0]), 'RD copied only for opcode QUERY', 'set_rd is not confined to opcode == QUERY')
    others = sorted({callee_name(t).split('::')[-1] for b, t in hm.calls() if callee_name(t).startswith(W) and callee_name(t).split('::')[-1].startswith('set_')} - {'set_id', 'set_qr', 'set_opcode', 'set_rd'})
    R.require(not others, 'header-copy', HANDLE_MESSAGE + '|no-other-setters', hm.where(), 'no other header setter in handle_message', 'handle_message also calls %s' % others)
    wn = calls_in(hm, W + 'new')
    ok = len(wn) == 1
    if ok:
        g = paths.dom_guards(hm, wn[0][0])
        ok = any(re.match(r"^discr\(Reader<'a>::try_from\(arg2\)\) in \[0\]$", x) for x in g) and any(re.match(r"^Reader::qr\(.*\) in \[0\]$", x) for x in g)
    R.require(ok, 'header-copy', HANDLE_MESSAGE + '|no-response-to-short-or-qr', hm.where(wn[0][0]) if wn else hm.where(), 'the Writer is created only for a full header with QR clear', 'Writer::new is not dominated by (Reader::try_from ok) and (qr == false)')
    # the two early exits return Response::None
    nones = [b for b, blk in enumerate(hm.blocks) if not blk['cleanup'] for st in blk['stmts'] if st['k'] == 'assign' and st['lhs']['l'] == 0 and st['rv']['k'] == 'agg' and st['rv']['def'].endswith('Response::None')]
    gs = [paths.dom_guards(hm, b) for b in nones]
    R.require(any(any(re.match(r"^discr\(Reader<'a>::try_from\(arg2\)\) (in \[1\]|not in \[0\])$", x) for x in g) for g in gs) and any(any(re.match(r"^Reader::qr\(.*\) not in \[0\]$", x) for x in g) for g in gs) and len(nones) == 3,
              'header-copy', HANDLE_MESSAGE + '|none-exits', hm.where(), 'Response::None for short buffers, QR set, and send_response == false', 'Response::None exits: %s' % gs)
    fin = calls_in(hm, W + 'finish')
    R.require(len(fin) == 1 and any(x.endswith('.send_response not in [0]') for x in paths.dom_guards(hm, fin[0][0])), 'header-copy', HANDLE_MESSAGE + '|finish-only-if-send', hm.where(), 'finish() only under send_response', 'finish() is not guarded by send_response')
    R.floor('header-copy', 9)

    # ---- (b) QDCOUNT dispatch
    hw = F.fn(HMWC)
    sw = tables.switches(hw, r'^Reader::qdcount\(arg2\.received\)$')
    if len(sw) != 1:
        R.bad('qdcount', HMWC + '|dispatch', hw.where(), 'expected one switch on Reader::qdcount')
    else:
        rows = tables.table(hw, sw[0][0])
        r0, r1, ro = tables.row_for(rows, 0), tables.row_for(rows, 1), [r for r in rows if r['otherwise']][0]
        R.require(0 in r0['values'] and not [c for c in r0['calls'] if 'Reader' in c[0] or 'Writer' in c[0]] and 'agg std::option::Option::None' in r0['consts'], 'qdcount', HMWC + '|0', hw.where(r0['target']), 'QDCOUNT 0: no question', 'QDCOUNT 0 arm does something else: %s' % tables.calls_short(r0))
        R.require(1 in r1['values'] and tables.has_call(r1, "Reader::<'a>::read_question"), 'qdcount', HMWC + '|1', hw.where(r1['target']), 'QDCOUNT 1: read_question', 'QDCOUNT 1 arm does not read the question')
        sr = [st for b in ro['region'] for st in hw.blocks[b]['stmts'] if st['k'] == 'assign' and st['lhs']['p'] and st['lhs']['p'][-1].get('n') == 'send_response' and const_name(st['rv'].get('op', {'k': 'const', 'val': ''})) == 'false']
        clean = not [c for c in ro['calls']]
        ret = all(hw.find_path(b, lambda x: hw.blocks[x]['term']['k'] == 'call' and not hw.blocks[x]['cleanup'] and callee_name(hw.blocks[x]['term']) != '') is None for b in [ro['target']])
        R.require(len(sr) == 1 and clean and ret, 'qdcount', HMWC + '|more-than-one', hw.where(ro['target']), 'QDCOUNT > 1: send_response = false, return', 'the QDCOUNT > 1 arm does not just clear send_response and return (calls: %s)' % tables.calls_short(ro))
    R.floor('qdcount', 3)

    # ---- (c) header bits
    seen = {}
    for name, (octet, mask) in sorted(RFC_BITS.items()):
        fn = F.fn(W + name)
        m = setter_masks(fn)
        ok = set(m) == {octet}
        masks = set()
        for op, mk in m.get(octet, []):
            if isinstance(mk, int):
                masks.add(mk)
        if name == 'set_opcode':
            ok = ok and masks == {mask} and ('BitOr', ('shl', 3)) in m.get(octet, [])
        elif name == 'set_rcode':
            ok = ok and masks == {mask}
        elif name == 'set_extended_rcode':
            ok = ok and mask in masks
        else:
            ok = ok and masks == {mask}
        seen[name] = (octet, mask)
        for (ix, mk, other) in UNMASKED.pop(fn.gpath, []):
            good, why = or_operand_confined(fn, ix, mk, other, mask)
            R.require(good, 'header-bits', W + name + '|or-operand-confined', fn.where(), 'the value OR-ed into octet %s stays inside the field (%s)' % (ix, why),
                      '%s ORs a value into header octet %s that is not confined to the field mask 0x%02x (%s): other header bits (RA, Z) can be set' % (name, ix, mask, why))
        R.require(ok, 'header-bits', W + name, fn.where(), 'octet %d mask 0x%02x' % (octet, mask), '%s touches %s, RFC 1035 says octet %d mask 0x%02x' % (name, {k: v for k, v in m.items()}, octet, mask))
    for octet in (2, 3):
        ms = [m for n, (o, m) in seen.items() if o == octet and n != 'set_extended_rcode']
        tot = 0
        disjoint = True
        for m in ms:
            if tot & m:
                disjoint = False
            tot |= m
        R.require(disjoint and (tot == 0xff if octet == 2 else tot == 0x8f), 'header-bits', 'message::writer|octet-%d-partition' % octet, '', 'masks disjoint; octet %d covered = 0x%02x%s' % (octet, tot, ' (Z bits 0x70 untouched)' if octet == 3 else ''), 'masks for octet %d overlap or cover 0x%02x' % (octet, tot))
    ra = [(fn.gpath) for fn in server_fns(F) for b, t in calls_in(fn, W + 'set_ra')]
    R.require(not ra, 'header-bits', 'server|set_ra-never-called', '', 'set_ra has no caller in server::*', 'set_ra is called from %s' % ra)
    pos = [(fn.gpath) for fn in server_fns(F) for b, t in calls_in(fn, W + 'set_qr')]
    R.require(pos == [HANDLE_MESSAGE], 'header-bits', 'server|positive-control', '', 'positive control: set_qr is called from handle_message', 'positive control failed: set_qr callers %s' % pos, nontrivial=False)
    wn2 = F.fn(W + 'new')
    fills = [t for b, t in wn2.calls() if callee_name(t).endswith('::fill') and const_int(t['args'][1]) == 0]
    R.require(len(fills) == 1 and 'Range{0_usize,12_usize}' in paths.show_operand(wn2, fills[0]['args'][0]), 'header-bits', W + 'new|zero-fill', wn2.where(), 'header zero-filled', 'Writer::new does not zero-fill octets 0..12')
    # templates (which copy a header) are not used by the server
    tp = [fn.gpath for fn in server_fns(F) for b, t in fn.calls() if 'try_from_template' in callee_name(t)]
    R.require(not tp, 'header-bits', 'server|no-templates', '', 'server never builds a response from a template', 'server builds responses from templates in %s' % tp)
    R.floor('header-bits', 12)

    # ---- (d) question echo
    aq = [(fn, b, t) for fn in server_fns(F) for b, t in calls_in(fn, W + 'add_question')]
    ok = len(aq) == 1 and aq[0][0].gpath == HMWC
    if ok:
        fn, b, t = aq[0]
        arg = paths.show_operand(fn, t['args'][1])
        ok = arg == 'Reader::read_question(arg2.received)@Ok.0'
    R.require(ok, 'question-echo', HMWC + '|add-question', hw.where(aq[0][1]) if aq else hw.where(), 'add_question(the question just read)', 'add_question is called %d times / with %s' % (len(aq), arg if aq else None))
    # the stored question is the same value
    qs = [st for blk in hw.blocks if not blk['cleanup'] for st in blk['stmts'] if st['k'] == 'assign' and st['rv']['k'] == 'agg' and st['rv']['def'].endswith('Option::Some') and st['rv']['ops'] and 'read_question' in paths.show_operand(hw, st['rv']['ops'][0])]
    R.require(len(qs) == 1, 'question-echo', HMWC + '|context-question', hw.where(), 'Context.question is the question just read', 'Context.question is not Some(question read)')
    R.floor('question-echo', 2)

    # ---- (e) who writes the ID octets
    want = {(W + 'set_id', 0), (W + 'finish_with_mac', 4), (W + 'finish_with_mac', 6), (W + 'finish_with_mac', 8), (W + 'finish_with_mac', 10)}
    got = set()
    nonconst = []
    for fn in F.fns.values():
        if fn.crate != 'quandary' or '::tests::' in fn.gpath:
            continue
        for b, t in calls_in(fn, W + 'write_u16'):
            v = const_int(t['args'][1])
            if v is None:
                nonconst.append(fn.gpath)
            else:
                got.add((fn.gpath, v))
    R.require(got == want, 'id-writers', 'message::writer|write_u16-header-offsets', '', 'header words are written at constant offsets only by %s' % sorted(got),
              'write_u16 at constant header offsets is called by %s, expected only set_id@0 and finish_with_mac@4/6/8/10 (extra: %s): the ID set by handle_message could be overwritten' % (sorted(got), sorted(got - want)))
    R.require(sorted(set(nonconst)) == [W + 'add_rr'], 'id-writers', 'message::writer|write_u16-variable-offsets', '', 'the only variable-offset write_u16 is the RDLENGTH slot in add_rr', 'write_u16 at a variable offset in %s' % sorted(set(nonconst)))
    # direct indexed stores into octets[0] / octets[1]
    low = []
    for gp, fn in F.fns.items():
        if not gp.startswith('message::writer::') or '::tests::' in gp:
            continue
        for octet in setter_masks(fn):
            if octet in (0, 1):
                low.append(gp)
    R.require(not low, 'id-writers', 'message::writer|no-direct-id-stores', '', 'no function stores into octets[0] or octets[1] directly', 'direct stores into the ID octets in %s' % low)
    sid = F.fn(W + 'set_id')
    c = calls_in(sid, W + 'write_u16')
    R.require(len(c) == 1 and paths.show_operand(sid, c[0][1]['args'][2]) == 'arg2', 'id-writers', W + 'set_id|writes-its-argument', sid.where(), 'set_id writes its argument', 'set_id does not write its argument at offset 0')
    R.floor('id-writers', 4)

    # ---- (f) rr_start marks the end of the complete question
    wr = effects.writers_of(F, 'message::writer::Writer', 'rr_start', kinds=('assign', 'calldest', 'mutborrow')).get('rr_start', {})
    wr = {g: v for g, v in wr.items() if '::tests::' not in g}
    ctors = {W + 'new', W + 'try_from_template_impl'}
    aq_fns = {g for g in wr if g.startswith(W + 'add_question')}
    R.require(set(wr) - ctors == aq_fns and aq_fns, 'rr-start', 'message::writer::Writer.rr_start|writers', '', 'rr_start is assigned only by the constructors and add_question: %s' % sorted(wr),
              'rr_start is written by %s, expected only the constructors and add_question' % sorted(wr))
    pushers = ('try_push', 'write_unhinted_name', 'write_hinted_name', 'write_uncompressed_name', 'write_compressed_unhinted_name', 'try_push_u8', 'try_push_u16', 'try_push_u32')
    def is_push(t):
        return t['k'] == 'call' and callee_name(t).startswith(W) and callee_name(t).split('::')[-1] in pushers
    aqf = F.fn(W + 'add_question')
    clos = [c for p_, c in __import__('rules.writer_common', fromlist=['x']).rollback_closures(F) if p_.gpath == aqf.gpath]
    for g in sorted(aq_fns):
        fn = F.fns[g]
        for (cty, fld), sites in effects.direct_writes(fn).items():
            if fld != 'rr_start':
                continue
            for b, k in sites:
                st = [x for x in fn.blocks[b]['stmts'] if x['k'] == 'assign' and x['lhs']['p'] and x['lhs']['p'][-1].get('n') == 'rr_start']
                val = paths.show_operand(fn, st[0]['rv']['op']) if st else '?'
                later = fn.find_path(b, lambda x: x != b and not fn.blocks[x]['cleanup'] and is_push(fn.blocks[x]['term']))
                after_closure = True
                if fn.gpath == aqf.gpath:
                    # the write in the parent must come after the closure that pushes the question ran
                    rb = calls_in(fn, W + 'with_rollback')
                    after_closure = bool(rb) and all(fn.dominates(cb, b) for cb, ct in rb)
                else:
                    # a write inside the closure: nothing may be pushed after it, here or after the closure returns
                    later = later or aqf.find_path(calls_in(aqf, W + 'with_rollback')[0][0], lambda x: not aqf.blocks[x]['cleanup'] and is_push(aqf.blocks[x]['term']) )
                R.require(val.endswith('.cursor') and later is None and after_closure, 'rr-start', g + '|after-last-push', fn.where(b), 'rr_start = cursor after the whole question was pushed',
                          'rr_start is set to %s at a point after which the question is still being written (%s): clear_rrs would rewind into the question' % (val, paths.fmt_path(fn, later) if later and fn is not None and later and all(x < len(fn.blocks) for x in later) else 'push reachable afterwards' if later else 'not after the question closure'))
    R.floor('rr-start', 2)
