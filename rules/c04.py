"""C04 — responses respect the transport size limit and truncate correctly (static clauses)."""
import re

from qv.facts import callee_name, const_name, const_int, is_place
from qv.flow import slice_of
from qv import paths, tables
from qv.rulelib import HANDLE_MESSAGE, HMWC, HANDLE_NON_AXFR, W, calls_in, server_fns, enum_variants
from rules import writer_common as wc
from rules.c05 import check_referral_glue, effect_set

MODE = 'lib'
EXPLANATION = """
Decides structural clauses of C04:
(a) the initial size limit handed to Writer::new is selected by the transport: 65535 for TCP, 512 for UDP;
(b) set_limit has exactly one caller in server::*, under rr_type == OPT and transport == Udp, with argument
clamp(requestor's payload size, 512, server's configured size);
(c) no overrun: the buffer is written only through bounded writers, and try_push copies only under
available - cursor >= len (shared with C12); set_limit keeps limit within [cursor + reserved, len(octets)];
(d) every set_tc(true) in server::* is on a UDP-only path (the Truncation arm under transport != Tcp, or the RRL slip
arm behind subject_to_rrl), and is preceded by clear_rrs; the TCP Truncation arm answers SERVFAIL with AA clear instead;
(e) in-bailiwick referral glue is mandatory (its Truncation error propagates), all other additional data is optional.
(c') the Writer invariant 12 <= rr_start <= cursor <= available <= limit <= len(octets) is established by Writer::new and
re-established by every single store to those fields (E5 at each store; finish_with_mac under the reservation-accounting
lemma), so the finished length (cursor) never exceeds the limit in force.
(t) Error::Truncation is produced only by tests of the space actually about to be consumed (the amount compared with
available - cursor is the amount the success path then consumes); no operation gives up on an estimate, so whatever
fits is written.
Not decided: identity of the UDP and TCP responses when the answer fits (needs two executions).
"""
ASSUMPTIONS = ['every CFG path is assumed feasible']


def transport_param_is_received(F, fn, idx, depth=0):
    """Parameter `idx` of fn (a Transport) is, at every call site in server::*, the transport of the received message
    (`<context>.received_info.transport`), possibly forwarded through further Transport parameters."""
    if depth > 4:
        return False
    sites = [(g, b, t) for g in server_fns(F) for b, t in g.calls() if callee_name(t) == fn.gpath]
    if not sites:
        return False
    for g, b, t in sites:
        a = t['args'][idx - 1]
        txt = paths.show_operand(g, a)
        if re.match(r'^arg\d\.received_info\.transport$', txt):
            continue
        m = re.match(r'^arg(\d)$', txt)
        if m and 'server::Transport' in g.local_ty(int(m.group(1))) and transport_param_is_received(F, g, int(m.group(1)), depth + 1):
            continue
        return False
    return True


def check(R, F):
    from rules.name_rules import check_raw_name_comparisons
    check_raw_name_comparisons(R, F)
    import rules.c05 as _c05
    _c05._FACTS[0] = F
    from rules import e5, writer_inv
    _S = e5.make_summary(F)
    writer_inv.check(R, F, _S)
    e5.check_pres(R, F, _S, 'writer-invariant.pre', only=("message::writer::Writer::<'a>::write", "message::writer::Writer::<'a>::write_u16"))
    R.floor('writer-invariant.pre', 5)
    wc.check_truncation_exact(R, F)

    hm = F.fn(HANDLE_MESSAGE)
    # ---- (a)
    wn = calls_in(hm, W + 'new')
    ok = len(wn) == 1 and is_place(wn[0][1]['args'][1])
    vals = {}
    if ok:
        # by value provenance: each value the limit can take, with the transport arm in which it was produced (a variable
        # assigned on two arms, one component of a tuple built per arm, ...)
        from qv import origins
        a = wn[0][1]['args'][1]
        c = hm.canon(a['pl'])
        tv = enum_variants(F, 'server::Transport')
        for lf in origins.trace(hm, c['l'], origins.norm_path(c['p']), at=(wn[0][0], None)):
            if lf[0] == 'const':
                v, b = paths.show_operand(hm, lf[1]), lf[2]
            elif lf[0] == 'rv' and lf[3].get('k') in ('use', 'cast'):
                v, b = ('cast(%s)' % paths.show_operand(hm, lf[3]['op'])) if lf[3]['k'] == 'cast' else paths.show_operand(hm, lf[3]['op']), lf[1]
            else:
                vals['?'] = str(lf[0])
                continue
            g = [x for x in paths.dom_guards(hm, b) if re.match(r'^discr\(arg3\.transport\) in \[\d\]$', x)]
            for x in g[-1:]:
                vals[tv[int(re.search(r'\[(\d)\]', x).group(1))]] = v
            if not g:
                vals['?'] = v
    def _num(v):
        m = re.match(r'^(?:cast\()*(\d+)_u\w+\)*$', v or '')
        if m:
            return int(m.group(1))
        return 65535 if v in ('u16::MAX', 'cast(u16::MAX)', 'cast(cast(u16::MAX))') else None
    R.require(_num(vals.get('Udp')) == 512 and _num(vals.get('Tcp')) == 65535 and len(vals) == 2, 'initial-limit', HANDLE_MESSAGE + '|by-transport', hm.where(wn[0][0]) if wn else hm.where(), 'TCP 65535, UDP 512', 'initial limits by transport: %s' % vals)
    # ---- (b)
    sl = [(fn, b, t) for fn in server_fns(F) for b, t in calls_in(fn, W + 'set_limit')]
    ok = len(sl) == 1 and sl[0][0].gpath == HMWC
    hw = F.fn(HMWC)
    R.require(ok, 'negotiation', 'server|single-set-limit', hw.where(sl[0][1]) if sl else hw.where(), 'one set_limit call, in the OPT arm', 'set_limit is called from %s' % [x[0].gpath for x in sl])
    if ok:
        fn, b, t = sl[0]
        g = paths.dom_guards(fn, b)
        R.require(any(re.match(r'^Type::eq\(PeekRr::rr_type\(.*\),Type\(41_u16\)\) not in \[0\]$', x) for x in g) and any(re.match(r'^Transport::eq\(arg2\.received_info\.transport,Transport::Udp\) not in \[0\]$', x) for x in g),
                  'negotiation', HMWC + '|only-udp-with-opt', fn.where(b), 'under OPT and UDP', 'set_limit is not confined to (rr_type == OPT, transport == Udp): %s' % g[-3:])
        arg = paths.show_operand(fn, t['args'][1])
        ok2 = re.match(r'^cast\((Ord|impls)::clamp\((T|class)::from\(PeekRr::parse\(.*\)@Ok\.0\.class\),512_u16,arg1\.edns_udp_payload_size\)\)$', arg) is not None
        R.require(ok2, 'negotiation', HMWC + '|clamped-payload', fn.where(b), 'limit = clamp(OPT class, 512, configured size)', 'the negotiated limit is %s, expected clamp(requestor payload size, 512, server payload size)' % arg)
    R.floor('negotiation', 3)
    # ---- (c)
    wc.check_no_overrun(R, F)
    # ---- (d) TC
    tcs = [(fn, b, t) for fn in server_fns(F) for b, t in calls_in(fn, W + 'set_tc') if const_name(t['args'][1]) == 'true']
    for fn, b, t in tcs:
        g = paths.dom_guards(fn, b)
        udp = any(re.match(r'^Transport::eq\(arg\d\.received_info\.transport,Transport::Tcp\) in \[0\]$', x) for x in g) or any(re.match(r'^Transport::eq\(arg\d\.received_info\.transport,Transport::Udp\) not in \[0\]$', x) for x in g) or any(re.match(r'^rrl::subject_to_rrl\(arg2\) not in \[0\]$', x) for x in g)
        if not udp:
            # a helper that receives the transport as a parameter: the guard tests that parameter, and every caller
            # (transitively, inside server::*) passes the transport of the received message
            for x in g:
                m = re.match(r'^Transport::eq\(arg(\d),Transport::(Tcp\) in|Udp\) not in) \[0\]$', x)
                if m and 'server::Transport' in fn.local_ty(int(m.group(1))):
                    udp = transport_param_is_received(F, fn, int(m.group(1)))
        clr = [cb for cb, ct in calls_in(fn, W + 'clear_rrs') if fn.dominates(cb, b)]
        R.require(udp and bool(clr), 'tc-only-udp', '%s|set_tc' % fn.gpath, fn.where(b), 'TC set only on a UDP path, after clear_rrs', 'set_tc(true) at %s is %s%s' % (fn.where(b), '' if udp else 'not confined to UDP ', '' if clr else 'not preceded by clear_rrs'))
    R.require(len(tcs) >= 2, 'tc-only-udp', 'server|tc-sites', '', '%d set_tc(true) sites, all confined to UDP' % len(tcs), 'set_tc(true) sites: %s' % [x[0].gpath for x in tcs], nontrivial=False)
    hn = F.fn(HANDLE_NON_AXFR)
    pe = enum_variants(F, 'server::ProcessingError')
    sw = tables.switches(hn, r'^discr\(.*@Err\.0\)$')
    if len(sw) == 1:
        rows = tables.table(hn, sw[0][0])
        row = tables.row_for(rows, pe.index('Truncation'))
        got = effect_set(hn, row['region'])
        R.require(got == {'clear_rrs', 'set_aa(false)', 'set_rcode(SERVFAIL)', 'set_tc(true)'}, 'tc-only-udp', HANDLE_NON_AXFR + '|truncation-arm', hn.where(row['target']), 'Truncation: clear_rrs; TCP -> SERVFAIL + AA clear; UDP -> TC', 'the Truncation arm has effects %s' % sorted(got))
        tcp_b = [b for b, t in calls_in(hn, W + 'set_rcode') if b in row['region']]
        R.require(len(tcp_b) == 1 and any(re.match(r'^Transport::eq\(.*,Transport::Tcp\) not in \[0\]$', x) for x in paths.dom_guards(hn, tcp_b[0])), 'tc-only-udp', HANDLE_NON_AXFR + '|tcp-servfail', hn.where(), 'SERVFAIL only under TCP', 'the SERVFAIL of the Truncation arm is not confined to TCP')
    else:
        R.bad('tc-only-udp', HANDLE_NON_AXFR + '|truncation-arm', hn.where(), 'cannot find the match on the ProcessingError')
    R.floor('tc-only-udp', 5)
    # ---- (e)
    check_referral_glue(R, F)
