#!/usr/bin/env python3
"""Regenerate MANIFEST.json from the rule modules' metadata (run after adding a rule)."""
import importlib, json, os, sys
V = os.path.dirname(os.path.dirname(os.path.abspath(__file__)))
sys.path.insert(0, V)
props = [json.loads(l) for l in open(os.path.join(V, 'properties.jsonl'))]
NA = {
 'C20': 'Quantifies over add histories and complete iteration results; its only structural clauses (three guards dominate the mutation, duplicates dropped through equals) are each pinned by an existing unit test, so a static rule would decide nothing the suite cannot (DESIGN §6).',
 'C23': 'Semantic equivalence of a hand-written parser with the RFC 1035 §5 grammar under arbitrary presentation choices; no clause is a path/table/type fact beyond those claimed under C24 (DESIGN §6).',
}
checks = []; na = []
for p in props:
    pid = p['id']
    try:
        m = importlib.import_module('rules.' + pid.lower())
    except ModuleNotFoundError:
        m = None
    if m is None or getattr(m, 'DISABLED', False):
        na.append({'property_id': pid, 'reason': NA.get(pid) or (getattr(m, 'DISABLED', None) if m else None) or 'static check not built yet in this session (planned per DESIGN §5); not claimed until it exists'})
        continue
    c = {
        'property_id': pid,
        'quick_cmd': './check %s --tier quick' % pid,
        'thorough_cmd': './check %s --tier thorough' % pid,
        'evidence_file': '/verif/evidence/%s.json' % pid,
        'replay_cmd_template': './check %s --replay {path}' % pid,
        'engine': 'qv',
        'level_claimed': {'category': 'other', 'text': ' '.join(getattr(m, 'LEVEL', m.EXPLANATION).split()), 'design_ref': 'DESIGN.md §5 ' + pid},
        'level_note': ' '.join(getattr(m, 'LEVEL_NOTE', 'Trusted: rustc MIR construction/Instance resolution, the mirfacts exporter, the qv engines; every CFG path is assumed feasible. ' + '; '.join(getattr(m, 'ASSUMPTIONS', []))).split()),
        'technique': getattr(m, 'TECHNIQUE', 'static analysis: custom rules over rustc MIR (CFG paths, def-use slices, dispatch tables)'),
    }
    checks.append(c)
man = {
 'version': 1,
 'setup_cmd': 'cd /verif/mirfacts && CARGO_NET_OFFLINE=true cargo build --release --offline',
 'hooks': {'guard': 'quandary_verif', 'enable': 'none needed: static analysis reads the MIR of the unmodified build (cfg flag reserved, no hook commits)',
           'baseline_off_cmd': 'cd /repo && cargo test --workspace --no-fail-fast --offline', 'source_commits': [], 'add_only': True},
 'engines': [{'name': 'qv', 'path': '/verif/qv', 'serves_properties': [c['property_id'] for c in checks],
              'kind_free_text': 'rustc_private MIR fact exporter (mirfacts) + Python rule engines: call graph/effects, CFG path queries, def-use slices, dispatch-table extraction, linear bounds entailment, lock/guard analysis'}],
 'checks': checks,
 'not_applicable': na,
 'notes': 'All checks are static: they export MIR facts from /repo\'s working tree with a rustc_private driver and decide rule instances; nothing from /repo is executed. See DESIGN.md.',
}
json.dump(man, open(os.path.join(V, 'MANIFEST.json'), 'w'), indent=1)
print('checks', len(checks), 'not_applicable', len(na))
