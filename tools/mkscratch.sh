#!/bin/bash
# mkscratch.sh <seed-id>: scratch copy of /repo with the seeded patch applied; prints the directory (caller removes it)
S=$1; D=$(mktemp -d /tmp/qv-dbg-$S-XXXX)
cp /repo/Cargo.toml /repo/Cargo.lock $D/; cp -r /repo/src $D/src
P=/verif/seeded/$S/patch.rebased.diff; [ -s $P ] || P=/verif/seeded/$S/patch.diff
(cd $D && patch -p1 -s --no-backup-if-mismatch -i $P >/dev/null 2>&1)
echo $D
