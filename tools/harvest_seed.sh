#!/bin/bash
# harvest_seed.sh <ID>-<round>: move a sub-agent's result from /tmp/seed/<id> into /verif/seeded/<id>, drop its worktree, confirm it.
set -u
S=$1; W=/tmp/seed/$S; D=/verif/seeded/$S
mkdir -p $D
(cd $W && git diff -- src > $D/patch.diff)
[ -s $D/patch.diff ] || cp $W/patch.diff $D/patch.diff
cp $W/tests/demo_*.rs $D/ 2>/dev/null
cp $W/meta.json $D/meta.json 2>/dev/null
git -C /repo worktree remove --force $W
/verif/tools/confirm_seed.sh $S
