#!/usr/bin/env python3
"""Regenerate /verif/selftest/<PID>/<defect>.patch: the REVERSE of each `fix:` commit in /repo, i.e. the edit that
re-introduces a repaired defect.  The thorough tier applies each to a scratch copy and requires the rule to fire again."""
import os, subprocess
V = os.path.dirname(os.path.dirname(os.path.abspath(__file__)))
MAP = [  # (subject prefix, defect id, properties whose check must fire)
 ('fix: return after setting FORMERR', 'D4', ['C08']),
 ('fix: skip ordinary records while scanning', 'D15', ['C08']),
 ('fix: negative-caching SOA TTL', 'D7', ['C05']),
 ('fix: do not clamp the OPT TTL field when writing', 'D6', ['C09', 'C12']),
 ('fix: read the EDNS version from the raw OPT TTL', 'D5', ['C09']),
 ('fix: parse TYPE, CLASS, QTYPE and QCLASS', 'D8', ['C17']),
 ('fix: names_equal must consume both', 'D9', ['C19']),
 ('fix: do not prune a catalog node', 'D10', ['C22']),
 ('fix: saturate the RRL refill', 'D11', ['C26']),
 ('fix: a lingering pool worker', 'D12', ['C29']),
 ('fix: find a zone\'s previous catalog entry', 'D13', ['C31']),
 ('fix: test the raw TTL field of a TSIG RR', 'D16', ['C10']),
 ('fix: reject a compressed name that starts at', 'D1', ['C14', 'C15', 'C18', 'C01']),
 ('fix: skip_rr and peek_rr must not slice', 'D2', ['C15', 'C01']),
 ('fix: Rdata::read must fail, not overflow', 'D14', ['C18']),
 ('fix: truncate instead of panicking when a TSIG RR', 'D3', ['C01']),
]
log = subprocess.check_output(['git', '-C', '/repo', 'log', '--format=%H %s'], text=True).splitlines()
n = 0
for line in log:
    h, subj = line.split(' ', 1)
    for pre, did, pids in MAP:
        if subj.startswith(pre):
            rev = subprocess.check_output(['git', '-C', '/repo', 'diff', h, h + '^', '--', 'src'], text=True)
            for pid in pids:
                d = os.path.join(V, 'selftest', pid)
                os.makedirs(d, exist_ok=True)
                with open(os.path.join(d, did + '.patch'), 'w') as fh:
                    fh.write('# reverse of /repo commit %s (%s): re-introduces defect %s\n' % (h[:7], subj, did))
                    fh.write(rev)
                n += 1
print('wrote', n, 'reverse patches')
