#!/usr/bin/env python3
"""benign_sweep.py [names...] [-j N]: run EVERY registered check against behaviour-preserving refactorings kept under
/verif/benign/<set>/benign_<k>.diff (written by independent sub-agents; each passes the unedited test suite).  Any VIOLATION
here is a false alarm of a rule.  Scratch copies live under $TMPDIR and are removed; /repo is not touched."""
import concurrent.futures as cf, json, os, re, shutil, subprocess, sys
V = os.path.dirname(os.path.dirname(os.path.abspath(__file__)))
sys.path.insert(0, V)
from qv import selftest, export

def run(name, patch, pids):
    d, applies, out = selftest.make_scratch(export.REPO, patch, name)
    res = {'benign': name, 'applies': applies, 'alarms': {}}
    try:
        if applies:
            for pid in pids:
                r = subprocess.run([os.path.join(V, 'check'), pid, '--tier', 'quick', '--repo', d], cwd=V, stdout=subprocess.PIPE, stderr=subprocess.STDOUT, text=True)
                if r.returncode != 0:
                    keys = [k for _, k in re.findall(r'^    rule=(\S+) key=(.+?) at ', r.stdout, re.M)]
                    res['alarms'][pid] = keys[:6] or [r.stdout.strip().splitlines()[-1][:200]]
    finally:
        shutil.rmtree(d, ignore_errors=True)
    return res

def main():
    args = [a for a in sys.argv[1:] if not a.startswith('-')]
    j = 6
    if '-j' in sys.argv:
        j = int(sys.argv[sys.argv.index('-j') + 1]); args = [a for a in args if a != str(j)]
    pids = [c['property_id'] for c in json.load(open(os.path.join(V, 'MANIFEST.json')))['checks']]
    only = None
    if '--only' in sys.argv:        # --only C10,C11 : run just these checks (nothing is written to RESULT.json)
        only = sys.argv[sys.argv.index('--only') + 1].split(',')
        args = [a for a in args if a != sys.argv[sys.argv.index('--only') + 1]]
        pids = [p for p in pids if p in only]
    items = []
    bd = os.path.join(V, 'benign')
    for s in sorted(x for x in os.listdir(bd) if os.path.isdir(os.path.join(bd, x))):
        for f in sorted(os.listdir(os.path.join(bd, s))):
            if f.endswith('.diff'):
                n = '%s/%s' % (s, f[:-5])
                if not args or any(a in n + "." for a in args):
                    items.append((n, os.path.join(bd, s, f)))
    out = []
    with cf.ThreadPoolExecutor(max_workers=j) as ex:
        futs = [ex.submit(run, n, p, pids) for n, p in items]
        for f in futs:
            r = f.result(); out.append(r)
            print('%-22s %s %s' % (r['benign'], 'applies' if r['applies'] else 'STALE', ('FALSE ALARMS: ' + json.dumps(r['alarms'])[:600]) if r['alarms'] else 'silent'))
    if not args and only is None:
        json.dump(out, open(os.path.join(bd, 'RESULT.json'), 'w'), indent=1)
main()
