#!/bin/bash
# confirm_seed.sh <ID> <a|b>: confirm a seeded mutant myself in a scratch worktree of /repo HEAD:
#  demo passes on the clean tree; with the patch the existing suite passes and the demo fails.
# Writes /verif/seeded/<ID>-<v>/{patch.diff,demo,meta.json,confirm.json}; removes the worktree afterwards.
set -u
ID=$1; V=$2
SRC=/tmp/seed/out/$ID/$V
DST=/verif/seeded/$ID-$V
WT=/tmp/cs/$ID-$V
[ -f $SRC/patch.diff ] || { echo "$ID-$V: no patch"; exit 2; }
mkdir -p $DST /tmp/cs
cp $SRC/patch.diff $SRC/meta.json $DST/ 2>/dev/null
DEMO=$(ls $SRC | grep -E '^demo_.*\.rs$' | head -1)
cp $SRC/$DEMO $DST/
export CARGO_NET_OFFLINE=true
rm -rf $WT; git -C /repo worktree prune; git -C /repo worktree add -q --detach $WT HEAD || exit 3
cd $WT
mkdir -p tests; cp $SRC/$DEMO tests/
FEAT=""; grep -q 'all-features' $SRC/meta.json && FEAT="--all-features"
T=${DEMO%.rs}
applies=no; clean_demo=fail; suite=fail; mut_demo=pass
timeout 1200 cargo test --offline $FEAT --test $T > clean_demo.log 2>&1 && clean_demo=pass
if git apply --check $SRC/patch.diff 2>/dev/null; then git apply $SRC/patch.diff; applies=yes
elif git apply -3 $SRC/patch.diff 2>/dev/null; then applies=3way
elif patch -p1 --fuzz=3 -s < $SRC/patch.diff > patch.log 2>&1; then applies=fuzz
fi
if [ $applies != no ]; then
  git diff -- src > $DST/patch.rebased.diff
  timeout 1800 cargo test --offline $FEAT --no-fail-fast --lib --bins > suite.log 2>&1; s1=$?
  timeout 1800 cargo test --offline $FEAT --doc > doc.log 2>&1; s2=$?
  [ $s1 = 0 ] && [ $s2 = 0 ] && suite=pass
  timeout 1200 cargo test --offline $FEAT --test $T > mut_demo.log 2>&1 || mut_demo=fail
fi
python3 - <<P
import json,re
def tail(p,n=12):
    try: return open(p).read().splitlines()[-n:]
    except Exception: return []
res=[l for f in ('suite.log','doc.log') for l in tail('$WT/'+f,400) if l.startswith('test result')]
json.dump({'id':'$ID-$V','base':'$(git -C /repo rev-parse --short HEAD)','applies':'$applies','demo_on_clean_tree':'$clean_demo','suite_with_mutant':'$suite','demo_with_mutant':'$mut_demo',
 'suite_results':res,'demo_fail_excerpt':[l for l in tail('$WT/mut_demo.log',40) if 'FAILED' in l or 'panicked' in l or 'assert' in l][:6],
 'confirmed': '$applies'!='no' and '$clean_demo'=='pass' and '$suite'=='pass' and '$mut_demo'=='fail',
 'ran':'tools/confirm_seed.sh $ID $V (scratch worktree of /repo HEAD, removed afterwards)'}, open('$DST/confirm.json','w'), indent=1)
P
cd /; git -C /repo worktree remove --force $WT
echo "$ID-$V applies=$applies clean_demo=$clean_demo suite=$suite mut_demo=$mut_demo"
