#!/bin/bash
# confirm_seed.sh <ID>-<a|b|..>: confirm a seeded change myself in a scratch worktree of /repo HEAD:
#  the demo passes on the clean tree; with the patch the existing suite passes and the demo fails.
# Reads /verif/seeded/<id>/{patch.diff|patch.rebased.diff, demo_*.rs, meta.json}; writes confirm.json (+ patch.rebased.diff when the
# patch needed fuzz / 3-way to apply to today's HEAD); removes the worktree afterwards.
set -u
S=$1
DST=/verif/seeded/$S
WT=/tmp/cs/$S
P=$DST/patch.rebased.diff; [ -s $P ] || P=$DST/patch.diff
[ -f $P ] || { echo "$S: no patch"; exit 2; }
DEMO=$(ls $DST | grep -E '^demo_.*\.rs$' | head -1)
mkdir -p /tmp/cs
export CARGO_NET_OFFLINE=true
rm -rf $WT; git -C /repo worktree prune; git -C /repo worktree add -q --detach $WT HEAD || exit 3
cd $WT
mkdir -p tests; cp $DST/$DEMO tests/
FEAT=""; grep -q 'all-features' $DST/meta.json && FEAT="--all-features"
T=${DEMO%.rs}
applies=no; clean_demo=fail; suite=fail; mut_demo=pass
timeout 1200 cargo test --offline $FEAT --test $T > clean_demo.log 2>&1 && clean_demo=pass
if git apply --check $P 2>/dev/null; then git apply $P; applies=yes
elif git apply -3 $P 2>/dev/null; then applies=3way
elif patch -p1 --fuzz=3 -s < $P > patch.log 2>&1; then applies=fuzz
fi
if [ $applies != no ]; then
  [ $applies != yes ] && git diff -- src > $DST/patch.rebased.diff
  timeout 1800 cargo test --offline $FEAT --no-fail-fast --lib --bins > suite.log 2>&1; s1=$?
  timeout 1800 cargo test --offline $FEAT --doc > doc.log 2>&1; s2=$?
  [ $s1 = 0 ] && [ $s2 = 0 ] && suite=pass
  timeout 1200 cargo test --offline $FEAT --test $T > mut_demo.log 2>&1 || mut_demo=fail
fi
python3 - <<P
import json
def tail(p,n=12):
    try: return open(p).read().splitlines()[-n:]
    except Exception: return []
res=[l for f in ('suite.log','doc.log') for l in tail('$WT/'+f,400) if l.startswith('test result')]
json.dump({'id':'$S','base':'$(git -C /repo rev-parse --short HEAD)','applies':'$applies','demo_on_clean_tree':'$clean_demo','suite_with_mutant':'$suite','demo_with_mutant':'$mut_demo',
 'suite_results':res,'demo_fail_excerpt':[l for l in tail('$WT/mut_demo.log',40) if 'FAILED' in l or 'panicked' in l or 'assert' in l][:6],
 'confirmed': '$applies'!='no' and '$clean_demo'=='pass' and '$suite'=='pass' and '$mut_demo'=='fail',
 'ran':'tools/confirm_seed.sh $S (scratch worktree of /repo HEAD, removed afterwards)'}, open('$DST/confirm.json','w'), indent=1)
P
cd /; git -C /repo worktree remove --force $WT
echo "$S applies=$applies clean_demo=$clean_demo suite=$suite mut_demo=$mut_demo"
