#!/usr/bin/env python3
"""kf.py <property> <status> <key> <what> [commit]  — append an entry to known_findings.json (by hand, never at check time)."""
import json, sys
p = '/verif/known_findings.json'
k = json.load(open(p))
e = {'property': sys.argv[1], 'status': sys.argv[2], 'key': sys.argv[3], 'what': sys.argv[4]}
if len(sys.argv) > 5: e['commit'] = sys.argv[5]
k['findings'].append(e)
json.dump(k, open(p, 'w'), indent=1)
