#!/usr/bin/env python3
"""seed_sweep.py [ids...] [--all-checks] [-j N]

Run the registered checks against every seeded breaking change under /verif/seeded/<id>/.
For each seed: copy /repo's working tree (src, Cargo.*) to a scratch directory under /tmp, apply the patch there
(patch.rebased.diff if present, else patch.diff), run `./check <PID> --repo <scratch>` for the seed's own property (and,
with --all-checks, every claimed property), record which rule instances fire, remove the scratch copy.
Writes /verif/seeded/<id>/detect.json and /verif/seeded/MATRIX.md.  Nothing here is a registered check; /repo is not touched.
"""
import concurrent.futures as cf
import json
import os
import re
import shutil
import subprocess
import sys
import tempfile

VERIF = os.path.dirname(os.path.dirname(os.path.abspath(__file__)))
SEEDED = os.path.join(VERIF, 'seeded')
REPO = '/repo'


def claimed():
    m = json.load(open(os.path.join(VERIF, 'MANIFEST.json')))
    return [c['property_id'] for c in m['checks']]


def run_seed(sid, pids):
    d = os.path.join(SEEDED, sid)
    patch = os.path.join(d, 'patch.rebased.diff')
    if not os.path.exists(patch) or os.path.getsize(patch) == 0:
        patch = os.path.join(d, 'patch.diff')
    scratch = tempfile.mkdtemp(prefix='qv-seed-%s-' % sid)
    res = {'seed': sid, 'patch': os.path.basename(patch), 'applies': False, 'checks': {}}
    try:
        for f in ('Cargo.toml', 'Cargo.lock', 'build.rs'):
            if os.path.exists(os.path.join(REPO, f)):
                shutil.copy(os.path.join(REPO, f), scratch)
        shutil.copytree(os.path.join(REPO, 'src'), os.path.join(scratch, 'src'))
        for extra in ('benches', 'examples'):
            if os.path.isdir(os.path.join(REPO, extra)):
                shutil.copytree(os.path.join(REPO, extra), os.path.join(scratch, extra))
        r = subprocess.run(['patch', '-p1', '-s', '--no-backup-if-mismatch', '-i', patch], cwd=scratch, stdout=subprocess.PIPE, stderr=subprocess.STDOUT, text=True)
        # patches may also add tests/… files; only src matters
        res['applies'] = r.returncode == 0 or 'src/' not in r.stdout
        res['patch_out'] = r.stdout[-400:]
        if not res['applies']:
            return res
        for pid in pids:
            r = subprocess.run([os.path.join(VERIF, 'check'), pid, '--tier', 'quick', '--repo', scratch], cwd=VERIF, stdout=subprocess.PIPE, stderr=subprocess.STDOUT, text=True)
            keys = re.findall(r'^    rule=(\S+) key=(.+?) at ', r.stdout, re.M)
            res['checks'][pid] = {'exit': r.returncode if (r.returncode != 1 or 'VIOLATION property=' in r.stdout) else 3, 'fired': [k for _, k in keys], 'tail': r.stdout.strip().splitlines()[-1][:300] if r.stdout.strip() else ''}
            if r.returncode not in (0, 1):
                res['checks'][pid]['output'] = r.stdout[-1500:]
    finally:
        shutil.rmtree(scratch, ignore_errors=True)
    with open(os.path.join(d, 'detect.json'), 'w') as fh:
        json.dump(res, fh, indent=1)
    return res


def main():
    args = [a for a in sys.argv[1:] if not a.startswith('-')]
    allc = '--all-checks' in sys.argv
    j = 8
    for i, a in enumerate(sys.argv):
        if a == '-j':
            j = int(sys.argv[i + 1])
            args = [x for x in args if x != sys.argv[i + 1]]
    seeds = sorted(e for e in os.listdir(SEEDED) if os.path.isdir(os.path.join(SEEDED, e)))
    if args:
        seeds = [s for s in seeds if s in args or s.split('-')[0] in args]
    cl = claimed()
    only = None
    if '--only' in sys.argv:        # --only C10,C11 : sweep just the seeds of these properties (MATRIX.md is not rewritten)
        only = sys.argv[sys.argv.index('--only') + 1].split(',')
        args = [a for a in args if a != sys.argv[sys.argv.index('--only') + 1]]
        seeds = [s for s in sorted(e for e in os.listdir(SEEDED) if os.path.isdir(os.path.join(SEEDED, e))) if s.split('-')[0] in only]
    jobs = {}
    with cf.ThreadPoolExecutor(max_workers=j) as ex:
        for s in seeds:
            pid = s.split('-')[0]
            pids = cl if allc else ([pid] if pid in cl else [])
            if pid in cl and pid not in pids:
                pids = [pid] + pids
            jobs[s] = ex.submit(run_seed, s, pids)
    rows = []
    for s in seeds:
        r = jobs[s].result()
        pid = s.split('-')[0]
        own = r['checks'].get(pid)
        others = [p for p, c in r['checks'].items() if p != pid and c['exit'] == 1]
        if not r['applies']:
            st = 'PATCH DOES NOT APPLY'
        elif own is None:
            st = 'not claimed'
        elif own['exit'] == 1:
            st = 'caught'
        elif own['exit'] == 0:
            st = 'MISSED'
        else:
            st = 'ERROR exit %s' % own['exit']
        rows.append((s, st, (own or {}).get('fired', [])[:3], others))
        print('%-7s %-12s %s %s' % (s, st, '; '.join((own or {}).get('fired', [])[:2])[:150], ('also: ' + ','.join(others)) if others else ''))
    if not args and only is None:
        with open(os.path.join(SEEDED, 'MATRIX.md'), 'w') as fh:
            fh.write('# Seeded breaking changes vs. checks (written by tools/seed_sweep.py)\n\n| seed | own check | first rule instances that fire | other checks that fire |\n|---|---|---|---|\n')
            for s, st, fired, others in rows:
                fh.write('| %s | %s | %s | %s |\n' % (s, st, '<br>'.join(f.replace('|', '\\|')[:140] for f in fired), ' '.join(others)))
    return 0


if __name__ == '__main__':
    sys.exit(main())
