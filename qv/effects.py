"""E1: field write effects (direct and transitive through the resolved call graph)."""
import re
from collections import defaultdict


def strip_ty(ty):
    """`&mut message::writer::Writer<'_>` -> `message::writer::Writer`."""
    t = ty.strip()
    while True:
        m = re.match(r"^&(?:'\w+ )?(?:mut )?(.*)$", t)
        if m:
            t = m.group(1).strip()
            continue
        m = re.match(r'^\*(?:mut|const) (.*)$', t)
        if m:
            t = m.group(1).strip()
            continue
        break
    # drop generic args
    depth = 0
    out = ''
    for ch in t:
        if ch == '<':
            depth += 1
        elif ch == '>':
            depth -= 1
        elif depth == 0:
            out += ch
    return out.strip()


def place_field_chain(fn, pl):
    """[(container type, field name)] along a place's projections."""
    out = []
    cur = fn.local_ty(pl['l'])
    for p in pl['p']:
        if p == 'deref':
            continue
        if isinstance(p, dict) and 'f' in p:
            out.append((strip_ty(cur), p['n']))
            cur = p['ty']
        elif isinstance(p, dict) and 'down' in p:
            continue
        else:
            # index / subslice: element type unknown here; keep container
            out.append((strip_ty(cur), '[]'))
    return out


def direct_writes(fn, include_mutborrow=True):
    """{(container type, field): [(block, kind)]} for assignments, call destinations and
    (optionally) &mut borrows of field places in non-cleanup blocks."""
    out = defaultdict(list)
    for b, blk in enumerate(fn.blocks):
        if blk['cleanup']:
            continue
        for i, st in enumerate(blk['stmts']):
            if st['k'] == 'assign':
                if st['lhs']['p']:
                    ch = place_field_chain(fn, fn.canon(st['lhs']))
                    for c in ch[-1:]:
                        out[c].append((b, 'assign'))
                    # writing a.b.c also modifies a.b and a
                    for c in ch[:-1]:
                        out[c].append((b, 'assign-inner'))
                rv = st['rv']
                if include_mutborrow and rv['k'] in ('ref', 'rawptr') and rv.get('mut') and rv['pl']['p']:
                    ch = place_field_chain(fn, fn.canon(rv['pl']))
                    if ch and not (len(rv['pl']['p']) == 1 and rv['pl']['p'][0] == 'deref'):
                        for c in ch[-1:]:
                            out[c].append((b, 'mutborrow'))
                        for c in ch[:-1]:
                            out[c].append((b, 'mutborrow-inner'))
        t = blk['term']
        if t['k'] == 'call' and t['dest']['p']:
            ch = place_field_chain(fn, fn.canon(t['dest']))
            for c in ch[-1:]:
                out[c].append((b, 'calldest'))
            for c in ch[:-1]:
                out[c].append((b, 'calldest-inner'))
    return out


def transitive_writes(F, roots, container=None, kinds=('assign', 'calldest', 'mutborrow')):
    """{field: {fn gpath}} written (directly) by any function reachable from roots."""
    out = defaultdict(set)
    for gp in F.reachable_fns(roots):
        fn = F.fns[gp]
        for (cont, field), sites in direct_writes(fn).items():
            if container is not None and cont != container:
                continue
            if any(k in kinds for b, k in sites):
                out[field].add(gp)
    return out


def writers_of(F, container, field=None, kinds=('assign', 'calldest', 'mutborrow'), scope=None):
    """{field: {fn gpath: [blocks]}} over the whole fact base."""
    out = defaultdict(dict)
    for gp, fn in F.fns.items():
        if scope is not None and not scope(fn):
            continue
        for (cont, f), sites in direct_writes(fn).items():
            if cont != container or (field is not None and f != field):
                continue
            bs = [b for b, k in sites if k in kinds]
            if bs:
                out[f][gp] = bs
    return out
