"""E4: dispatch-table extraction from MIR `switchInt`s.

A `match` on an enum / newtype code compiles to `switchInt(discr or field)`; each
arm is the region of the CFG reachable from its target but from no other arm's
target (computed with the switch block removed, which also cuts enclosing
loops).  An arm is summarised by the calls it makes (with constant arguments)
and the constants / aggregates it builds; tables are compared with sibling
tables or with frozen spec tables.
"""
import re
from collections import defaultdict

from .facts import callee_name, const_name, is_place, op_str
from . import paths


def switches(fn, scrutinee_re=None, min_arms=1):
    out = []
    for b, blk in enumerate(fn.blocks):
        if blk['cleanup']:
            continue
        t = blk['term']
        if t['k'] != 'switch' or len(set(x[1] for x in t['targets']) | {t['otherwise']}) < min_arms + 0:
            continue
        txt = paths.show_operand(fn, t['op'])
        if scrutinee_re is None or re.search(scrutinee_re, txt):
            out.append((b, txt))
    return out


def arms(fn, b):
    """{target block: {'values': [...], 'otherwise': bool}}"""
    t = fn.blocks[b]['term']
    out = defaultdict(lambda: {'values': [], 'otherwise': False})
    for v, tb in t['targets']:
        out[tb]['values'].append(v)
    out[t['otherwise']]['otherwise'] = True
    return dict(out)


def arm_regions(fn, b):
    """{target: set(blocks exclusive to that arm)}; unreachable-only arms are dropped."""
    a = arms(fn, b)
    reach = {}
    for tb in a:
        reach[tb] = fn.reachable(tb, avoid={b})
    out = {}
    for tb in a:
        others = set()
        for ob in a:
            if ob != tb:
                others |= reach[ob]
        excl = reach[tb] - others
        out[tb] = excl
    return out


def is_unreachable_arm(fn, tb):
    return fn.blocks[tb]['term']['k'] == 'unreachable' and not fn.blocks[tb]['stmts']


def region_calls(fn, region):
    """[(callee name, [const arg texts or None], block)] in block order."""
    out = []
    for b in sorted(region):
        blk = fn.blocks[b]
        if blk['cleanup']:
            continue
        t = blk['term']
        if t['k'] == 'call':
            out.append((callee_name(t), [const_name(a) if a['k'] == 'const' else None for a in t['args']], b))
    return out


def region_consts(fn, region):
    out = set()
    for b in region:
        for st in fn.blocks[b]['stmts']:
            if st['k'] == 'assign':
                rv = st['rv']
                if rv['k'] == 'use' and rv['op']['k'] == 'const':
                    out.add(const_name(rv['op']))
                if rv['k'] == 'agg':
                    if rv['def']:
                        out.add('agg ' + rv['def'])
                    for o in rv['ops']:
                        if o['k'] == 'const':
                            out.add(const_name(o))
    return out


def table(fn, b, skip_unreachable=True):
    """[(values, otherwise?, target, calls, consts)] for the switch at block b."""
    a = arms(fn, b)
    regs = arm_regions(fn, b)
    rows = []
    for tb, info in sorted(a.items(), key=lambda kv: (kv[1]['values'] or [1 << 62])):
        if skip_unreachable and is_unreachable_arm(fn, tb):
            continue
        rows.append({'values': sorted(info['values']), 'otherwise': info['otherwise'], 'target': tb,
                     'region': regs[tb], 'calls': region_calls(fn, regs[tb]), 'consts': region_consts(fn, regs[tb])})
    return rows


def row_for(rows, value):
    for r in rows:
        if value in r['values']:
            return r
    for r in rows:
        if r['otherwise']:
            return r
    return None


def calls_short(row):
    return [paths.short(c[0]) for c in row['calls']]


def has_call(row, suffix, const_arg=None):
    for name, cargs, b in row['calls']:
        if name.endswith(suffix) or paths.short(name) == suffix:
            if const_arg is None or any(ca is not None and const_arg in ca for ca in cargs):
                return True
    return False
