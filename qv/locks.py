"""E6: lock acquisition sites, guard live ranges, lock-order graph, wake-up discipline."""
import re
from collections import defaultdict, deque

from .facts import callee_name, is_place, block_reads, block_writes, place_str
from .effects import place_field_chain, strip_ty

LOCK_FNS = ('std::sync::Mutex::<T>::lock', 'std::sync::RwLock::<T>::read', 'std::sync::RwLock::<T>::write')
WAIT_FNS = ('std::sync::Condvar::wait', 'std::sync::Condvar::wait_timeout', 'std::sync::Condvar::wait_while', 'std::sync::Condvar::wait_timeout_while')


def lock_class(fn, t):
    """Protected type of a lock()/read()/write() call, from the receiver's type."""
    a = t['args'][0]
    ty = a['pl']['ty'] if is_place(a) else ''
    m = re.search(r'(?:Mutex|RwLock)<(.*)>$', ty.strip())
    inner = m.group(1) if m else ty
    return strip_ty(inner) if not inner.startswith('std::sync::Arc<') else 'Arc<%s>' % strip_ty(inner[len('std::sync::Arc<'):-1])


def lock_sites(fn):
    out = []
    for b, t in fn.calls():
        n = callee_name(t)
        if n in LOCK_FNS:
            out.append((b, t, lock_class(fn, t)))
    return out


def wait_sites(fn):
    return [(b, t) for b, t in fn.calls() if callee_name(t) in WAIT_FNS]


def guard_locals(fn, lock_block):
    """Locals that hold the guard produced by the lock call at lock_block (through unwrap / moves / tuple fields of
    wait results)."""
    t = fn.blocks[lock_block]['term']
    start = t['dest']['l']
    seen = {start}
    q = deque([start])
    while q:
        l = q.popleft()
        for b, blk in enumerate(fn.blocks):
            if blk['cleanup']:
                continue
            for st in blk['stmts']:
                if st['k'] == 'assign' and st['rv']['k'] == 'use' and is_place(st['rv']['op']) and st['rv']['op']['pl']['l'] == l and not st['lhs']['p']:
                    if 'Guard' in fn.local_ty(st['lhs']['l']) or 'Guard' in st['rv']['op']['pl'].get('ty', ''):
                        if st['lhs']['l'] not in seen:
                            seen.add(st['lhs']['l'])
                            q.append(st['lhs']['l'])
            tt = blk['term']
            if tt['k'] == 'call' and not tt['dest']['p']:
                n = callee_name(tt)
                if any(is_place(a) and a['pl']['l'] == l for a in tt['args']) and (n.endswith('::unwrap') or n.endswith('::expect') or n in WAIT_FNS or n.endswith('unwrap_or_else')):
                    d = tt['dest']['l']
                    if d not in seen:
                        seen.add(d)
                        q.append(d)
    return {l for l in seen if 'Guard' in fn.local_ty(l)} | {start}


def release_blocks(fn, guards):
    """Blocks whose terminator drops (or consumes without returning) a guard local: Drop terminators and drop()/
    mem::drop calls.  A move into Condvar::wait* is *not* a release here: the wait returns the guard."""
    out = set()
    for b, blk in enumerate(fn.blocks):
        if blk['cleanup']:
            continue
        t = blk['term']
        if t['k'] == 'drop' and t['pl']['l'] in guards and not t['pl']['p']:
            out.add(b)
        if t['k'] == 'call' and callee_name(t) in ('std::mem::drop', 'core::mem::drop') and any(is_place(a) and a['pl']['l'] in guards for a in t['args']):
            out.add(b)
    return out


def held_region(fn, lock_block):
    """Blocks at whose *terminator* the guard from lock_block may still be held."""
    g = guard_locals(fn, lock_block)
    rel = release_blocks(fn, g)
    t = fn.blocks[lock_block]['term']
    if t['t'] is None:
        return set(), g, rel
    seen = set()
    q = deque([t['t']])
    while q:
        b = q.popleft()
        if b in seen:
            continue
        seen.add(b)
        if b in rel:
            continue
        q.extend(fn.succs()[b])
    return seen - rel, g, rel


def field_readers(fn, container_suffix, field):
    """Blocks that read `field` of a value whose type ends with container_suffix."""
    out = set()
    for b, blk in enumerate(fn.blocks):
        if blk['cleanup']:
            continue
        for pl in block_reads(fn, b):
            for cont, f in place_field_chain(fn, fn.canon(pl)):
                if f == field and cont.endswith(container_suffix):
                    out.add(b)
    return out


def field_writers(fn, container_suffix, field):
    out = set()
    for b, blk in enumerate(fn.blocks):
        if blk['cleanup']:
            continue
        for pl in block_writes(fn, b):
            ch = place_field_chain(fn, fn.canon(pl))
            if ch and ch[-1][1] == field and ch[-1][0].endswith(container_suffix):
                out.add(b)
    return out


def acquires_summary(F, scope):
    """gpath -> set of lock classes the function may acquire (directly or through callees in scope)."""
    direct = {}
    for fn in scope:
        direct[fn.gpath] = {c for b, t, c in lock_sites(fn)}
    cg = F.callgraph()
    names = {fn.gpath for fn in scope}
    summ = {g: set(v) for g, v in direct.items()}
    changed = True
    while changed:
        changed = False
        for g in names:
            for c in cg.get(g, ()):
                if c in summ and not summ[c] <= summ[g]:
                    summ[g] |= summ[c]
                    changed = True
    return summ


def lock_order_edges(F, scope):
    """[(class A, class B, fn, call block)]: B may be acquired (directly or in a callee) while a guard of A is held."""
    summ = acquires_summary(F, scope)
    edges = []
    for fn in scope:
        for lb, lt, cls in lock_sites(fn):
            region, g, rel = held_region(fn, lb)
            for b in region:
                t = fn.blocks[b]['term']
                if t['k'] != 'call' or b == lb:
                    continue
                n = callee_name(t)
                if n in LOCK_FNS:
                    edges.append((cls, lock_class(fn, t), fn, b))
                for c in F.resolve_callee(fn, t):
                    for cl2 in summ.get(c.gpath, ()):
                        edges.append((cls, cl2, fn, b))
        # functions that receive a held guard by &mut: everything they acquire happens under that class
        for i in range(1, fn.argc + 1):
            ty = fn.local_ty(i)
            m = re.search(r'MutexGuard<(?:\'[\w_]+, )?(.*)>$', ty)
            if m and ty.startswith('&'):
                cls = strip_ty(m.group(1))
                for b, t in fn.calls():
                    n = callee_name(t)
                    if n in LOCK_FNS:
                        edges.append((cls, lock_class(fn, t), fn, b))
                    for c in F.resolve_callee(fn, t):
                        for cl2 in summ.get(c.gpath, ()):
                            edges.append((cls, cl2, fn, b))
    return edges


def find_cycle(edges):
    g = defaultdict(set)
    for a, b, fn, blk in edges:
        g[a].add(b)
    for a in list(g):
        # self edge or cycle through DFS
        stack = [(a, [a])]
        seen = set()
        while stack:
            x, path = stack.pop()
            for y in g.get(x, ()):
                if y == a:
                    return path + [a]
                if y not in seen:
                    seen.add(y)
                    stack.append((y, path + [y]))
    return None
