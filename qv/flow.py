"""E3: intraprocedural backward def-use slices over MIR.

A slice starts from an operand (or place) at a program point and follows
definitions backwards: moves/copies, reborrows, casts, unary/binary operators,
aggregates, field projections and calls (the call's result is taken to depend
on all of its arguments).  Definitions are taken flow-insensitively per local
(MIR temporaries are single-assignment; user variables with several
assignments contribute all of them), but field-sensitively for places.

The slice is a graph: nodes are ('local', l), ('call', block), ('const', text),
('param', l), ('place', canonical place text); edges point from a value to the
values it was computed from.  Queries: which calls / constants / parameters /
field reads can the value derive from, and does some def-use path from the
sink to a source pass through a given call.
"""
from collections import defaultdict, deque

from .facts import callee_name, const_name, is_place, place_str, rvalue_operands, field_names


class Slice:
    def __init__(self, fn):
        self.fn = fn
        self.edges = defaultdict(set)
        self.nodes = set()
        self.roots = []

    # -- node accessors
    def calls(self):
        """[(callee name, block, term)] of calls the value may derive from."""
        out = []
        for n in self.nodes:
            if n[0] == 'call':
                t = self.fn.blocks[n[1]]['term']
                out.append((callee_name(t), n[1], t))
        return out

    def call_names(self):
        return {c[0] for c in self.calls()}

    def consts(self):
        return {n[1] for n in self.nodes if n[0] == 'const'}

    def params(self):
        return {n[1] for n in self.nodes if n[0] == 'param'}

    def places(self):
        return {n[1] for n in self.nodes if n[0] == 'place'}

    def fields(self):
        """Set of field names read anywhere in the slice (last field of each place)."""
        out = set()
        for n in self.nodes:
            if n[0] == 'place' and n[2]:
                out.add(n[2][-1])
        return out

    def field_paths(self):
        return {tuple(n[2]) for n in self.nodes if n[0] == 'place'}

    def has_call(self, pred):
        return any((pred(c[0]) if callable(pred) else pred in c[0]) for c in self.calls())

    def reach_from(self, start_nodes, stop=None):
        seen = set()
        q = deque(start_nodes)
        while q:
            n = q.popleft()
            if n in seen:
                continue
            seen.add(n)
            if stop and stop(n) and n not in start_nodes:
                continue
            q.extend(self.edges.get(n, ()))
        return seen

    def sources_behind_call(self, pred):
        """Nodes reachable (backwards) from the arguments of calls matching pred."""
        starts = [n for n in self.nodes if n[0] == 'call' and pred(callee_name(self.fn.blocks[n[1]]['term']))]
        out = set()
        for s in starts:
            out |= self.reach_from([s]) - {s}
        return starts, out

    def passes_through(self, through_pred, source_pred):
        """Is there a def-use path root -> ... -> call(through) -> ... -> source?"""
        starts, behind = self.sources_behind_call(through_pred)
        hits = [n for n in behind if source_pred(n)]
        return hits

    def avoiding(self, through_pred):
        """Nodes reachable from the roots without passing any call matching through_pred."""
        def stop(n):
            return n[0] == 'call' and through_pred(callee_name(self.fn.blocks[n[1]]['term']))
        seen = set()
        q = deque(self.roots)
        while q:
            n = q.popleft()
            if n in seen:
                continue
            seen.add(n)
            if stop(n):
                continue
            q.extend(self.edges.get(n, ()))
        return seen


class Slicer:
    def __init__(self, fn, facts=None, through_calls=True, call_filter=None, control=False):
        self.fn = fn
        self.control = control
        self.F = facts
        self.through_calls = through_calls
        self.call_filter = call_filter
        self._mutref = None

    # calls that receive `&mut local` (directly or through a single-assignment reborrow)
    def mutref_calls(self):
        if self._mutref is None:
            m = defaultdict(list)
            fn = self.fn
            for b, t in fn.calls():
                for a in t['args']:
                    if not is_place(a) or a['pl']['p']:
                        continue
                    ty = fn.local_ty(a['pl']['l'])
                    if not ty.startswith('&mut '):
                        continue
                    c = fn.canon({'l': a['pl']['l'], 'p': ['deref'], 'ty': ''})
                    if 'deref' not in c['p'] and not (1 <= c['l'] <= fn.argc):
                        m[c['l']].append(b)
            self._mutref = m
        return self._mutref

    def slice_operand(self, o, sl=None):
        sl = sl or Slice(self.fn)
        self._pending = []
        n = self._node_of_operand(o, sl)
        if n is not None:
            sl.roots.append(n)
            self._expand(sl)
        return sl

    def slice_place(self, pl, sl=None):
        return self.slice_operand({'k': 'copy', 'pl': pl}, sl)

    def slice_local(self, l, sl=None):
        return self.slice_place({'l': l, 'p': [], 'ty': ''}, sl)

    # -- internals
    def _node_of_operand(self, o, sl):
        if o['k'] == 'const':
            n = ('const', const_name(o) if not o.get('def') else 'fn ' + o['def'])
            sl.nodes.add(n)
            return n
        if not is_place(o):
            return None
        return self._node_of_place(o['pl'], sl)

    def _node_of_place(self, pl, sl):
        fn = self.fn
        c = fn.canon(pl)
        if not c['p']:
            n = ('local', c['l'])
        else:
            n = ('place', place_str(c), tuple(field_names(c)), c['l'])
        if n not in sl.nodes:
            sl.nodes.add(n)
            self._pending.append(n)
        return n

    def _expand(self, sl):
        fn = self.fn
        done = set()
        while self._pending:
            n = self._pending.pop()
            if n in done:
                continue
            done.add(n)
            if n[0] == 'place':
                # value read from memory / a field: depends on the base local's definitions too
                base = n[3]
                bn = ('local', base)
                sl.edges[n].add(bn)
                if bn not in sl.nodes:
                    sl.nodes.add(bn)
                    self._pending.append(bn)
                # and on writes to that exact place (field assignments) anywhere in the function
                for b, blk in enumerate(fn.blocks):
                    if blk['cleanup']:
                        continue
                    for st in blk['stmts']:
                        if st['k'] == 'assign' and st['lhs']['p']:
                            cs = fn.canon(st['lhs'])
                            if place_str(cs) == n[1]:
                                self._rv_edges(n, st['rv'], sl)
                                if self.control:
                                    # a conditional store: the stored value also depends on the branch that selects it
                                    for (p, s_) in fn.control_deps().get(b, ()):
                                        sw = fn.blocks[p]['term']
                                        if sw['k'] == 'switch':
                                            self._add(n, self._node_of_operand(sw['op'], sl), sl)
                    t = blk['term']
                    if t['k'] == 'call' and t['dest']['p'] and place_str(fn.canon(t['dest'])) == n[1]:
                        self._call_edges(n, b, t, sl)
                continue
            l = n[1]
            if 1 <= l <= fn.argc:
                p = ('param', l)
                sl.nodes.add(p)
                sl.edges[n].add(p)
            ds = fn.defs().get(l, [])
            for (b, i, kind, node) in ds:
                if fn.blocks[b]['cleanup']:
                    continue
                if self.control and len(ds) > 1:
                    # short-circuit / phi-like temporaries: the value also depends on the branches selecting the definition
                    for (p, s_) in fn.control_deps().get(b, ()):
                        sw = fn.blocks[p]['term']
                        if sw['k'] == 'switch':
                            self._add(n, self._node_of_operand(sw['op'], sl), sl)
                if kind == 'assign' or kind == 'part':
                    if node['k'] == 'assign':
                        self._rv_edges(n, node['rv'], sl)
                elif kind in ('call', 'partcall'):
                    self._call_edges(n, b, node, sl)
            for b in self.mutref_calls().get(l, []):
                self._call_edges(n, b, fn.blocks[b]['term'], sl)

    def _add(self, frm, to, sl):
        if to is None:
            return
        sl.edges[frm].add(to)

    def _rv_edges(self, n, rv, sl):
        k = rv['k']
        if k in ('ref', 'rawptr', 'discr'):
            self._add(n, self._node_of_place(rv['pl'], sl), sl)
            return
        for o in rvalue_operands(rv):
            self._add(n, self._node_of_operand(o, sl), sl)

    def _call_edges(self, n, b, t, sl):
        cn = ('call', b)
        first = cn not in sl.nodes
        sl.nodes.add(cn)
        sl.edges[n].add(cn)
        if not first:
            return
        name = callee_name(t)
        if not self.through_calls:
            return
        if self.call_filter and not self.call_filter(name):
            return
        for a in t['args']:
            self._add(cn, self._node_of_operand(a, sl), sl)
        # indirect call: the callee operand itself
        if not t.get('callee') and is_place(t.get('fn')):
            self._add(cn, self._node_of_operand(t['fn'], sl), sl)


def slice_of(fn, operand, facts=None, **kw):
    return Slicer(fn, facts, **kw).slice_operand(operand)


def arg_slice(fn, term, idx, **kw):
    return slice_of(fn, term['args'][idx], **kw)
