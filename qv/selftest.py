"""Thorough tier: does the check still fire on code that is known to break the property?

Mutants = the seeded breaking changes under /verif/seeded/<PID>-*/ (written by independent sub-agents, confirmed by hand)
and the reverse patches of the repaired defects under /verif/selftest/<PID>/.  Each is applied to a scratch COPY of /repo's
working tree under $TMPDIR (never to /repo), facts are exported from the copy, the property's rules are run on it, the copy
is removed.  A mutant that no longer applies is reported as stale, one that is not detected as missed; neither is a
violation of the property on /repo's tree, so neither changes the exit status -- they are recorded in the evidence.
"""
import concurrent.futures as cf
import json
import os
import re
import shutil
import subprocess
import tempfile

from . import export

VERIF = export.VERIF


def mutants_for(pid):
    out = []
    sd = os.path.join(VERIF, 'seeded')
    if os.path.isdir(sd):
        for e in sorted(os.listdir(sd)):
            if e.split('-')[0] == pid and os.path.isdir(os.path.join(sd, e)):
                p = os.path.join(sd, e, 'patch.rebased.diff')
                if not os.path.exists(p) or os.path.getsize(p) == 0:
                    p = os.path.join(sd, e, 'patch.diff')
                if os.path.exists(p):
                    out.append(('seeded/' + e, p))
    st = os.path.join(VERIF, 'selftest', pid)
    if os.path.isdir(st):
        for e in sorted(os.listdir(st)):
            if e.endswith('.patch'):
                out.append(('selftest/%s/%s' % (pid, e[:-6]), os.path.join(st, e)))
    return out


def make_scratch(repo, patch, tag):
    d = tempfile.mkdtemp(prefix='qv-mut-%s-' % re.sub(r'\W+', '_', tag))
    for f in ('Cargo.toml', 'Cargo.lock', 'build.rs'):
        if os.path.exists(os.path.join(repo, f)):
            shutil.copy(os.path.join(repo, f), d)
    shutil.copytree(os.path.join(repo, 'src'), os.path.join(d, 'src'))
    r = subprocess.run(['patch', '-p1', '-s', '--no-backup-if-mismatch', '-i', patch], cwd=d, stdout=subprocess.PIPE, stderr=subprocess.STDOUT, text=True)
    applies = r.returncode == 0 or 'src/' not in r.stdout
    return d, applies, r.stdout[-300:]


def run_one(pid, name, patch, repo):
    d, applies, out = make_scratch(repo, patch, name)
    res = {'mutant': name, 'applies': applies, 'fired': [], 'status': 'stale'}
    try:
        if applies:
            r = subprocess.run([os.path.join(VERIF, 'check'), pid, '--tier', 'quick', '--repo', d], cwd=VERIF, stdout=subprocess.PIPE, stderr=subprocess.STDOUT, text=True)
            keys = [k for _, k in re.findall(r'^    rule=(\S+) key=(.+?) at ', r.stdout, re.M)]
            res['fired'] = keys[:6]
            if 'VIOLATION property=' in r.stdout and r.returncode == 1:
                res['status'] = 'detected'
            elif r.returncode == 0:
                res['status'] = 'missed'
            else:
                res['status'] = 'error'
                res['output'] = r.stdout[-600:]
    finally:
        shutil.rmtree(d, ignore_errors=True)
    return res


def run_all(pid, repo=None, jobs=6):
    repo = repo or export.REPO
    ms = mutants_for(pid)
    out = []
    with cf.ThreadPoolExecutor(max_workers=jobs) as ex:
        futs = [ex.submit(run_one, pid, n, p, repo) for n, p in ms]
        for f in futs:
            out.append(f.result())
    return out
