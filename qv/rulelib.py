"""Shared anchors and predicates for the rule modules."""
import re

from .facts import callee_name, const_int, const_name, is_place, MissingAnchor
from .flow import slice_of

HANDLE_MESSAGE = 'server::Server::<C>::handle_message'
HMWC = 'server::Server::<C>::handle_message_with_context'
HANDLE_QUERY = 'server::query::<impl server::Server<C>>::handle_query'
HANDLE_NON_AXFR = 'server::query::<impl server::Server<C>>::handle_non_axfr_query'
W = "message::writer::Writer::<'a>::"
RD = "message::reader::Reader::<'a>::"


def server_fns(F):
    """Functions of the server module on the request path (rrl excluded where noted by callers)."""
    return [f for p, f in F.fns.items() if f.crate == 'quandary' and (p.startswith('server::') or p.startswith('<server::'))]


def is_call(t, suffix):
    return t['k'] == 'call' and callee_name(t).endswith(suffix)


def is_set_rcode(t):
    return is_call(t, W + 'set_rcode')


def is_set_ext_rcode(t):
    return is_call(t, W + 'set_extended_rcode')


def const_values(fn, o):
    """Constant values an operand may take (through moves/phi-like multiple assignments)."""
    if o['k'] == 'const':
        return {const_name(o)}
    sl = slice_of(fn, o, through_calls=False)
    if sl.calls() or sl.params() or sl.places():
        return None
    return sl.consts()


def rcode_arg_value(fn, t, idx=1):
    o = t['args'][idx]
    v = const_int(o)
    return v


def mutates_response(fn, t):
    """A call that receives the response Writer or the Context by mutable reference."""
    for a in t['args']:
        if is_place(a):
            ty = a['pl']['ty']
            if ty.startswith('&mut ') and ('message::writer::Writer' in ty or 'server::Context' in ty):
                return True
    return False


def enum_variant(F, enum_path, variant):
    s = F.struct(enum_path)
    for i, v in enumerate(s['variants']):
        if v['name'] == variant:
            return i
    raise MissingAnchor('variant %s::%s' % (enum_path, variant))


def enum_variants(F, enum_path):
    return [v['name'] for v in F.struct(enum_path)['variants']]


def calls_in(fn, suffix):
    return [(b, t) for b, t in fn.calls() if callee_name(t).endswith(suffix)]


def one_call(fn, suffix):
    cs = calls_in(fn, suffix)
    if len(cs) != 1:
        raise MissingAnchor('expected exactly one call to %s in %s, found %d' % (suffix, fn.gpath, len(cs)))
    return cs[0]


def callers(F, suffix, scope=None):
    out = []
    for fn in (scope if scope is not None else F.fns.values()):
        for b, t in fn.calls():
            if callee_name(t).endswith(suffix):
                out.append((fn, b, t))
    return out


def int_consts_in(sl):
    out = set()
    for c in sl.consts():
        m = re.match(r'^(-?\d+)_\w+$', c)
        if m:
            out.add(int(m.group(1)))
        m = re.match(r'^.*\((-?\d+)_\w+\)$', c)
        if m:
            out.add(int(m.group(1)))
    return out


_SUCCESS = {'std::result::Result': 'Ok', 'std::option::Option': 'Some', 'std::ops::ControlFlow': 'Continue'}


def succeeded_before(fn, site_block, is_target, _depth=0):
    """Every path to `site_block` passed a call accepted by `is_target(term)` AND saw it return its success variant.

    Decided by value provenance, not by the shape of the error handling: some branch edge that dominates the site selects
    the success variant (Ok / Some / Continue) of a value whose success payload can only have been produced (through `?`,
    map_err / or / ok_or, moves, and the return slot of an inlined helper) by a target call -- or by a call that is
    itself only reachable after the target succeeded."""
    from . import origins
    if _depth > 4:
        return False
    for s in fn.doms(site_block):
        preds = [p for p in fn.preds()[s] if p in fn.idom() and not fn.dominates(s, p)]
        if len(preds) != 1:
            continue
        t = fn.blocks[preds[0]]['term']
        if t['k'] != 'switch' or not is_place(t['op']) or t['op']['pl']['p']:
            continue
        sd = fn.single_def(t['op']['pl']['l'])
        vals = [v for v, tb in t['targets'] if tb == s]
        if sd and sd[2] == 'call' and callee_name(sd[3]).endswith(('Result::<T, E>::is_ok', 'Result::<T, E>::is_err', 'Option::<T>::is_some', 'Option::<T>::is_none')) and is_place(sd[3]['args'][0]):
            # `x.is_ok()` taken / `x.is_err()` not taken: x is in its success variant
            n_ = callee_name(sd[3])
            pos = n_.endswith(('is_ok', 'is_some'))
            truthy = (t['otherwise'] == s and not vals) or (vals and vals != [0])
            if pos != truthy:
                continue
            base = fn.canon({'l': sd[3]['args'][0]['pl']['l'], 'p': sd[3]['args'][0]['pl']['p'] + ['deref'], 'ty': ''})
            if base['p']:
                continue
            dpl = {'l': base['l'], 'p': [], 'ty': ''}
            ty = fn.local_ty(base['l'])
            want = next((v for pre, v in _SUCCESS.items() if ty.startswith(pre)), None)
            if want is None:
                continue
            sd = (sd[0], sd[1])
        else:
            if not sd or sd[2] != 'assign' or sd[3]['rv']['k'] != 'discr':
                continue
            dpl = sd[3]['rv']['pl']
            ty = fn.local_ty(dpl['l']) if not dpl['p'] else (dpl.get('ty') or '')
            want = next((v for pre, v in _SUCCESS.items() if ty.startswith(pre)), None)
            if want is None:
                continue
            order = {'Ok': 0, 'Some': 1, 'Continue': 0}[want]
            if vals == [order] and t['otherwise'] != s:
                pass
            elif t['otherwise'] == s and not vals and sorted(v for v, _ in t['targets']) == [1 - order]:
                pass
            else:
                continue
        leaves = origins.trace(fn, dpl['l'], origins.norm_path(dpl['p']) + [('down', want)], at=(sd[0], sd[1]))
        if not leaves:
            continue
        ok = True
        for lf in leaves:
            if lf[0] == 'call' and is_target(lf[2]):
                continue
            if lf[0] in ('call', 'rv') and succeeded_before(fn, lf[1], is_target, _depth + 1):
                continue
            ok = False
            break
        if ok:
            return True
    return False


_FAILURE = {'std::result::Result': ('Err', 1), 'std::option::Option': ('None', 0), 'std::ops::ControlFlow': ('Break', 1)}
_FAIL_PASS = ('Try>::branch', 'Result::<T, E>::map_err', 'Result::<T, E>::map', 'Option::<T>::map', 'Option::<T>::ok_or', 'Option::<T>::ok_or_else', 'Result::<T, E>::ok')


def _origin_of_failure(fn, l, depth=0):
    """The call whose failure variant the Result/Option in local l carries (through moves, `?`, map/map_err/ok/ok_or)."""
    if depth > 8:
        return None
    sd = fn.single_def(l)
    if not sd:
        return None
    if sd[2] == 'call':
        t = sd[3]
        n = callee_name(t)
        if any(n.endswith(x) for x in _FAIL_PASS) and t['args'] and is_place(t['args'][0]) and not t['args'][0]['pl']['p']:
            return _origin_of_failure(fn, t['args'][0]['pl']['l'], depth + 1)
        return t
    rv = sd[3]['rv']
    if rv['k'] == 'use' and is_place(rv['op']) and not rv['op']['pl']['p']:
        return _origin_of_failure(fn, rv['op']['pl']['l'], depth + 1)
    if rv['k'] == 'ref' and not rv['pl']['p']:
        return _origin_of_failure(fn, rv['pl']['l'], depth + 1)
    return None


def failed_before(fn, site_block, is_target):
    """Every path to `site_block` passed a call accepted by `is_target` and saw it return its FAILURE variant: some branch
    edge that dominates the site selects Err / None / Break of a value produced by such a call, or the true edge of
    `.is_err()` / `.is_none()` (false edge of `.is_ok()` / `.is_some()`) on it."""
    for s in fn.doms(site_block):
        preds = [p for p in fn.preds()[s] if p in fn.idom() and not fn.dominates(s, p)]
        if len(preds) != 1:
            continue
        t = fn.blocks[preds[0]]['term']
        if t['k'] != 'switch' or not is_place(t['op']) or t['op']['pl']['p']:
            continue
        sd = fn.single_def(t['op']['pl']['l'])
        if not sd:
            continue
        vals = [v for v, tb in t['targets'] if tb == s]
        if sd[2] == 'assign' and sd[3]['rv']['k'] == 'discr' and not sd[3]['rv']['pl']['p']:
            dl = sd[3]['rv']['pl']['l']
            ty = fn.local_ty(dl)
            fv = next((v for pre, v in _FAILURE.items() if ty.startswith(pre)), None)
            if fv is None:
                continue
            if not (vals == [fv[1]] and t['otherwise'] != s) and not (t['otherwise'] == s and not vals and sorted(v for v, _ in t['targets']) == [1 - fv[1]]):
                continue
            oc = _origin_of_failure(fn, dl)
            if oc is not None and is_target(oc):
                return True
        elif sd[2] == 'call':
            n = callee_name(sd[3])
            neg = n.endswith(('Result::<T, E>::is_err', 'Option::<T>::is_none'))
            pos = n.endswith(('Result::<T, E>::is_ok', 'Option::<T>::is_some'))
            if not (neg or pos) or not is_place(sd[3]['args'][0]):
                continue
            truthy = (t['otherwise'] == s and not vals) or (vals and vals != [0])
            if (neg and not truthy) or (pos and truthy):
                continue
            base = fn.canon({'l': sd[3]['args'][0]['pl']['l'], 'p': sd[3]['args'][0]['pl']['p'] + ['deref'], 'ty': ''})
            if base['p']:
                continue
            oc = _origin_of_failure(fn, base['l'])
            if oc is None:
                sdd = fn.single_def(base['l'])
                oc = sdd[3] if sdd and sdd[2] == 'call' else None
            if oc is not None and is_target(oc):
                return True
    return False
