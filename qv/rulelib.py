"""Shared anchors and predicates for the rule modules."""
import re

from .facts import callee_name, const_int, const_name, is_place, MissingAnchor
from .flow import slice_of

HANDLE_MESSAGE = 'server::Server::<C>::handle_message'
HMWC = 'server::Server::<C>::handle_message_with_context'
HANDLE_QUERY = 'server::query::<impl server::Server<C>>::handle_query'
HANDLE_NON_AXFR = 'server::query::<impl server::Server<C>>::handle_non_axfr_query'
W = "message::writer::Writer::<'a>::"
RD = "message::reader::Reader::<'a>::"


def server_fns(F):
    """Functions of the server module on the request path (rrl excluded where noted by callers)."""
    return [f for p, f in F.fns.items() if f.crate == 'quandary' and (p.startswith('server::') or p.startswith('<server::'))]


def is_call(t, suffix):
    return t['k'] == 'call' and callee_name(t).endswith(suffix)


def is_set_rcode(t):
    return is_call(t, W + 'set_rcode')


def is_set_ext_rcode(t):
    return is_call(t, W + 'set_extended_rcode')


def const_values(fn, o):
    """Constant values an operand may take (through moves/phi-like multiple assignments)."""
    if o['k'] == 'const':
        return {const_name(o)}
    sl = slice_of(fn, o, through_calls=False)
    if sl.calls() or sl.params() or sl.places():
        return None
    return sl.consts()


def rcode_arg_value(fn, t, idx=1):
    o = t['args'][idx]
    v = const_int(o)
    return v


def mutates_response(fn, t):
    """A call that receives the response Writer or the Context by mutable reference."""
    for a in t['args']:
        if is_place(a):
            ty = a['pl']['ty']
            if ty.startswith('&mut ') and ('message::writer::Writer' in ty or 'server::Context' in ty):
                return True
    return False


def enum_variant(F, enum_path, variant):
    s = F.struct(enum_path)
    for i, v in enumerate(s['variants']):
        if v['name'] == variant:
            return i
    raise MissingAnchor('variant %s::%s' % (enum_path, variant))


def enum_variants(F, enum_path):
    return [v['name'] for v in F.struct(enum_path)['variants']]


def calls_in(fn, suffix):
    return [(b, t) for b, t in fn.calls() if callee_name(t).endswith(suffix)]


def one_call(fn, suffix):
    cs = calls_in(fn, suffix)
    if len(cs) != 1:
        raise MissingAnchor('expected exactly one call to %s in %s, found %d' % (suffix, fn.gpath, len(cs)))
    return cs[0]


def callers(F, suffix, scope=None):
    out = []
    for fn in (scope if scope is not None else F.fns.values()):
        for b, t in fn.calls():
            if callee_name(t).endswith(suffix):
                out.append((fn, b, t))
    return out


def int_consts_in(sl):
    out = set()
    for c in sl.consts():
        m = re.match(r'^(-?\d+)_\w+$', c)
        if m:
            out.add(int(m.group(1)))
        m = re.match(r'^.*\((-?\d+)_\w+\)$', c)
        if m:
            out.add(int(m.group(1)))
    return out
