"""Fact base loader and per-function CFG utilities (engines E1/E2 building blocks).

All analyses work on the JSON exported by mirfacts from rustc's MIR
(-Zmir-opt-level=0, after drop elaboration).  Nothing here looks at source
text; `file`/`line` are used for reporting only.
"""
import glob
import json
import marshal
import os
import re
from collections import defaultdict, deque


class MissingAnchor(Exception):
    pass


# ---------------------------------------------------------------- places

def place_str(pl):
    s = '_%d' % pl['l']
    for p in pl['p']:
        if p == 'deref':
            s = '(*%s)' % s
        elif isinstance(p, dict) and 'f' in p:
            s = '%s.%s' % (s, p['n'])
        elif isinstance(p, dict) and 'idx' in p:
            s = '%s[_%d]' % (s, p['idx'])
        elif isinstance(p, dict) and 'cidx' in p:
            s = '%s[%s%d]' % (s, '-' if p['from_end'] else '', p['cidx'])
        elif isinstance(p, dict) and 'sub' in p:
            s = '%s[%d..%s%d]' % (s, p['sub'][0], '-' if p['from_end'] else '', p['sub'][1])
        elif isinstance(p, dict) and 'down' in p:
            s = '(%s as %s)' % (s, p['n'] or p['down'])
        else:
            s = '%s.?' % s
    return s


def op_str(o):
    if o is None:
        return '?'
    if o['k'] in ('copy', 'move'):
        return place_str(o['pl'])
    if o['k'] == 'const':
        return 'const ' + const_name(o)
    return '?'


def const_name(o):
    """Readable value of a constant operand (promoted references resolved)."""
    if o.get('pval') is not None:
        return o['pval']
    return o.get('val', '?')


def is_place(o):
    return o is not None and o['k'] in ('copy', 'move')


def field_names(pl):
    return [p['n'] for p in pl['p'] if isinstance(p, dict) and 'f' in p]


_INT_RE = re.compile(r'^(-?\d+)_(u8|u16|u32|u64|u128|usize|i8|i16|i32|i64|i128|isize)$')
_NEWTYPE_INT_RE = re.compile(r'^([\w:<>\', ]+)\((-?\d+)_(u8|u16|u32|u64|usize|i32|i64)\)$')


def const_int(o):
    """Integer value of a constant operand: `5_usize`, `true`/`false`, `Rcode(1_u8)`."""
    if o is None or o['k'] != 'const':
        return None
    v = const_name(o)
    m = _INT_RE.match(v)
    if m:
        return int(m.group(1))
    if v == 'true':
        return 1
    if v == 'false':
        return 0
    m = _NEWTYPE_INT_RE.match(v)
    if m:
        return int(m.group(2))
    m = re.match(r"^'(.)'$", v)
    return None


# ---------------------------------------------------------------- functions

class Fn:
    def __init__(self, d, crate, resolve=True):
        self.d = d
        self.crate = crate
        self.path = d['path']
        self.gpath = d['path'] if crate == 'quandary' else crate + '::' + d['path']
        self.blocks = d['blocks']
        self.locals = d['locals']
        self.file = d['file']
        self.line = d['line']
        self.argc = d['argc']
        self.kind = d['kind']
        self.vis = d['vis']
        self.trait_item = d.get('trait_item', '')
        self.self_ty = d.get('self_ty', '')
        self._succ = None
        self._pred = None
        self._idom = None
        self._dom_cache = {}
        self._pdom = None
        self._defs = None
        self._cd = None
        self.promoted_vals = {}
        if resolve:
            self._resolve_promoted()

    # ---- promoted constants: attach readable values to `const promoted[i]` operands
    def _resolve_promoted(self):
        vals = {}
        for p in self.d.get('promoted', []):
            if p['lhs']['l'] == 0:
                continue
            rv = p['rv']
            if rv['k'] == 'use' and rv['op']['k'] == 'const':
                vals.setdefault(p['i'], rv['op'].get('val'))
                if rv['op'].get('unev'):
                    vals[p['i']] = rv['op'].get('val')
            elif rv['k'] == 'agg' and rv.get('def'):
                vals.setdefault(p['i'], rv['def'])
            elif rv['k'] == 'agg' and rv['ak'] in ('array', 'tuple'):
                vals.setdefault(p['i'], '[' + ','.join(op_str(o) for o in rv['ops']) + ']')
        self.promoted_vals = vals

        def fix(o):
            if isinstance(o, dict):
                if o.get('k') == 'const' and 'promoted[' in (o.get('unev') or ''):
                    m = re.search(r'promoted\[(\d+)\]$', o['unev'])
                    if m and int(m.group(1)) in vals and vals[int(m.group(1))] is not None:
                        o['pval'] = vals[int(m.group(1))]
                for v in o.values():
                    fix(v)
            elif isinstance(o, list):
                for v in o:
                    fix(v)
        fix(self.blocks)

    def __repr__(self):
        return '<Fn %s>' % self.gpath

    # ---- CFG
    def term(self, b):
        return self.blocks[b]['term']

    def _succ_of(self, b, unwind=False):
        t = self.blocks[b]['term']
        k = t['k']
        out = []
        if k == 'goto':
            out = [t['t']]
        elif k == 'switch':
            out = [x[1] for x in t['targets']] + [t['otherwise']]
        elif k in ('drop', 'assert'):
            out = [t['t']]
        elif k == 'call':
            out = [t['t']] if t['t'] is not None else []
        elif k == 'other':
            # Yield / InlineAsm etc.: parse targets conservatively from text
            out = [int(x) for x in re.findall(r'bb(\d+)', t.get('text', ''))]
        if unwind and t.get('unwind') is not None:
            out.append(t['unwind'])
        seen = []
        for x in out:
            if x not in seen:
                seen.append(x)
        return seen

    def succs(self):
        if self._succ is None:
            self._succ = [self._succ_of(b) for b in range(len(self.blocks))]
        return self._succ

    def preds(self):
        if self._pred is None:
            p = [[] for _ in self.blocks]
            for b, ss in enumerate(self.succs()):
                for s in ss:
                    p[s].append(b)
            self._pred = p
        return self._pred

    def reachable(self, start=0, avoid=(), avoid_edges=()):
        """Blocks reachable from `start` (inclusive) over normal edges."""
        seen = set()
        q = deque([start] if isinstance(start, int) else list(start))
        while q:
            b = q.popleft()
            if b in seen or b in avoid:
                continue
            seen.add(b)
            for s in self.succs()[b]:
                if (b, s) in avoid_edges:
                    continue
                q.append(s)
        return seen

    def can_reach(self, targets, avoid=()):
        """Blocks from which some block in `targets` is reachable (inclusive)."""
        seen = set()
        q = deque(targets)
        while q:
            b = q.popleft()
            if b in seen or b in avoid:
                continue
            seen.add(b)
            q.extend(self.preds()[b])
        return seen

    def find_path(self, start, goal_pred, avoid=(), avoid_edges=()):
        """Shortest block path from `start` to a block satisfying goal_pred (start
        itself is tested too), never entering blocks in `avoid`; or None."""
        prev = {start: None}
        q = deque([start])
        while q:
            b = q.popleft()
            if goal_pred(b):
                path = []
                x = b
                while x is not None:
                    path.append(x)
                    x = prev[x]
                return path[::-1]
            for s in self.succs()[b]:
                if s in prev or s in avoid or (b, s) in avoid_edges:
                    continue
                prev[s] = b
                q.append(s)
        return None

    def rpo(self):
        seen = set()
        order = []

        def dfs(b):
            stack = [(b, iter(self.succs()[b]))]
            seen.add(b)
            while stack:
                x, it = stack[-1]
                adv = False
                for s in it:
                    if s not in seen:
                        seen.add(s)
                        stack.append((s, iter(self.succs()[s])))
                        adv = True
                        break
                if not adv:
                    order.append(x)
                    stack.pop()
        dfs(0)
        return order[::-1]

    def idom(self):
        """Immediate dominators (Cooper-Harvey-Kennedy) over normal edges."""
        if self._idom is None:
            order = self.rpo()
            idx = {b: i for i, b in enumerate(order)}
            idom = {0: 0}
            changed = True
            while changed:
                changed = False
                for b in order[1:]:
                    ps = [p for p in self.preds()[b] if p in idom]
                    if not ps:
                        continue
                    new = ps[0]
                    for p in ps[1:]:
                        a, c = p, new
                        while a != c:
                            while idx[a] > idx[c]:
                                a = idom[a]
                            while idx[c] > idx[a]:
                                c = idom[c]
                        new = a
                    if idom.get(b) != new:
                        idom[b] = new
                        changed = True
            self._idom = idom
        return self._idom

    def doms(self, b):
        """Set of blocks dominating b (inclusive). Empty for unreachable blocks."""
        if b in self._dom_cache:
            return self._dom_cache[b]
        idom = self.idom()
        out = set()
        if b in idom:
            x = b
            while True:
                out.add(x)
                if x == 0:
                    break
                x = idom[x]
        self._dom_cache[b] = out
        return out

    def dominates(self, a, b):
        return a in self.doms(b)

    def exits(self):
        return [b for b, blk in enumerate(self.blocks)
                if not blk['cleanup'] and not self.succs()[b]]

    def ret_blocks(self):
        return [b for b, blk in enumerate(self.blocks) if blk['term']['k'] == 'ret']

    def pdoms(self):
        """Post-dominator sets over normal edges; virtual exit joins all exit blocks
        (returns and diverging blocks)."""
        if self._pdom is None:
            reach = self.reachable(0)
            exits = [b for b in self.exits() if b in reach]
            EXIT = -1
            nodes = set(reach) | {EXIT}
            succ = {b: [s for s in self.succs()[b] if s in reach] for b in reach}
            for b in exits:
                succ[b] = [EXIT]
            succ[EXIT] = []
            pd = {b: set(nodes) for b in nodes}
            pd[EXIT] = {EXIT}
            changed = True
            order = list(reach)
            while changed:
                changed = False
                for b in order:
                    ss = succ[b]
                    if ss:
                        new = set.intersection(*[pd[s] for s in ss]) | {b}
                    else:
                        new = {b}
                    if new != pd[b]:
                        pd[b] = new
                        changed = True
            self._pdom = pd
        return self._pdom

    def postdominates(self, a, b):
        return a in self.pdoms().get(b, ())

    def control_deps(self):
        """Map block -> set of (branch_block, successor) edges it is control-dependent on
        (Ferrante et al.: b is control dependent on edge (p,s) if b postdominates s
        and does not strictly postdominate p)."""
        if self._cd is None:
            pd = self.pdoms()
            cd = defaultdict(set)
            for p in self.reachable(0):
                ss = self.succs()[p]
                if len(ss) < 2:
                    continue
                for s in ss:
                    for b in pd.get(s, ()):
                        if b == -1:
                            continue
                        if b == p or b not in pd.get(p, ()):
                            cd[b].add((p, s))
                        # b strictly postdominates p -> not dependent
            self._cd = cd
        return self._cd

    def transitive_control_edges(self, b):
        """All (branch, succ) edges b is transitively control-dependent on."""
        cd = self.control_deps()
        out = set()
        q = deque([b])
        seen = set()
        while q:
            x = q.popleft()
            if x in seen:
                continue
            seen.add(x)
            for (p, s) in cd.get(x, ()):
                if (p, s) not in out:
                    out.add((p, s))
                    q.append(p)
        return out

    # ---- definitions
    def defs(self):
        """local -> list of definition sites.  A site is (block, idx, kind, node):
        kind 'assign' (whole local), 'call' (call destination, whole local),
        'part' (assignment to a projection of the local, no deref),
        'partcall' (call destination is a projection)."""
        if self._defs is None:
            d = defaultdict(list)
            for b, blk in enumerate(self.blocks):
                for i, st in enumerate(blk['stmts']):
                    if st['k'] == 'assign':
                        lhs = st['lhs']
                        if not lhs['p']:
                            d[lhs['l']].append((b, i, 'assign', st))
                        elif 'deref' not in lhs['p']:
                            d[lhs['l']].append((b, i, 'part', st))
                    elif st['k'] == 'setdiscr':
                        d[st['pl']['l']].append((b, i, 'part', st))
                t = blk['term']
                if t['k'] == 'call':
                    dst = t['dest']
                    n = len(blk['stmts'])
                    if not dst['p']:
                        d[dst['l']].append((b, n, 'call', t))
                    elif 'deref' not in dst['p']:
                        d[dst['l']].append((b, n, 'partcall', t))
            self._defs = d
        return self._defs

    def single_def(self, l):
        """The unique whole-local definition of l, if l is not a parameter and has
        exactly one definition site (of any kind)."""
        if 1 <= l <= self.argc:
            return None
        ds = self.defs().get(l, [])
        if len(ds) == 1 and ds[0][2] in ('assign', 'call'):
            return ds[0]
        return None

    def calls(self, include_cleanup=False):
        for b, blk in enumerate(self.blocks):
            if blk['cleanup'] and not include_cleanup:
                continue
            t = blk['term']
            if t['k'] == 'call':
                yield b, t

    def local_name(self, l):
        return self.locals[l]['name'] or '_%d' % l

    def local_ty(self, l):
        return self.locals[l]['ty']

    def where(self, b=None, i=None):
        """file:line of block b's statement i (or terminator)."""
        if b is None:
            return '%s:%d' % (self.file, self.line)
        blk = self.blocks[b]
        if i is not None and i < len(blk['stmts']):
            ln = blk['stmts'][i].get('line')
        else:
            ln = blk['term'].get('line')
        return '%s:%s' % (self.file, ln if ln else self.line)

    # resolve a place's base through single-assignment reborrows / copies
    def canon(self, pl, max_hops=16):
        l = pl['l']
        proj = list(pl['p'])
        hops = 0
        while hops < max_hops:
            sd = self.single_def(l)
            if not sd or sd[2] != 'assign':
                break
            rv = sd[3]['rv']
            if rv['k'] in ('ref', 'rawptr'):
                if proj and proj[0] == 'deref':
                    base = rv['pl']
                    l = base['l']
                    proj = list(base['p']) + proj[1:]
                    hops += 1
                    continue
                break
            if rv['k'] == 'use' and rv['op']['k'] in ('copy', 'move'):
                base = rv['op']['pl']
                l = base['l']
                proj = list(base['p']) + proj
                hops += 1
                continue
            break
        return {'l': l, 'p': proj, 'ty': pl.get('ty', '')}

    def canon_str(self, pl):
        return place_str(self.canon(pl))


def callee_name(t):
    """Resolved callee of a call terminator ('' for indirect calls)."""
    c = t.get('callee')
    if not c:
        return ''
    return c['resolved'] or c['path']


def callee_decl(t):
    c = t.get('callee')
    if not c:
        return ''
    return c['path']


# ---------------------------------------------------------------- fact base

class Facts:
    def __init__(self, directory):
        self.dir = directory
        self.fns = {}          # gpath -> Fn
        self.dups = defaultdict(list)
        self.structs = {}      # gpath -> struct def
        self.crates = []
        mpath = os.path.join(directory, 'facts.marshal')
        data = None
        if os.path.exists(mpath):
            try:
                with open(mpath, 'rb') as fh:
                    data = marshal.load(fh)
            except Exception:
                data = None
        fresh = data is None
        if fresh:
            data = []
            for f in sorted(glob.glob(os.path.join(directory, '*.json'))):
                with open(f) as fh:
                    data.append(json.load(fh))
        for j in data:
            crate = j['crate']
            self.crates.append(crate)
            for fd in j['functions']:
                fn = Fn(fd, crate, resolve=fresh)
                if fn.gpath in self.fns:
                    self.dups[fn.gpath].append(fn)
                else:
                    self.fns[fn.gpath] = fn
            for s in j['structs']:
                gp = s['path'] if crate == 'quandary' else crate + '::' + s['path']
                self.structs[gp] = s
        if fresh:
            try:
                tmp = mpath + '.%d' % os.getpid()
                with open(tmp, 'wb') as fh:
                    marshal.dump(data, fh)
                os.replace(tmp, mpath)
            except Exception:
                pass
        self._by_trait_item = None
        self._cg = None
        self.inlined = []
        if os.environ.get('QV_NO_INLINE') != '1':
            from . import inline
            self.reordered = inline.normalise_param_order(self)
            self.inlined = inline.apply(self)

    def fn(self, gpath):
        f = self.fns.get(gpath)
        if f is None:
            raise MissingAnchor('anchor function not found in fact base: ' + gpath)
        return f

    def maybe(self, gpath):
        return self.fns.get(gpath)

    def find(self, pred):
        if isinstance(pred, str):
            s = pred
            return [f for p, f in self.fns.items() if s in p]
        return [f for f in self.fns.values() if pred(f)]

    def closures_of(self, gpath):
        pre = gpath + '::{closure#'
        return [f for p, f in self.fns.items() if p.startswith(pre)]

    def struct(self, gpath):
        s = self.structs.get(gpath)
        if s is None:
            raise MissingAnchor('anchor type not found in fact base: ' + gpath)
        return s

    # ---- call resolution
    def resolve_callee(self, fn, t):
        """List of Fn objects a call terminator may invoke among analysed crates.
        Resolved callee if local; for unresolved trait calls: every impl of that
        trait item (fan-out)."""
        c = t.get('callee')
        if not c:
            return []
        name = c['resolved'] or c['path']
        cands = []
        for n in (name, c['path']):
            if fn.crate != 'quandary':
                if n.startswith('quandary::'):
                    cands.append(n[len('quandary::'):])
                elif n.startswith('<') and 'quandary::' in n:
                    cands.append(n.replace('quandary::', ''))
                cands.append(fn.crate + '::' + n)
            cands.append(n)
        for n in cands:
            if n in self.fns:
                f = self.fns[n]
                # a trait method declaration without body resolved to itself: fan out
                return [f]
        if not c['resolved'] and c.get('trait'):
            return self.impls_of(c['path'], fn.crate)
        return []

    def impls_of(self, trait_item_path, crate='quandary'):
        if self._by_trait_item is None:
            m = defaultdict(list)
            for f in self.fns.values():
                if f.trait_item:
                    m[(f.crate, f.trait_item)].append(f)
                    m[(None, f.trait_item)].append(f)
            self._by_trait_item = m
        p = trait_item_path
        out = list(self._by_trait_item.get((None, p), []))
        if p.startswith('quandary::'):
            out += self._by_trait_item.get((None, p[len('quandary::'):]), [])
        return out

    def callgraph(self):
        """gpath -> set of gpaths (calls, closure constructions, fn-item constants)."""
        if self._cg is None:
            cg = {}
            for gp, fn in self.fns.items():
                out = set()
                for b, t in fn.calls():
                    for f in self.resolve_callee(fn, t):
                        out.add(f.gpath)
                    for a in t['args']:
                        if a['k'] == 'const' and a.get('def'):
                            n = a['def']
                            for cand in (n, fn.crate + '::' + n, n.replace('quandary::', '', 1)):
                                if cand in self.fns:
                                    out.add(cand)
                for blk in fn.blocks:
                    if blk['cleanup']:
                        continue
                    for st in blk['stmts']:
                        if st['k'] == 'assign' and st['rv']['k'] == 'agg' and st['rv']['ak'] in ('closure', 'coroutine'):
                            n = st['rv']['def']
                            for cand in (n, fn.crate + '::' + n):
                                if cand in self.fns:
                                    out.add(cand)
                        if st['k'] == 'assign':
                            for o in rvalue_operands(st['rv']):
                                if o['k'] == 'const' and o.get('def'):
                                    n = o['def']
                                    for cand in (n, fn.crate + '::' + n, n.replace('quandary::', '', 1)):
                                        if cand in self.fns:
                                            out.add(cand)
                cg[gp] = out
            self._cg = cg
        return self._cg

    def reachable_fns(self, roots):
        cg = self.callgraph()
        seen = set()
        q = deque(roots)
        while q:
            x = q.popleft()
            if x in seen:
                continue
            seen.add(x)
            q.extend(cg.get(x, ()))
        return seen

    def callers_of(self, pred):
        """[(fn, block, term)] for every call whose resolved callee name satisfies pred."""
        out = []
        for fn in self.fns.values():
            for b, t in fn.calls():
                n = callee_name(t)
                if (pred(n) if callable(pred) else n == pred):
                    out.append((fn, b, t))
        return out


def rvalue_operands(rv):
    k = rv['k']
    if k in ('use', 'cast', 'repeat'):
        return [rv['op']]
    if k == 'bin':
        return [rv['a'], rv['b']]
    if k == 'un':
        return [rv['a']]
    if k == 'agg':
        return list(rv['ops'])
    return []


def rvalue_places(rv):
    """Places read by an rvalue (operands plus ref/discr/len places)."""
    out = [o['pl'] for o in rvalue_operands(rv) if is_place(o)]
    if rv['k'] in ('ref', 'rawptr', 'discr'):
        out.append(rv['pl'])
    return out


def block_reads(fn, b):
    """All places read in block b (statements and terminator)."""
    blk = fn.blocks[b]
    out = []
    for st in blk['stmts']:
        if st['k'] == 'assign':
            out.extend(rvalue_places(st['rv']))
    t = blk['term']
    if t['k'] == 'call':
        out.extend(a['pl'] for a in t['args'] if is_place(a))
    elif t['k'] == 'switch' and is_place(t['op']):
        out.append(t['op']['pl'])
    elif t['k'] == 'assert':
        if is_place(t['cond']):
            out.append(t['cond']['pl'])
    return out


def block_writes(fn, b):
    """All places written in block b (assign lhs, call dest)."""
    blk = fn.blocks[b]
    out = []
    for st in blk['stmts']:
        if st['k'] == 'assign':
            out.append(st['lhs'])
        elif st['k'] == 'setdiscr':
            out.append(st['pl'])
    t = blk['term']
    if t['k'] == 'call':
        out.append(t['dest'])
    return out
