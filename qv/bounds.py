"""E5: dominating-guard linear entailment for panic-freedom obligations.

For a site S the engine collects only facts that hold on *every* path to S:
  F1  conditions of branch edges that dominate S (atoms not redefined in between);
  F2  defining equations of single-assignment temporaries (inlined when their inputs are unchanged since);
  F3  type ranges (unsigned widths, slice lengths <= isize::MAX, array lengths);
  F4  callee postconditions attached to the success edge of a call that dominates S (summary table);
  F5  struct invariants of `self` for fields not written before S (invariant table, verified separately);
  F6  length relations of slices produced by range-index calls whose *return* dominates S;
  F7  declared preconditions of the function itself (checked at every call site).
and decides `facts |= obligation` by Fourier-Motzkin elimination over the rationals with integer tightening of strict
inequalities.  No fixpoint, no widening, no path enumeration; what cannot be proved is reported as undischarged.
"""
import re
from collections import defaultdict, deque
from fractions import Fraction as Fr

from .facts import callee_name, const_int, const_name, is_place, place_str

UMAX = {'u8': 2**8 - 1, 'u16': 2**16 - 1, 'u32': 2**32 - 1, 'u64': 2**64 - 1, 'usize': 2**64 - 1, 'u128': 2**128 - 1}
IMAX = {'i8': 2**7 - 1, 'i16': 2**15 - 1, 'i32': 2**31 - 1, 'i64': 2**63 - 1, 'isize': 2**63 - 1}
ISIZE_MAX = 2**63 - 1


# ------------------------------------------------------------------ linear expressions
def lin(atom=None, c=0, k=1):
    e = {}
    if atom is not None:
        e[atom] = Fr(k)
    if c:
        e['1'] = Fr(c)
    return e


def add(a, b, k=1):
    r = dict(a)
    for x, v in b.items():
        nv = r.get(x, 0) + k * v
        if nv == 0:
            r.pop(x, None)
        else:
            r[x] = nv
    return r


def scale(a, k):
    return {x: v * k for x, v in a.items() if v * k != 0}


def is_const(e):
    return all(x == '1' for x in e)


def cval(e):
    return e.get('1', Fr(0))


def fmt(e):
    parts = []
    for a, v in sorted(e.items(), key=lambda kv: (kv[0] == '1', kv[0])):
        if a == '1':
            parts.append(str(v))
        else:
            parts.append(('' if v == 1 else ('-' if v == -1 else str(v) + '*')) + a)
    return ' + '.join(parts).replace('+ -', '- ') or '0'


def le(a, b):
    """constraint a <= b  as  (a - b) <= 0"""
    return add(a, b, -1)


def lt(a, b):
    return add(add(a, b, -1), lin(c=1))


def eq(a, b):
    return [le(a, b), le(b, a)]


def infeasible(cs, limit=6000):
    cs = [dict(c) for c in cs]
    while True:
        new = []
        for c in cs:
            vs = [x for x in c if x != '1']
            if not vs:
                if c.get('1', 0) > 0:
                    return True
                continue
            new.append(c)
        cs = new
        if not cs:
            return False
        allv = set(x for c in cs for x in c if x != '1')
        best = None
        for v in allv:
            p = sum(1 for c in cs if c.get(v, 0) > 0)
            n = sum(1 for c in cs if c.get(v, 0) < 0)
            cost = p * n - p - n
            if best is None or cost < best[0]:
                best = (cost, v)
        v = best[1]
        pos = [c for c in cs if c.get(v, 0) > 0]
        neg = [c for c in cs if c.get(v, 0) < 0]
        rest = [c for c in cs if c.get(v, 0) == 0]
        for p in pos:
            for n in neg:
                r = add(scale(p, -n[v]), scale(n, p[v]))
                r.pop(v, None)
                rest.append(r)
        if len(rest) > limit:
            return False
        # drop duplicates
        seen = set()
        cs = []
        for c in rest:
            key = tuple(sorted(c.items()))
            if key not in seen:
                seen.add(key)
                cs.append(c)


def entails(facts, goal):
    """facts: list of (expr <= 0); goal: expr <= 0.  Integer tightening: not(goal) is goal >= 1."""
    return infeasible(list(facts) + [add(lin(c=1), goal, -1)])


# ------------------------------------------------------------------ per-function analyser
class Summary:
    """Tables the engine consults; filled by the rule modules."""
    def __init__(self):
        self.post = {}       # callee name -> fn(an, call_block, term, payload_atom) -> [constraints]
        self.pre = {}        # function gpath -> fn(an) -> [constraints over the function's own args]   (assumed inside, checked at calls)
        self.inv = {}        # self type (stripped) -> fn(an, self_place_str) -> ([constraints], {atom: field name})
        self.lens = {}       # callee name -> fn(an, term) -> linexpr bound facts about len(result)


class Analyzer:
    def __init__(self, fn, F, summ):
        self.fn = fn
        self.F = F
        self.S = summ
        self._reach_cache = {}
        self._mutcalls = None

    # ---------------- atoms
    def multi_def(self, l):
        fn = self.fn
        if 1 <= l <= fn.argc:
            return len(fn.defs().get(l, [])) > 0
        return len(fn.defs().get(l, [])) != 1

    def atom_local(self, l):
        return 'L%d' % l

    def atom_place(self, pl):
        return 'P:' + self.fn.canon_str(pl)

    def atom_len(self, pl):
        """length of the slice/array/vec denoted by place pl (a place of slice/array type, or a reference to one)."""
        fn = self.fn
        # `&[T; N] as &[T]` (unsizing): the slice is the array
        for _ in range(4):
            if pl['p'] == ['deref'] or (pl['p'] and pl['p'][-1] == 'deref' and len(pl['p']) == 1):
                sd = fn.single_def(pl['l'])
                if sd and sd[2] == 'assign' and sd[3]['rv']['k'] == 'cast' and 'Unsi' in sd[3]['rv']['ck'] and is_place(sd[3]['rv']['op']):
                    src = sd[3]['rv']['op']['pl']
                    pl = {'l': src['l'], 'p': list(src['p']) + ['deref'], 'ty': ''}
                    continue
            break
        c = fn.canon(pl)
        s = place_str(c)
        return 'len:' + s

    def ty_of_place(self, pl):
        return pl.get('ty') or self.fn.local_ty(pl['l'])

    # ---------------- evaluation
    def ev_op(self, o, depth=0):
        if o is None:
            return None
        if o['k'] == 'const':
            v = const_int(o)
            if v is not None and re.match(r'^-?\d+_', const_name(o)):
                return lin(c=v)
            if const_name(o) in ('true', 'false'):
                return lin(c=1 if const_name(o) == 'true' else 0)
            m = re.match(r'^(u8|u16|u32|u64|usize)::MAX$', const_name(o))
            if m:
                return lin(c=UMAX[m.group(1)])
            m = re.match(r'^(i8|i16|i32|i64|isize)::MAX$', const_name(o))
            if m:
                return lin(c=IMAX[m.group(1)])
            return None
        if not is_place(o):
            return None
        return self.ev_place(o['pl'], depth)

    def ev_place(self, pl, depth=0):
        fn = self.fn
        if depth > 60:
            return None
        l = pl['l']
        if not pl['p']:
            sd = fn.single_def(l)
            if sd is None:
                return lin(self.atom_local(l))
            b, i, kind, node = sd
            e = None
            if kind == 'assign':
                rv = node['rv']
                if rv['k'] == 'use' and is_place(rv['op']) and any(isinstance(p, dict) and ('idx' in p or 'cidx' in p) for p in rv['op']['pl']['p']):
                    # an element load: the local itself names the loaded value (one atom per load, however it is reached)
                    return lin(self.atom_local(l))
                e = self.ev_rv(node['rv'], depth + 1, (b, i))
            elif kind == 'call':
                e = self.ev_call(node, depth + 1, b)
            if e is not None and self.stable_since(e, (b, i)):
                return e
            return lin(self.atom_local(l))
        # tuple field .0 of a checked-arithmetic result
        if len(pl['p']) == 1 and isinstance(pl['p'][0], dict) and pl['p'][0].get('f') == 0:
            sd = fn.single_def(l)
            if sd and sd[2] == 'assign' and sd[3]['rv']['k'] == 'bin' and sd[3]['rv']['op'].endswith('WithOverflow'):
                e = self.ev_bin(sd[3]['rv']['op'].replace('WithOverflow', ''), sd[3]['rv']['a'], sd[3]['rv']['b'], depth + 1)
                if e is not None and self.stable_since(e, (sd[0], sd[1])):
                    return e
                return lin('L%d.0' % l)
        c = fn.canon(pl)
        if not c['p']:
            return self.ev_place(c, depth + 1)
        # a projection of an aggregate that was built in this function (`(x as Ok).0.1` of `Ok((a, b))`, possibly
        # through `?`): the value is the operand that was put there, if there is exactly one candidate
        if all(isinstance(q, dict) and ('f' in q or 'down' in q) for q in c['p']) and depth < 40 and not getattr(self, '_in_trace', False):
            from . import origins
            self._in_trace = True
            try:
                lv = origins.trace(fn, c['l'], origins.norm_path(c['p']), at=getattr(self, '_site', None))
            finally:
                self._in_trace = False
            if len(lv) == 1 and lv[0][0] == 'rv':
                _, b, i, rv = lv[0]
                sts = fn.blocks[b]['stmts']
                if rv.get('k') == 'bin':
                    e = self.ev_rv(rv, depth + 1, (b, i))
                    site = getattr(self, '_site', None)
                    if e is not None and (site is None or self.stable_between(self.mutable_atoms(e), ('def', b, i), site)):
                        return e
                elif i < len(sts) and sts[i]['k'] == 'assign' and not sts[i]['lhs']['p'] and fn.single_def(sts[i]['lhs']['l']) and fn.local_ty(sts[i]['lhs']['l']) in UMAX:
                    return self.ev_place({'l': sts[i]['lhs']['l'], 'p': [], 'ty': ''}, depth + 1)
                if rv.get('k') == 'use' and is_place(rv['op']) and not rv['op']['pl']['p'] and fn.single_def(rv['op']['pl']['l']):
                    return self.ev_place(rv['op']['pl'], depth + 1)
        return lin(self.atom_place(pl))

    def ev_bin(self, op, a, b, depth):
        ea = self.ev_op(a, depth + 1)
        eb = self.ev_op(b, depth + 1)
        if ea is None or eb is None:
            return None
        if op == 'Add':
            return add(ea, eb)
        if op == 'Sub':
            return add(ea, eb, -1)
        if op == 'Mul':
            if is_const(ea):
                return scale(eb, cval(ea))
            if is_const(eb):
                return scale(ea, cval(eb))
        if op == 'Shl' and is_const(eb) and 0 <= cval(eb) < 64:
            return scale(ea, 2 ** int(cval(eb)))
        return None

    def ev_rv(self, rv, depth, site):
        k = rv['k']
        if k == 'use':
            return self.ev_op(rv['op'], depth + 1)
        if k == 'cast' and rv['ck'].startswith('IntToInt'):
            src = rv['op']
            sty = (src['pl'].get('ty') or self.fn.local_ty(src['pl']['l'])) if is_place(src) else src.get('ty', '')
            dty = rv['ty']
            if sty in UMAX and dty in UMAX and UMAX[sty] <= UMAX[dty]:
                return self.ev_op(src, depth + 1)
            if sty == 'bool':
                return self.ev_op(src, depth + 1)
            if src['k'] == 'const':
                e = self.ev_op(src, depth + 1)
                if e is not None and is_const(e) and dty in UMAX and 0 <= cval(e) <= UMAX[dty]:
                    return e
            return None
        if k == 'bin' and rv['op'] in ('Add', 'Sub', 'Mul', 'Shl'):
            return self.ev_bin(rv['op'], rv['a'], rv['b'], depth)
        if k == 'un' and rv['op'] == 'PtrMetadata':
            o = rv['a']
            if is_place(o):
                return lin(self.atom_len({'l': o['pl']['l'], 'p': o['pl']['p'] + ['deref'], 'ty': ''}))
        return None

    LEN_PRESERVING = ('<std::vec::Vec<T, A> as std::ops::DerefMut>::deref_mut', 'std::vec::Vec::<T, A>::as_mut_slice', 'std::vec::Vec::<T, A>::iter_mut',
                      '<std::vec::Vec<T, A> as std::convert::AsMut<[T]>>::as_mut', 'arrayvec::ArrayVec::<T, CAP>::as_mut_slice', '<arrayvec::ArrayVec<T, CAP> as std::ops::DerefMut>::deref_mut')
    LEN_FNS = ('core::slice::<impl [T]>::len', 'std::vec::Vec::<T, A>::len', 'arrayvec::ArrayVec::<T, CAP>::len', 'core::str::<impl str>::len')

    def pure_atom(self, n, exprs, ty=''):
        a = 'pure:%s(%s)' % ('::'.join(n.split('::')[-2:]), ','.join(fmt(e) for e in exprs))
        if not hasattr(self, '_pure_ty'):
            self._pure_ty = {}
        self._pure_ty[a] = ty
        return a

    def _pure_arg(self, a, depth):
        """Value of an argument of a pure call; `&x` of an unmodified x is named by x."""
        if is_place(a) and not a['pl']['p']:
            sd = self.fn.single_def(a['pl']['l'])
            if sd and sd[2] == 'assign' and sd[3]['rv']['k'] == 'ref' and not sd[3]['rv'].get('mut'):
                c = self.fn.canon(sd[3]['rv']['pl'])
                e = lin(self.atom_local(c['l'])) if not c['p'] else lin(self.atom_place(c))
                if self.stable_since(e, (sd[0], sd[1])):
                    return e
        return self.ev_op(a, depth)

    def ev_call(self, t, depth, b):
        n = callee_name(t)
        if n in getattr(self.S, 'pure', ()):
            # D6: a function declared pure by the rule module: its result is a function of its argument values
            es = [self._pure_arg(a, depth + 1) for a in t['args']]
            if all(e is not None for e in es):
                return lin(self.pure_atom(n, es, self.fn.local_ty(t['dest']['l']) if not t['dest']['p'] else ''))
        if n in self.LEN_FNS:
            a = t['args'][0]
            if is_place(a):
                return lin(self.atom_len({'l': a['pl']['l'], 'p': a['pl']['p'] + ['deref'], 'ty': ''}))
        if n == 'rr::rdata::Rdata::len':
            a = t['args'][0]
            if is_place(a):
                # Rdata::len(self) is self.octets.len()  (checked by the C18 rule `rdata-accessors`)
                return lin('len:%s.octets' % self.fn.canon_str({'l': a['pl']['l'], 'p': a['pl']['p'] + ['deref'], 'ty': ''}))
        if n == 'name::Name::len':
            a = t['args'][0]
            if is_place(a):
                return lin('%s(%s)' % (n.split('::')[-2] + '.len', self.fn.canon_str({'l': a['pl']['l'], 'p': a['pl']['p'] + ['deref'], 'ty': ''})))
        if (re.search(r'as std::convert::From<u(8|16|32|64|size)>>::from$', n) or re.search(r'std::convert::From<u(8|16|32|64)> for u(16|32|64|size)>::from$', n) or n == '<T as std::convert::Into<U>>::into') and len(t['args']) == 1:
            # lossless widening conversion between unsigned integers (usize::from(x), x.into())
            a = t['args'][0]
            sty = (a['pl'].get('ty') or self.fn.local_ty(a['pl']['l'])) if is_place(a) else a.get('ty', '')
            dty = self.fn.local_ty(t['dest']['l']) if not t['dest']['p'] else ''
            if sty in UMAX and dty in UMAX and UMAX[sty] <= UMAX[dty]:
                return self.ev_op(a, depth + 1)
        return None

    # ---------------- stability (no redefinition between a definition/guard point and the site)
    def mutable_atoms(self, e):
        out = set()
        for a in e:
            if a == '1':
                continue
            if a.startswith('L') and '.' not in a:
                l = int(a[1:])
                if self.multi_def(l):
                    out.add(a)
            elif a.startswith('P:') or a.startswith('len:') or '.len(' in a:
                out.add(a)
        return out

    def region(self, frm_block, to_block):
        key = (frm_block, to_block)
        if key not in self._reach_cache:
            fn = self.fn
            fwd = fn.reachable(frm_block)
            back = fn.can_reach([to_block])
            self._reach_cache[key] = fwd & back
        return self._reach_cache[key]

    def writes_in(self, b, atoms, lo=None, hi=None):
        """Does block b (statements lo..hi, and its terminator if hi is None) redefine any atom?"""
        fn = self.fn
        blk = fn.blocks[b]
        for i, st in enumerate(blk['stmts']):
            if lo is not None and i <= lo:
                continue
            if hi is not None and i >= hi:
                continue
            if st['k'] == 'assign':
                if self._write_hits(st['lhs'], atoms):
                    return True
        if hi is None:
            t = blk['term']
            if t['k'] == 'call':
                if self._write_hits(t['dest'], atoms):
                    return True
                if self._call_may_write(t, atoms):
                    return True
        return False

    def _write_hits(self, lhs, atoms):
        fn = self.fn
        if not lhs['p']:
            if ('L%d' % lhs['l']) in atoms:
                return True
            rx = re.compile(r'(^|[^\w])_%d([^\d]|$)' % lhs['l'])
            return any(rx.search(a.split(':', 1)[1]) for a in atoms if a.startswith(('P:', 'len:')))
        cl = fn.canon(lhs)
        cs = place_str(cl)
        if cl['p'] and isinstance(cl['p'][-1], dict) and ('idx' in cl['p'][-1] or 'cidx' in cl['p'][-1]):
            # a store to one element: only atoms that name an element of that same slice are affected
            base = place_str({'l': cl['l'], 'p': cl['p'][:-1], 'ty': ''})
            return any(a.startswith('P:') and a[2:].startswith(base + '[') for a in atoms)
        for a in atoms:
            if a.startswith('P:') and (a[2:] == cs or a[2:].startswith(cs + '.') or cs.startswith(a[2:] + '.')):
                return True
            if a.startswith('len:') and (a[4:] == cs or a[4:].startswith(cs) or cs.startswith(a[4:].rstrip(')'))):
                return True
        return False

    def _call_may_write(self, t, atoms):
        """A call that receives &mut to (a prefix of) a place an atom depends on may change it."""
        fn = self.fn
        args = []
        for a in t['args']:
            if not is_place(a):
                continue
            ty = a['pl'].get('ty') or fn.local_ty(a['pl']['l'])
            if ty.startswith('&mut '):
                args.append(a)
            elif '&mut ' in ty and not a['pl']['p']:
                # a tuple / closure environment carrying mutable references (e.g. the argument tuple of FnOnce::call_once)
                sd = fn.single_def(a['pl']['l'])
                if sd and sd[2] == 'assign' and sd[3]['rv']['k'] == 'agg':
                    for o in sd[3]['rv']['ops']:
                        if is_place(o) and (o['pl'].get('ty') or fn.local_ty(o['pl']['l'])).startswith('&mut '):
                            args.append(o)
                else:
                    return True          # cannot see through it: assume it may write anything
        for a in args:
            ty = a['pl'].get('ty') or fn.local_ty(a['pl']['l'])
            base = fn.canon({'l': a['pl']['l'], 'p': a['pl']['p'] + ['deref'], 'ty': ''})
            bs = place_str(base)
            written = self._callee_written_fields(t)
            for at in atoms:
                body = at.split(':', 1)[1] if ':' in at else at
                if bs in body:
                    if ty.startswith('&mut [') and at.startswith('len:') and body == bs:
                        continue          # a callee cannot change the length of a slice it receives by reference
                    if at.startswith('len:') and body == bs and callee_name(t) in self.LEN_PRESERVING:
                        continue          # views a vector as a mutable slice / iterator: elements may change, the length cannot
                    if written is not None:
                        # a callee of this crate: it can only change the fields it (transitively) stores to
                        rest = body.replace(bs, '', 1)
                        names = set(re.findall(r'\.([A-Za-z_]\w*)', rest))
                        if not (names & written) and (names or at.startswith('len:')):
                            continue
                    return True
        return False

    def _callee_written_fields(self, t):
        """Names of struct fields a crate-local callee may store to (transitively), or None for foreign callees."""
        n = callee_name(t)
        if not n or n not in self.F.fns:
            # an indirect call (closure parameter): the rule module may have supplied the union of the effects of every
            # closure that is ever passed to this function
            iw = getattr(self.S, 'indirect_writes', {}).get(self.fn.gpath)
            if iw is not None and (not n or 'FnOnce' in n or 'FnMut' in n or n.endswith('::call')):
                return set(iw)
            return None
        cache = self.S.__dict__.setdefault('_cwf', {})
        if n not in cache:
            from .effects import transitive_writes
            tw = transitive_writes(self.F, [n])
            cache[n] = set(tw.keys())
        return cache[n]

    def write_points(self, atoms):
        """[(block, idx)] (idx = statement index, or None for the terminator) that may redefine an atom."""
        key = frozenset(atoms)
        cache = self.__dict__.setdefault('_wp_cache', {})
        if key in cache:
            return cache[key]
        fn = self.fn
        out = []
        for b, blk in enumerate(fn.blocks):
            if blk['cleanup']:
                continue
            for i, st in enumerate(blk['stmts']):
                if st['k'] == 'assign' and self._write_hits(st['lhs'], atoms):
                    out.append((b, i))
            t = blk['term']
            if t['k'] == 'call' and (self._write_hits(t['dest'], atoms) or self._call_may_write(t, atoms)):
                out.append((b, None))
        cache[key] = out
        return out

    def stable_between(self, atoms, start, site):
        """True if no atom is redefined on any path from `start` to `site` that does not re-pass `start`.
        start: ('edge', p, s) | ('def', block, idx) | ('entry',) ; site: (block, idx|None) evaluated *before* that point."""
        if not atoms:
            return True
        fn = self.fn
        tb, ti = site
        W = self.write_points(atoms)
        if not W:
            return True
        n_tb = len(fn.blocks[tb]['stmts'])
        ti_n = n_tb if ti is None else ti            # site position as a number (terminator = n)

        def pos(i, b):
            return len(fn.blocks[b]['stmts']) if i is None else i

        if start[0] == 'edge':
            _, p, s0 = start
            avoid_edges = {(p, s0)}
            fwd = fn.reachable(s0, avoid_edges=avoid_edges)
            for (wb, wi) in W:
                if wb not in fwd:
                    continue
                # can the site be reached after w without re-taking the edge?
                if wb == tb and pos(wi, wb) < ti_n:
                    return False
                starts = [x for x in fn.succs()[wb] if (wb, x) not in avoid_edges]
                after = fn.reachable(starts, avoid_edges=avoid_edges) if starts else set()
                if tb in after:
                    return False
            return True
        if start[0] == 'join':
            # from (the top of) block J to the site, along paths that do not re-enter J
            J = start[1]
            fwd = fn.reachable(fn.succs()[J], avoid={J}) if fn.succs()[J] else set()
            for (wb, wi) in W:
                wn = pos(wi, wb)
                if wb == J:
                    if tb == J:
                        if wn < ti_n:
                            return False
                    elif tb in fwd:
                        return False
                    continue
                if wb not in fwd:
                    continue
                if wb == tb and wn < ti_n:
                    return False
                after = fn.reachable(fn.succs()[wb], avoid={J}) if fn.succs()[wb] else set()
                if tb in after and tb != J:
                    return False
            return True
        if start[0] == 'entry':
            for (wb, wi) in W:
                if wb == tb and pos(wi, wb) < ti_n:
                    return False
                after = fn.reachable(fn.succs()[wb]) if fn.succs()[wb] else set()
                if tb in after:
                    return False
            return True
        _, sb, si = start
        si_n = pos(si, sb)
        succ = fn.succs()[sb]
        fwd = fn.reachable(succ, avoid={sb}) if succ else set()
        for (wb, wi) in W:
            wn = pos(wi, wb)
            if wb == sb:
                if wn > si_n or (wn == si_n and wi is None and si is None and False):
                    # written later in the defining block: reaches the site if the site is later in this block or beyond
                    if tb == sb and ti_n > wn:
                        return False
                    if tb != sb and tb in fwd:
                        return False
                    if tb == sb and ti_n <= si_n:
                        pass
                continue
            if wb not in fwd:
                continue
            if wb == tb and wn < ti_n:
                return False
            after = fn.reachable(fn.succs()[wb], avoid={sb}) if fn.succs()[wb] else set()
            if tb in after:
                return False
        return True

    def stable_since(self, e, defsite):
        # used while evaluating: the current query site is self._site
        site = getattr(self, '_site', None)
        if site is None:
            return True
        return self.stable_between(self.mutable_atoms(e), ('def', defsite[0], defsite[1]), site)

    # ---------------- facts
    def cond_constraints(self, p, s):
        """Constraints implied by taking branch edge p -> s (list of expr<=0), or [] if not understood."""
        fn = self.fn
        t = fn.blocks[p]['term']
        if t['k'] != 'switch':
            return []
        vals = [v for v, tb in t['targets'] if tb == s]
        others = [v for v, tb in t['targets'] if tb != s]
        otherwise = (t['otherwise'] == s)
        op = t['op']
        if not is_place(op):
            return []
        # boolean scrutinee computed by a comparison
        truth = None
        if len(t['targets']) == 1 and t['targets'][0][0] == 0:
            if vals == [0] and not otherwise:
                truth = False
            elif otherwise and not vals:
                truth = True
        cons = []
        if truth is not None:
            cons = self.bool_constraints(op, truth, (p, None))
            if cons:
                return cons
        # integer scrutinee: equality on the taken value
        e = self.ev_op(op)
        if e is not None:
            if otherwise and not vals and others:
                self._last_diseq = [add(e, lin(c=v), -1) for v in others]
            if len(vals) == 1 and not otherwise:
                return eq(e, lin(c=vals[0]))
            if otherwise and not vals and sorted(others) == list(range(len(others))) and others:
                # values 0..k-1 excluded, unsigned -> e >= k
                return [le(lin(c=len(others)), e)]
        return []

    def bool_constraints(self, op, truth, at, depth=0):
        fn = self.fn
        if depth > 8 or not is_place(op) or op['pl']['p']:
            return []
        sd = fn.single_def(op['pl']['l'])
        if not sd:
            return []
        b, i, kind, node = sd
        if kind == 'call':
            n = callee_name(node)
            t = node
            if n.endswith('::is_empty') and is_place(t['args'][0]) and ('[T]' in n or 'Vec' in n or 'ArrayVec' in n or 'str' in n):
                L = lin(self.atom_len({'l': t['args'][0]['pl']['l'], 'p': t['args'][0]['pl']['p'] + ['deref'], 'ty': ''}))
                if not self.stable_between(self.mutable_atoms(L), ('def', b, None), at):
                    return []
                return eq(L, lin()) if truth else [le(lin(c=1), L)]
            f = self.S.post.get(('bool', n))
            if f:
                return f(self, b, t, truth) or []
            return []
        rv = node['rv']
        if rv['k'] == 'un' and rv['op'] == 'Not':
            return self.bool_constraints(rv['a'], not truth, at, depth + 1)
        if rv['k'] == 'use':
            return self.bool_constraints(rv['op'], truth, at, depth + 1)
        if rv['k'] == 'bin' and rv['op'] in ('Lt', 'Le', 'Gt', 'Ge', 'Eq', 'Ne'):
            old = getattr(self, '_site', None)
            ea = self.ev_op(rv['a'])
            eb = self.ev_op(rv['b'])
            if ea is None or eb is None:
                return []
            if not self.stable_between(self.mutable_atoms(ea) | self.mutable_atoms(eb), ('def', b, i), at):
                return []
            o = rv['op']
            if not truth:
                o = {'Lt': 'Ge', 'Le': 'Gt', 'Gt': 'Le', 'Ge': 'Lt', 'Eq': 'Ne', 'Ne': 'Eq'}[o]
            if o == 'Lt':
                return [lt(ea, eb)]
            if o == 'Le':
                return [le(ea, eb)]
            if o == 'Gt':
                return [lt(eb, ea)]
            if o == 'Ge':
                return [le(eb, ea)]
            if o == 'Eq':
                return eq(ea, eb)
            if o == 'Ne':
                # not linear: kept aside as `ea - eb != 0`, used by prove() to tighten a bound it meets (x >= c and
                # x != c give x >= c + 1)
                self._last_diseq = [add(ea, eb, -1)]
        return []

    def edge_facts(self, site_block, site_idx):
        fn = self.fn
        out = []
        self._diseq = []
        for s in fn.doms(site_block):
            preds = [p for p in fn.preds()[s] if p in fn.idom() and not fn.dominates(s, p)]
            if len(preds) != 1:
                continue
            p = preds[0]
            self._last_diseq = []
            cs = self.cond_constraints(p, s)
            for dq in self._last_diseq:
                if self.stable_between(self.mutable_atoms(dq), ('edge', p, s), (site_block, site_idx)):
                    self._diseq.append(dq)
            self._last_diseq = []
            if not cs:
                continue
            atoms = set()
            for c in cs:
                atoms |= self.mutable_atoms(c)
            if atoms and not self.stable_between(atoms, ('edge', p, s), (site_block, site_idx)):
                continue
            out.extend(cs)
        return out

    def assert_facts(self, site_block, site_idx):
        """F8: an Assert terminator whose success edge dominates the site held when control passed it."""
        fn = self.fn
        out = []
        for b in fn.doms(site_block):
            if b == site_block:
                continue
            t = fn.blocks[b]['term']
            if t['k'] != 'assert' or not fn.dominates(t['t'], site_block):
                continue
            cs = []
            if t['msg'] == 'BoundsCheck':
                ln = self.ev_op(t['ops'][0])
                ix = self.ev_op(t['ops'][1])
                if ln is not None and ix is not None:
                    cs = [lt(ix, ln)]
            elif t['msg'] == 'Overflow' and t['binop'] in ('Add', 'Sub', 'Mul'):
                a = self.ev_op(t['ops'][0])
                c = self.ev_op(t['ops'][1])
                ty = None
                for o in t['ops']:
                    if is_place(o):
                        ty = o['pl'].get('ty') or fn.local_ty(o['pl']['l'])
                if a is not None and c is not None and ty in UMAX:
                    if t['binop'] == 'Add':
                        cs = [le(add(a, c), lin(c=UMAX[ty]))]
                    elif t['binop'] == 'Sub':
                        cs = [le(c, a)]
            if not cs:
                continue
            atoms = set()
            for c_ in cs:
                atoms |= self.mutable_atoms(c_)
            if atoms and not self.stable_between(atoms, ('def', b, None), (site_block, site_idx)):
                continue
            out.extend(cs)
        return out

    def mono_facts(self, site_block, site_idx):
        """F9: monotone counters.  An unsigned local v whose definitions are one initialisation `v = e` (e does not
        mention v) and otherwise only overflow-checked increments `v = v + (non-negative terms)` satisfies e <= v at every
        point dominated by the initialisation, as long as e's inputs are unchanged since that initialisation (the
        initialisation may itself sit in an outer loop: the fact is about the current round)."""
        fn = self.fn
        out = []
        saved = self._site
        cache = self.__dict__.setdefault('_mono_cache', {})
        for l, ds in fn.defs().items():
            if l == 0 or 1 <= l <= fn.argc or len(ds) < 2 or fn.local_ty(l) not in UMAX:
                continue
            if l not in cache:
                cache[l] = self._mono_shape(l, ds)
            shape = cache[l]
            if not shape:
                continue
            (b0, i0), init = shape
            if not (fn.dominates(b0, site_block) and (b0 != site_block or site_idx is None or i0 < site_idx)):
                continue
            self._site = saved
            if not self.stable_between(self.mutable_atoms(init) | {self.atom_local(l)} - {self.atom_local(l)}, ('def', b0, i0), (site_block, site_idx)):
                continue
            out.append(le(init, lin(self.atom_local(l))))
        self._site = saved
        return out

    def _mono_shape(self, l, ds):
        fn = self.fn
        if any(k not in ('assign',) for (b, i, k, n) in ds):
            return None
        # the address of l must never be taken mutably
        for blk in fn.blocks:
            for st in blk['stmts']:
                if st['k'] == 'assign' and st['rv']['k'] in ('ref', 'rawptr') and st['rv'].get('mut') and st['rv']['pl']['l'] == l:
                    return None
        me = self.atom_local(l)
        inits = []
        for (b, i, k, n) in ds:
            if fn.blocks[b]['cleanup']:
                continue
            self._site = (b, i)
            e = self.ev_rv(n['rv'], 0, (b, i))
            if e is None:
                return None
            if me not in e:
                rv = n['rv']
                if rv['k'] == 'use' and is_place(rv['op']) and not rv['op']['pl']['p'] and not self.multi_def(rv['op']['pl']['l']):
                    e = lin(self.atom_local(rv['op']['pl']['l']))     # an immutable local names the initial value
                inits.append(((b, i), e))
                continue
            d = add(e, lin(me), -1)
            if any(v < 0 for v in d.values()):
                return None
        if len(inits) != 1:
            return None
        (b0, i0), init = inits[0]
        if not all(fn.dominates(b0, b) for (b, i, k, n) in ds if not fn.blocks[b]['cleanup']):
            return None
        return (b0, i0), init

    def slice_facts(self, site_block, site_idx):
        """F6: for range-index calls (and get(range) successes) whose return dominates the site."""
        fn = self.fn
        out = []
        for b, t in fn.calls():
            if b == site_block or not fn.dominates(b, site_block) or t['t'] is None or not fn.dominates(t['t'], site_block):
                continue
            n = callee_name(t)
            if not re.search(r'(Index<I>|IndexMut<I>)(>| for )', n) or len(t['args']) != 2 or t['dest']['p']:
                continue
            base, rng = t['args']
            if not is_place(base) or not is_place(rng):
                continue
            agg = self._range_agg(rng)
            if not agg:
                continue
            kind, ops = agg
            Lb = lin(self.atom_len({'l': base['pl']['l'], 'p': base['pl']['p'] + ['deref'], 'ty': ''}))
            Ld = lin('len:(*_%d)' % t['dest']['l'])
            cs = []
            if kind == 'RangeFrom':
                cs = eq(add(Ld, ops[0]), Lb) + [le(ops[0], Lb)]
            elif kind == 'RangeTo':
                cs = eq(Ld, ops[0]) + [le(ops[0], Lb)]
            elif kind == 'Range':
                cs = eq(add(Ld, ops[0]), ops[1]) + [le(ops[0], ops[1]), le(ops[1], Lb)]
            elif kind == 'RangeFull':
                cs = eq(Ld, Lb)
            atoms = set()
            for c in cs:
                atoms |= self.mutable_atoms(c)
            atoms.discard('len:(*_%d)' % t['dest']['l'])
            if self.multi_def(t['dest']['l']):
                continue
            if atoms and not self.stable_between(atoms, ('def', b, None), (site_block, site_idx)):
                continue
            out.extend(cs)
        return out

    def _range_agg(self, rng):
        fn = self.fn
        if rng['pl']['p']:
            return None
        sd = fn.single_def(rng['pl']['l'])
        if not sd or sd[2] != 'assign' or sd[3]['rv']['k'] != 'agg':
            return None
        rv = sd[3]['rv']
        d = rv['def']
        kind = None
        for k in ('RangeFrom', 'RangeToInclusive', 'RangeTo', 'RangeInclusive', 'RangeFull', 'Range'):
            if d.endswith('ops::' + k) or d.endswith('::' + k):
                kind = k
                break
        if kind is None or kind in ('RangeInclusive', 'RangeToInclusive'):
            return None
        old = getattr(self, '_site', None)
        ops = [self.ev_op(o) for o in rv['ops']]
        if any(o is None for o in ops):
            return None
        return kind, ops

    def type_facts(self, atoms):
        fn = self.fn
        out = []
        for a in atoms:
            if a == '1':
                continue
            out.append({a: Fr(-1)})           # a >= 0 (only unsigned quantities become atoms; `pre:` atoms are old values of such)
            if a.startswith('len:') or '.len(' in a:
                out.append(add(lin(a), lin(c=-ISIZE_MAX)))
                m = re.search(r'len:\(\*?_?(\d+)', a)
            elif a.startswith('L'):
                m = re.match(r'^L(\d+)(\.0)?$', a)
                if m:
                    ty = fn.local_ty(int(m.group(1)))
                    if m.group(2):
                        mm = re.match(r'^\((\w+), bool\)$', ty)
                        ty = mm.group(1) if mm else ''
                    if ty in UMAX:
                        out.append(add(lin(a), lin(c=-UMAX[ty])))
                    elif ty == 'bool':
                        out.append(add(lin(a), lin(c=-1)))
            elif a.startswith('P:'):
                ty = self._place_ty.get(a)
                if ty in UMAX:
                    out.append(add(lin(a), lin(c=-UMAX[ty])))
            elif a.startswith('pure:'):
                ty = getattr(self, '_pure_ty', {}).get(a)
                if ty in UMAX:
                    out.append(add(lin(a), lin(c=-UMAX[ty])))
        return out

    def array_len_facts(self, atoms):
        """len of a place whose type is an array / reference to an array is the constant N."""
        out = []
        for a in atoms:
            if not a.startswith('len:'):
                continue
            ty = self._len_ty.get(a)
            if ty:
                m = re.search(r'\[[^;\]]+; (\d+)\]', ty)
                if m and ('[' + ty.split('[', 1)[1]).count('[') == 1:
                    out.extend(eq(lin(a), lin(c=int(m.group(1)))))
        return out

    # ---------------- main query
    def facts_at(self, site_block, site_idx=None, extra=()):
        self._site = (site_block, site_idx)
        self._place_ty = {}
        self._len_ty = {}
        facts = []
        facts += self.edge_facts(site_block, site_idx)
        my_diseq = list(getattr(self, '_diseq', []))
        facts += self.slice_facts(site_block, site_idx)
        facts += self.assert_facts(site_block, site_idx)
        facts += self.mono_facts(site_block, site_idx)
        facts += self.store_facts(site_block, site_idx)
        facts += self.load_congruence(site_block, site_idx)
        for hook in self.S.post.get('__site_hooks__', []):
            facts += hook(self, site_block, site_idx) or []
        pre = self.S.pre.get(self.fn.gpath)
        if pre:
            facts += pre(self) or []
        facts += self.inv_facts(site_block, site_idx)
        facts += list(extra)
        vf = self.variant_facts(site_block, site_idx) + self.flag_facts(site_block, site_idx)
        self._site = (site_block, site_idx)
        facts += vf
        facts += self.incr_facts(site_block, site_idx)
        self._site = (site_block, site_idx)
        self._diseq = my_diseq          # nested queries (variant / flag facts) have their own
        return facts

    def inv_facts(self, site_block, site_idx):
        fn = self.fn
        out = []
        if fn.argc < 1:
            return out
        from .effects import strip_ty
        ty = strip_ty(fn.local_ty(1))
        mk = self.S.inv.get(ty)
        if not mk:
            return out
        cons, deps = mk(self, '(*_1)' if fn.local_ty(1).startswith('&') else '_1')
        strong = ty in getattr(self.S, 'strong_inv', ())
        if strong:
            out.extend(self.snapshot_facts(cons, site_block, site_idx))
        for c in cons:
            atoms = {a for a in c if a != '1'}
            # a *strong* invariant is re-established by every single store to its fields (verified store by store by the
            # rule modules), so it holds at every program point of every method, whatever was written before
            if strong or self.stable_between(atoms, ('entry',), (site_block, site_idx)):
                out.append(c)
        return out

    _VARIANTS = {'std::result::Result': ('Ok', 'Err'), 'std::option::Option': ('None', 'Some'), 'std::ops::ControlFlow': ('Continue', 'Break')}

    def variant_facts(self, site_block, site_idx):
        """A dominating branch on the discriminant of a Result / Option / ControlFlow that was built inside this function
        (typically by an inlined helper, or before a `?`): if exactly one statement builds the variant the branch selected,
        control passed that statement, so the facts that held there still hold as far as their inputs are unchanged."""
        if getattr(self, '_in_variant', False):
            return []
        from . import origins
        fn = self.fn
        out = []
        self._in_variant = True
        try:
            for s in fn.doms(site_block):
                preds = [p for p in fn.preds()[s] if p in fn.idom() and not fn.dominates(s, p)]
                if len(preds) != 1:
                    continue
                p = preds[0]
                t = fn.blocks[p]['term']
                if t['k'] != 'switch' or not is_place(t['op']) or t['op']['pl']['p']:
                    continue
                sd = fn.single_def(t['op']['pl']['l'])
                if not sd or sd[2] != 'assign' or sd[3]['rv']['k'] != 'discr':
                    continue
                dpl = sd[3]['rv']['pl']
                ty = fn.local_ty(dpl['l']) if not dpl['p'] else (dpl.get('ty') or '')
                names = None
                for pre, nm in self._VARIANTS.items():
                    if ty.startswith(pre):
                        names = nm
                if names is None:
                    continue
                vals = [v for v, tb in t['targets'] if tb == s]
                if len(vals) == 1 and vals[0] in (0, 1):
                    v = vals[0]
                elif t['otherwise'] == s and not vals and sorted(v_ for v_, tb in t['targets']) in ([0], [1]):
                    v = 1 - t['targets'][0][0]
                else:
                    continue
                leaves = origins.trace(fn, dpl['l'], origins.norm_path(dpl['p']) + [('down', names[v])], at=(sd[0], sd[1]))
                aggs = [lf for lf in leaves if lf[0] == 'rv' and lf[3].get('k') == 'agg']
                if len(leaves) != 1 or len(aggs) != 1:
                    continue
                _, b, i, _rv = aggs[0]
                if not fn.dominates(b, site_block) and not (b in fn.can_reach([site_block])):
                    continue
                saved = self._site
                fs = self.facts_at(b, i)
                self._site = saved
                for c in fs:
                    if self.stable_between(self.mutable_atoms(c) | {a for a in c if a.startswith(('P:', 'len:'))}, ('def', b, i), (site_block, site_idx)):
                        out.append(c)
        finally:
            self._in_variant = False
        return out

    def incr_facts(self, site_block, site_idx):
        """F11: after `v = v + k` (no later write to v before the site) v == pre + k, where `pre` names the value v had
        before the statement; every single-assignment copy of v taken before the statement with no write to v in between
        equals `pre`.  This is the one place where a second version of a variable is named."""
        fn = self.fn
        out = []
        saved = self._site
        for l, ds in fn.defs().items():
            if l == 0 or 1 <= l <= fn.argc or len(ds) < 2 or fn.local_ty(l) not in UMAX:
                continue
            me = self.atom_local(l)
            for (b, i, kind, node) in ds:
                if kind != 'assign' or fn.blocks[b]['cleanup']:
                    continue
                if not (fn.dominates(b, site_block) and (b != site_block or site_idx is None or i < site_idx)):
                    continue
                self._site = (b, i)
                e = self.ev_rv(node['rv'], 0, (b, i))
                self._site = saved
                if e is None or me not in e or e[me] != 1:
                    continue
                k = dict(e)
                k.pop(me)
                if any(v < 0 for v in k.values()):
                    continue
                if not self.stable_between({me} | self.mutable_atoms(k), ('def', b, i), (site_block, site_idx)):
                    continue
                pre = 'pre:%d@%d.%d' % (l, b, i)
                out.extend(eq(lin(me), add(lin(pre), k)))
                # copies of v taken before the increment
                for c, cds in fn.defs().items():
                    if len(cds) != 1 or cds[0][2] != 'assign':
                        continue
                    cb, ci, _, cn = cds[0]
                    rv = cn['rv']
                    if rv['k'] == 'use' and is_place(rv['op']) and not rv['op']['pl']['p'] and rv['op']['pl']['l'] == l:
                        if fn.dominates(cb, b) and (cb != b or ci < i) and self.stable_between({me}, ('def', cb, ci), (b, i)):
                            out.extend(eq(lin(self.atom_local(c)), lin(pre)))
        self._site = saved
        return out

    def flag_facts(self, site_block, site_idx):
        """A dominating branch on a boolean local that is only ever assigned constants: if exactly one statement assigns
        the value the branch selected, control passed that statement, so what held there still holds as far as its inputs
        are unchanged (`let finished = loop { .. break true .. break false }`, `found = true`)."""
        if getattr(self, '_in_variant', False):
            return []
        fn = self.fn
        out = []
        self._in_variant = True
        try:
            for s in fn.doms(site_block):
                preds = [p for p in fn.preds()[s] if p in fn.idom() and not fn.dominates(s, p)]
                if len(preds) != 1:
                    continue
                p = preds[0]
                t = fn.blocks[p]['term']
                if t['k'] != 'switch' or not is_place(t['op']) or t['op']['pl']['p']:
                    continue
                l = fn.canon(t['op']['pl'])
                if l['p'] or fn.local_ty(l['l']) != 'bool':
                    continue
                ds = [d for d in fn.defs().get(l['l'], []) if not fn.blocks[d[0]]['cleanup']]
                if len(ds) < 2 or not all(d[2] == 'assign' and d[3]['rv']['k'] == 'use' and d[3]['rv']['op']['k'] == 'const' for d in ds):
                    continue
                vals = [v for v, tb in t['targets'] if tb == s]
                if vals == [0]:
                    want = 'false'
                elif t['otherwise'] == s and not vals and [v for v, tb in t['targets']] == [0]:
                    want = 'true'
                else:
                    continue
                hits = [d for d in ds if const_name(d[3]['rv']['op']) == want]
                if len(hits) != 1:
                    continue
                b, i = hits[0][0], hits[0][1]
                # the copy tested must have been taken after that store: the store reaches the switch
                saved = self._site
                fs = self.facts_at(b, i)
                self._site = saved
                for c in fs:
                    if self.stable_between(self.mutable_atoms(c) | {a for a in c if a.startswith(('P:', 'len:'))}, ('def', b, i), (site_block, site_idx)):
                        out.append(c)
        finally:
            self._in_variant = False
        return out

    def store_facts(self, site_block, site_idx):
        """F10: after `place = value` (a store to a field), place == value until either side is written again."""
        fn = self.fn
        out = []
        cache = self.__dict__.setdefault('_stores', None)
        if cache is None:
            cache = []
            for b, blk in enumerate(fn.blocks):
                if blk['cleanup']:
                    continue
                for i, st in enumerate(blk['stmts']):
                    if st['k'] == 'assign' and st['lhs']['p'] and isinstance(st['lhs']['p'][-1], dict) and 'f' in st['lhs']['p'][-1] and (st['lhs'].get('ty') in UMAX):
                        cache.append((b, i, st))
            self._stores = cache
        saved = self._site
        for b, i, st in cache:
            if not (fn.dominates(b, site_block) and (b != site_block or (site_idx is not None and i < site_idx) or (site_idx is None))):
                continue
            if b == site_block and site_idx is not None and i >= site_idx:
                continue
            self._site = (site_block, site_idx)
            atom = self.atom_place(st['lhs'])
            self._site = (b, i)
            v = self.ev_rv(st['rv'], 0, (b, i))
            self._site = saved
            if v is None or atom in v:
                continue
            atoms = self.mutable_atoms(v) | {atom}
            if not self.stable_between(atoms, ('def', b, i), (site_block, site_idx)):
                continue
            out.extend(eq(lin(atom), v))
        self._site = saved
        return out

    def load_congruence(self, site_block, site_idx):
        """Two single-assignment loads of the same place with no write to it in between hold the same value."""
        fn = self.fn
        groups = self.__dict__.setdefault('_loads', None)
        if groups is None:
            groups = {}
            for l, ds in fn.defs().items():
                if len(ds) != 1 or ds[0][2] != 'assign' or 1 <= l <= fn.argc or fn.local_ty(l) not in UMAX:
                    continue
                b, i, _, node = ds[0]
                rv = node['rv']
                if rv['k'] == 'use' and is_place(rv['op']) and rv['op']['pl']['p'] and not fn.blocks[b]['cleanup'] and not any(isinstance(p, dict) and ('idx' in p) for p in rv['op']['pl']['p']):
                    groups.setdefault('P:' + fn.canon_str(rv['op']['pl']), []).append((b, i, l))
            self._loads = groups
        out = []
        for atom, ls in groups.items():
            if len(ls) < 2:
                continue
            ls = [x for x in ls if fn.dominates(x[0], site_block)]
            for x in range(len(ls)):
                for y in range(len(ls)):
                    if x == y:
                        continue
                    (b1, i1, l1), (b2, i2, l2) = ls[x], ls[y]
                    if not (fn.dominates(b1, b2) and (b1 != b2 or i1 < i2)):
                        continue
                    if self.stable_between({atom}, ('def', b1, i1), (b2, i2)):
                        out.extend(eq(lin(self.atom_local(l1)), lin(self.atom_local(l2))))
        return out

    def snapshot_facts(self, cons, site_block, site_idx):
        """A local that was loaded from a field of a strongly-invariant `self` keeps satisfying the invariant constraints
        that held at the load, as long as the *other* quantities in them are unchanged since (the field itself may since
        have been overwritten: `let old = self.limit; self.limit = new; .. old ..`)."""
        fn = self.fn
        out = []
        for l, ds in fn.defs().items():
            if len(ds) != 1 or ds[0][2] != 'assign' or 1 <= l <= fn.argc:
                continue
            b, i, _, node = ds[0]
            rv = node['rv']
            if rv['k'] != 'use' or not is_place(rv['op']) or not rv['op']['pl']['p']:
                continue
            if not (fn.dominates(b, site_block) and (b != site_block or site_idx is None or i < site_idx)):
                continue
            atom = 'P:' + fn.canon_str(rv['op']['pl'])
            me = self.atom_local(l)
            for c in cons:
                if atom not in c:
                    continue
                others = {a for a in c if a not in ('1', atom)}
                if others and not self.stable_between(self.mutable_atoms({a: 1 for a in others}) | {a for a in others if a.startswith(('P:', 'len:'))}, ('def', b, i), (site_block, site_idx)):
                    continue
                c2 = dict(c)
                k = c2.pop(atom)
                c2[me] = c2.get(me, 0) + k
                out.append(c2)
        return out

    def prove(self, site_block, site_idx, goals, extra=(), split=True):
        facts = self.facts_at(site_block, site_idx, extra)
        atoms = set(a for c in facts + list(goals) for a in c)
        self._collect_tys(atoms)
        facts = facts + self.type_facts(atoms) + self.array_len_facts(atoms)
        facts = facts + self.tighten(facts)
        res = [entails(facts, g) or self._minmax_entails(facts, g) for g in goals]
        if all(res) or not split:
            return all(res), facts, res
        # bounded case split (trace partitioning over an acyclic region): at the nearest join block that dominates
        # the site, prove the goals separately under the facts of each incoming edge
        J = self.nearest_join(site_block)
        if J is None:
            return False, facts, res
        preds = [p for p in self.fn.preds()[J] if p in self.fn.idom() and not self.fn.dominates(J, p)]
        if not (2 <= len(preds) <= 8):
            return False, facts, res
        allok = True
        for p in preds:
            self._site = (site_block, site_idx)
            pf = self.facts_at(p, None) + self.cond_constraints(p, J)
            pat = set()
            for c in pf:
                pat |= self.mutable_atoms(c)
            # facts of the incoming edge must survive until the site
            pf = [c for c in pf if self.stable_between(self.mutable_atoms(c), ('join', J), (site_block, site_idx))]
            self._site = (site_block, site_idx)
            f2 = facts + pf
            at2 = set(a for c in f2 + list(goals) for a in c)
            self._collect_tys(at2)
            f2 = f2 + self.type_facts(at2) + self.array_len_facts(at2)
            if not all(entails(f2, g) for g in goals):
                allok = False
                break
        self._site = (site_block, site_idx)
        return allok, facts, ([True] * len(goals) if allok else res)

    def tighten(self, facts):
        """Integer disequalities met on dominating edges (`x != c`): where the facts already give x >= c (or x <= c) the
        bound moves by one.  Iterated a few times (`x != 0`, `x != 1` on an unsigned x give x >= 2)."""
        out = []
        dq = list(getattr(self, '_diseq', []))
        if not dq:
            return out
        atoms = set(a for c in dq for a in c)
        self._collect_tys(atoms)
        extra = self.type_facts(atoms)
        for _ in range(4):
            changed = False
            for e in list(dq):
                cur = facts + extra + out
                if entails(cur, scale(e, -1)):                 # e >= 0 known, e != 0  =>  e >= 1
                    out.append(add(lin(c=1), e, -1))
                    dq.remove(e)
                    changed = True
                elif entails(cur, e):                          # e <= 0 known, e != 0  =>  e <= -1
                    out.append(add(e, lin(c=1)))
                    dq.remove(e)
                    changed = True
            if not changed:
                break
        return out + (extra if out else [])

    def _minmax_entails(self, facts, goal, depth=0):
        """A goal that needs a LOWER bound of r = min(a, b) (or an UPPER bound of r = max(a, b)) holds if it holds with r
        replaced by a and with r replaced by b (r is one of the two)."""
        if depth > 3:
            return False
        fn = self.fn
        for atom, k in goal.items():
            m = re.match(r'^L(\d+)$', atom)
            if not m:
                continue
            sd = fn.single_def(int(m.group(1)))
            if not sd or sd[2] != 'call':
                continue
            n = callee_name(sd[3])
            ismin = n.endswith('::min') and 'cmp' in n
            ismax = n.endswith('::max') and 'cmp' in n
            # goal is  (.. + k*r ..) <= 0 : a lower bound of r is needed when k < 0, an upper bound when k > 0
            if not ((ismin and k < 0) or (ismax and k > 0)):
                continue
            saved = self._site
            self._site = (sd[0], None)
            alts = [self.ev_op(a) for a in sd[3]['args'][:2]]
            self._site = saved
            if any(a is None for a in alts):
                continue
            if not all(self.stable_between(self.mutable_atoms(a), ('def', sd[0], None), saved) for a in alts):
                continue
            ok = True
            for a in alts:
                g2 = dict(goal)
                g2.pop(atom)
                g2 = add(g2, scale(a, k))
                if not (entails(facts, g2) or self._minmax_entails(facts, g2, depth + 1)):
                    ok = False
                    break
            if ok:
                return True
        return False

    def nearest_join(self, b):
        """Nearest block that dominates b (b itself included), has >= 2 forward predecessors and is not a loop header
        whose back edge lies between it and b."""
        fn = self.fn
        x = b
        idom = fn.idom()
        steps = 0
        while steps < 12:
            preds = [p for p in fn.preds()[x] if p in idom]
            fwd = [p for p in preds if not fn.dominates(x, p)]
            if len(fwd) >= 2:
                if len(fwd) != len(preds):
                    return None      # loop header: no split here
                return x
            if x == 0 or x not in idom or len(fwd) == 0:
                return None
            x = idom[x]
            steps += 1
        return None

    def _collect_tys(self, atoms):
        fn = self.fn
        # place / len atom types, by scanning places used in the function once
        if not hasattr(self, '_all_places'):
            pls = {}
            lens = {}
            from .facts import block_reads, block_writes
            for b in range(len(fn.blocks)):
                for pl in block_reads(fn, b) + block_writes(fn, b):
                    pls['P:' + fn.canon_str(pl)] = pl.get('ty', '')
            for i, l in enumerate(fn.locals):
                lens['len:(*_%d)' % i] = l['ty']
                lens['len:_%d' % i] = l['ty']
            self._all_places = pls
            self._all_lens = lens
        for a in atoms:
            if a.startswith('P:'):
                self._place_ty[a] = self._all_places.get(a, '')
            if a.startswith('len:'):
                t = self._all_lens.get(a)
                if t is None:
                    # len:(*_1).field -> find a place with that string
                    t = self._all_places.get('P:' + a[4:], '')
                    if not t and a[4:].startswith('(*') and a.endswith(')'):
                        t = self._all_places.get('P:' + a[6:-1], '')
                self._len_ty[a] = t or ''
