"""Fact export: run the mirfacts driver over /repo's working tree.

Every check calls ensure_facts(mode); facts are recomputed whenever any file
that can influence the build changed (SHA-256 over Cargo.toml, Cargo.lock and
every file under src/), otherwise re-used from /verif/.cache/<hash>-<mode>/.
A fresh CARGO_TARGET_DIR is used per export (cargo would otherwise skip the
wrapper) and removed afterwards.
"""
import fcntl
import hashlib
import os
import shutil
import subprocess
import sys
import tempfile
import time

VERIF = os.path.dirname(os.path.dirname(os.path.abspath(__file__)))
REPO = os.environ.get('QV_REPO', '/repo')
CACHE = os.path.join(VERIF, '.cache')
DRIVER = os.path.join(VERIF, 'mirfacts', 'target', 'release', 'mirfacts')
SHIM = os.path.join(VERIF, 'tools', 'shim', 'rustc')


def tree_hash(repo=None):
    repo = repo or REPO
    h = hashlib.sha256()
    files = []
    for base in ('Cargo.toml', 'Cargo.lock'):
        files.append(os.path.join(repo, base))
    for root, dirs, fs in os.walk(os.path.join(repo, 'src')):
        dirs.sort()
        for f in sorted(fs):
            files.append(os.path.join(root, f))
    # the exporter and its driver script are part of the key
    files.append(os.path.join(VERIF, 'mirfacts', 'src', 'main.rs'))
    files.append(os.path.abspath(__file__))
    for f in files:
        h.update(os.path.relpath(f, repo).encode() + b'\0')
        try:
            with open(f, 'rb') as fh:
                h.update(fh.read())
        except OSError:
            h.update(b'<missing>')
        h.update(b'\0')
    return h.hexdigest()[:20]


def build_driver():
    if os.path.exists(DRIVER) and os.path.getmtime(DRIVER) >= os.path.getmtime(
            os.path.join(VERIF, 'mirfacts', 'src', 'main.rs')):
        return
    env = dict(os.environ, CARGO_NET_OFFLINE='true')
    r = subprocess.run(['cargo', 'build', '--release', '--offline'],
                       cwd=os.path.join(VERIF, 'mirfacts'), env=env,
                       stdout=subprocess.PIPE, stderr=subprocess.STDOUT, text=True)
    if r.returncode != 0:
        sys.stderr.write(r.stdout)
        raise SystemExit('qv: cannot build the mirfacts driver')


def nightly_sysroot():
    return subprocess.check_output(['rustc', '+nightly', '--print', 'sysroot'], text=True).strip()


def _export(repo, mode, outdir):
    build_driver()
    tgt = tempfile.mkdtemp(prefix='qv-target-')
    env = dict(os.environ)
    env.update({
        'CARGO_NET_OFFLINE': 'true',
        'LD_LIBRARY_PATH': nightly_sysroot() + '/lib',
        'MIRFACTS_OUT': outdir,
        'RUSTC_WORKSPACE_WRAPPER': DRIVER,
        'CARGO_TARGET_DIR': tgt,
    })
    env.pop('RUSTC_WRAPPER', None)
    base_flags = '-Zmir-opt-level=0 -Awarnings -Coverflow-checks=on'
    if mode == 'lib':
        env['RUSTFLAGS'] = base_flags
        cmd = ['cargo', '+nightly', 'check', '--offline', '--no-default-features', '--lib']
    else:
        env['RUSTC'] = SHIM
        env['RUSTFLAGS'] = '-Zallow-features= ' + base_flags
        cmd = ['cargo', '+nightly', 'check', '--offline', '--all-features', '--lib', '--bins']
    try:
        r = subprocess.run(cmd, cwd=repo, env=env, stdout=subprocess.PIPE,
                           stderr=subprocess.STDOUT, text=True)
    finally:
        shutil.rmtree(tgt, ignore_errors=True)
    return r


def ensure_facts(mode='lib', repo=None, verbose=False):
    """Return (directory with the JSON fact files, tree hash, seconds spent exporting)."""
    repo = repo or REPO
    assert mode in ('lib', 'full')
    th = tree_hash(repo)
    os.makedirs(CACHE, exist_ok=True)
    lock = open(os.path.join(CACHE, '.lock-%s' % th), 'w')
    fcntl.flock(lock, fcntl.LOCK_EX)
    try:
        for m in ([mode, 'full'] if mode == 'lib' else ['full']):
            d = os.path.join(CACHE, '%s-%s' % (th, m))
            if os.path.exists(os.path.join(d, 'OK')):
                return d, th, 0.0
        d = os.path.join(CACHE, '%s-%s' % (th, mode))
        shutil.rmtree(d, ignore_errors=True)
        os.makedirs(d)
        t0 = time.time()
        r = _export(repo, mode, d)
        dt = time.time() - t0
        wrote = [f for f in os.listdir(d) if f.endswith('.json')]
        if r.returncode != 0 or not any(f.startswith('quandary-') for f in wrote):
            sys.stderr.write(r.stdout[-6000:])
            shutil.rmtree(d, ignore_errors=True)
            raise SystemExit('qv: fact export failed (mode=%s): the tree does not build under the exporter' % mode)
        if mode == 'full' and not any(f.startswith('quandaryd-') for f in wrote):
            sys.stderr.write(r.stdout[-6000:])
            shutil.rmtree(d, ignore_errors=True)
            raise SystemExit('qv: fact export incomplete: no quandaryd facts')
        open(os.path.join(d, 'OK'), 'w').write('%s %s %.1f\n' % (th, mode, dt))
        if verbose:
            sys.stderr.write('qv: exported %s facts in %.1fs -> %s\n' % (mode, dt, d))
        _prune()
        return d, th, dt
    finally:
        fcntl.flock(lock, fcntl.LOCK_UN)
        lock.close()


def _prune(keep=40, min_age_s=3600):
    # Concurrent checks (seed sweeps, self-tests) share the cache: never remove a directory another process may
    # have just been handed, i.e. anything younger than an hour.
    ents = []
    now = time.time()
    for e in os.listdir(CACHE):
        p = os.path.join(CACHE, e)
        if os.path.isdir(p):
            ents.append((os.path.getmtime(p), p))
        elif e.startswith('.lock-') and now - os.path.getmtime(p) > 4 * min_age_s:
            try:
                os.unlink(p)
            except OSError:
                pass
    ents.sort(reverse=True)
    for mt, p in ents[keep:]:
        if now - mt > min_age_s:
            shutil.rmtree(p, ignore_errors=True)


if __name__ == '__main__':
    mode = sys.argv[1] if len(sys.argv) > 1 else 'lib'
    repo = sys.argv[2] if len(sys.argv) > 2 else None
    d, th, dt = ensure_facts(mode, repo, verbose=True)
    print(d, th, '%.1fs' % dt)
