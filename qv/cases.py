"""Definition-directed case expansion on top of the E5 engine (qv/bounds.py).

The E5 engine proves a goal at a site from the facts in force there.  A decision predicate (`check_mac_size`, `check_time`)
is written in many equivalent ways -- `a.max(b)`, `saturating_sub`, a guarded subtraction, `checked_add` with a fallback,
an `if`/`match` that assigns one variable on two arms -- and what all of them share is that the values compared are
*piecewise linear* in the inputs.  This module expands every atom that appears in the facts or goals by its definition:

  D1  `q = x / k` (k a positive constant, unsigned):             k*q <= x <= k*q + k-1
  D2  `r = max(a, b)` / `min(a, b)`:                              r >= a, r >= b   and the cases  r = a | r = b
  D3  `r = a.saturating_sub(b)` / `saturating_add` / `abs_diff`:  the two linear cases with their side conditions
  D4  `(c as Some).0` of `c = a.checked_add(b)` / `checked_sub`:  = a + b / a - b
  D5  a local assigned on several arms of an acyclic branch:      one case per reaching definition, with the value
      assigned there and the branch facts in force at that definition (atoms unchanged up to the site)
  D6  the result of a function listed as pure:                    one atom per (function, argument values)

and asks the linear solver once per combination of cases (bounded).  No path is enumerated and nothing is executed: the
cases are read off the definitions that reach the site, every fact is one that holds whenever control is at the site
and the case's definition was the last one executed.
"""
import itertools
import re

from .bounds import UMAX, add, entails, eq, infeasible, le, lin, lt, scale
from .facts import callee_name, const_int, is_place

_MAXF = ('std::cmp::Ord::max', 'core::cmp::Ord::max', 'std::cmp::max', 'core::cmp::max')
_MINF = ('std::cmp::Ord::min', 'core::cmp::Ord::min', 'std::cmp::min', 'core::cmp::min')
_INT = r'core::num::<impl (u8|u16|u32|u64|usize)>::'


def _atoms(cs):
    out = set()
    for c in cs:
        out |= {a for a in c if a != '1'}
    return out


class Expander:
    def __init__(self, A, site, limit=96):
        self.A = A
        self.fn = A.fn
        self.site = site
        self.limit = limit
        self.notes = []

    # ---- evaluation helpers (always evaluated as of the query site)
    def ev(self, o, at=None):
        saved = getattr(self.A, '_site', None)
        self.A._site = at or self.site
        try:
            return self.A.ev_op(o)
        finally:
            self.A._site = saved

    def _stable(self, exprs, b, i):
        atoms = set()
        for e in exprs:
            atoms |= self.A.mutable_atoms(e)
        return self.A.stable_between(atoms, ('def', b, i), self.site)

    def _in_cycle(self, b):
        fn = self.fn
        return b in fn.reachable(fn.succs()[b]) if fn.succs()[b] else False

    # ---- one atom
    def expand(self, atom):
        """-> (facts, alternatives) ; alternatives is a list of fact lists (one must hold), or None."""
        fn, A = self.fn, self.A
        m = re.match(r'^L(\d+)$', atom)
        if m:
            l = int(m.group(1))
            ds = [d for d in fn.defs().get(l, []) if not fn.blocks[d[0]]['cleanup']]
            if fn.local_ty(l) == 'bool' and not (1 <= l <= fn.argc) and ds:
                return self._bool(atom, l, ds)
            if len(ds) == 1 and not (1 <= l <= fn.argc):
                return self._single(atom, l, ds[0])
            if len(ds) >= 2 and not (1 <= l <= fn.argc) and fn.local_ty(l) in UMAX:
                return self._multi(atom, l, ds)
            return [], None
        m = re.match(r'^P:\(_(\d+) as Some\)\.0$', atom)
        if m and self._checked(int(m.group(1))):
            # D4: only meaningful in the Some case; the facts come with the cases of the discriminant
            return [le(lin('discr:_%s' % m.group(1)), lin(c=1))], None
        m = re.match(r'^discr:_(\d+)$', atom)
        if m:
            ck = self._checked(int(m.group(1)))
            if ck:
                op, a, b, mx = ck
                D, pay = lin(atom), lin('P:(_%s as Some).0' % m.group(1))
                if op == 'checked_add':
                    return [], [eq(D, lin(c=1)) + eq(pay, add(a, b)) + [le(add(a, b), lin(c=mx))], eq(D, lin()) + [le(lin(c=mx + 1), add(a, b))]]
                return [], [eq(D, lin(c=1)) + eq(pay, add(a, b, -1)) + [le(b, a)], eq(D, lin()) + [lt(a, b)]]
        return [], None

    def _checked(self, l):
        """(op, a, b, max) if local l is the single-assignment result of checked_add / checked_sub with stable inputs."""
        sd = self.fn.single_def(l)
        if sd and sd[2] == 'call':
            mm = re.match('^' + _INT + r'(checked_add|checked_sub)$', callee_name(sd[3]))
            if mm:
                a, b = self.ev(sd[3]['args'][0], (sd[0], None)), self.ev(sd[3]['args'][1], (sd[0], None))
                if a is not None and b is not None and self._stable([a, b], sd[0], None):
                    return mm.group(2), a, b, UMAX[mm.group(1)]
        return None

    def _bool(self, atom, l, ds):
        """D7: a boolean local (a named `let ok = a <= b;`, the result of `&&` / `||` / matches!): 1 or 0 together with what
        that says about the operands of the comparison that produced it, one case per definition that reaches the site."""
        fn, A = self.fn, self.A
        r = lin(atom)
        if len(ds) > 1 and any(self._in_cycle(d[0]) for d in ds):
            return [], None
        sb, si = self.site
        dblocks = {d[0] for d in ds}
        alts = []
        for (b, i, kind, node) in ds:
            if len(ds) > 1:
                reach = fn.reachable(fn.succs()[b], avoid=dblocks - {b}) if fn.succs()[b] else set()
                if b != sb and sb not in reach:
                    continue
                saved = getattr(A, '_site', None)
                try:
                    ctx = [c for c in A.facts_at(b, i) if atom not in c and A.stable_between(A.mutable_atoms(c) | {x for x in c if x.startswith(('P:', 'len:'))}, ('def', b, i), self.site)]
                finally:
                    A._site = saved
            else:
                ctx = []
            if kind != 'assign':
                return [], None
            rv = node['rv']
            if rv['k'] == 'use' and rv['op']['k'] == 'const':
                v = self.ev(rv['op'], (b, i))
                if v is None:
                    return [], None
                alts.append(eq(r, v) + ctx)
            elif rv['k'] == 'use' and is_place(rv['op']) and not rv['op']['pl']['p'] and fn.local_ty(rv['op']['pl']['l']) == 'bool':
                alts.append(eq(r, lin(A.atom_local(rv['op']['pl']['l']))) + ctx)
            elif rv['k'] == 'un' and rv['op'] == 'Not' and is_place(rv['a']) and not rv['a']['pl']['p']:
                alts.append(eq(add(r, lin(A.atom_local(rv['a']['pl']['l']))), lin(c=1)) + ctx)
            elif rv['k'] == 'bin' and rv['op'] in ('Lt', 'Le', 'Gt', 'Ge', 'Eq', 'Ne'):
                saved = getattr(A, '_site', None)
                A._site = (b, i)
                try:
                    ea, eb = A.ev_op(rv['a']), A.ev_op(rv['b'])
                finally:
                    A._site = saved
                if ea is None or eb is None or not self._stable([ea, eb], b, i):
                    return [], None
                o = rv['op']
                def cons(op_):
                    return {'Lt': [lt(ea, eb)], 'Le': [le(ea, eb)], 'Gt': [lt(eb, ea)], 'Ge': [le(eb, ea)], 'Eq': eq(ea, eb), 'Ne': None}[op_]
                neg = {'Lt': 'Ge', 'Le': 'Gt', 'Gt': 'Le', 'Ge': 'Lt', 'Eq': 'Ne', 'Ne': 'Eq'}[o]
                t_, f_ = cons(o), cons(neg)
                if t_ is None:        # `a != b` true: two strict cases
                    alts.append(eq(r, lin(c=1)) + [lt(ea, eb)] + ctx)
                    alts.append(eq(r, lin(c=1)) + [lt(eb, ea)] + ctx)
                else:
                    alts.append(eq(r, lin(c=1)) + t_ + ctx)
                if f_ is None:
                    alts.append(eq(r, lin()) + [lt(ea, eb)] + ctx)
                    alts.append(eq(r, lin()) + [lt(eb, ea)] + ctx)
                else:
                    alts.append(eq(r, lin()) + f_ + ctx)
            else:
                return [], None
        if not alts or len(alts) > 8:
            return [], None
        if len(alts) == 1:
            return alts[0], None
        return [], alts

    def _single(self, atom, l, d):
        fn = self.fn
        b, i, kind, node = d
        r = lin(atom)
        if kind == 'assign':
            rv = node['rv']
            if rv['k'] == 'discr' and not rv['pl']['p'] and self._checked(rv['pl']['l']):
                return eq(r, lin('discr:_%d' % rv['pl']['l'])), None
            if rv['k'] == 'bin' and rv['op'] == 'Div' and rv['b']['k'] == 'const':
                k = const_int(rv['b'])
                x = self.ev(rv['a'], (b, i))
                if k and k > 0 and x is not None and fn.local_ty(l) in UMAX and self._stable([x], b, i):
                    return [le(scale(r, k), x), le(x, add(scale(r, k), lin(c=k - 1)))], None
            return [], None
        if kind != 'call':
            return [], None
        t = node
        n = callee_name(t)
        args = [self.ev(a, (b, None)) for a in t['args'][:2]]
        if len(args) < 2 or any(a is None for a in args) or not self._stable(args, b, None):
            return [], None
        a, c = args
        if n in _MAXF:
            return [le(a, r), le(c, r)], [eq(r, a), eq(r, c)]
        if n in _MINF:
            return [le(r, a), le(r, c)], [eq(r, a), eq(r, c)]
        m = re.match('^' + _INT + r'(saturating_sub|saturating_add|abs_diff)$', n)
        if m:
            mx = lin(c=UMAX[m.group(1)])
            if m.group(2) == 'saturating_sub':
                return [le(add(a, c, -1), r), le(r, a)], [eq(r, add(a, c, -1)) + [le(c, a)], eq(r, lin()) + [le(a, c)]]
            if m.group(2) == 'saturating_add':
                return [le(r, add(a, c)), le(r, mx), le(a, r)], [eq(r, add(a, c)) + [le(add(a, c), mx)], eq(r, mx) + [le(mx, add(a, c))]]
            return [le(add(a, c, -1), r), le(add(c, a, -1), r)], [eq(r, add(a, c, -1)) + [le(c, a)], eq(r, add(c, a, -1)) + [le(a, c)]]
        return [], None

    def _multi(self, atom, l, ds):
        """D5: one case per definition that can be the last one executed before the site."""
        fn, A = self.fn, self.A
        sb, si = self.site
        if any(self._in_cycle(d[0]) for d in ds):
            return [], None
        alts = []
        dblocks = {d[0] for d in ds}
        for (b, i, kind, node) in ds:
            others = dblocks - {b}
            reach = fn.reachable(fn.succs()[b], avoid=others) if fn.succs()[b] else set()
            if b != sb and sb not in reach:
                continue            # another definition (or nothing) always intervenes
            if kind != 'assign':
                return [], None
            saved = getattr(A, '_site', None)
            A._site = (b, i)
            try:
                e = A.ev_rv(node['rv'], 0, (b, i))
            finally:
                A._site = saved
            case = []
            if e is not None and atom not in e and self._stable([e], b, i):
                case += eq(lin(atom), e)
            saved = getattr(A, '_site', None)
            try:
                fs = A.facts_at(b, i)
            finally:
                A._site = saved
            for c in fs:
                if atom in c:
                    continue
                if A.stable_between(A.mutable_atoms(c) | {x for x in c if x.startswith(('P:', 'len:'))}, ('def', b, i), self.site):
                    case.append(c)
            alts.append(case)
        if not alts or len(alts) > 6:
            return [], None
        return [], alts

    # ---- queries
    def _closure(self, facts, goals):
        """Expand every atom reachable from the facts and goals; -> (definitional facts, [alternatives...])."""
        defs, choices = [], []
        done = set()
        pending = _atoms(list(facts) + list(goals))
        while pending:
            a = pending.pop()
            if a in done:
                continue
            done.add(a)
            f, alts = self.expand(a)
            defs += f
            new = _atoms(f)
            if alts:
                choices.append((a, alts))
                for alt in alts:
                    new |= _atoms(alt)
            pending |= new - done
        return defs, choices

    def _join_partition(self):
        """Trace partitioning at the nearest join that dominates the site: one case per incoming edge, carrying the facts
        in force on that edge (same construction as Analyzer.prove)."""
        A, fn = self.A, self.fn
        sb, si = self.site
        J = A.nearest_join(sb)
        if J is None:
            return None
        preds = [p for p in fn.preds()[J] if p in fn.idom() and not fn.dominates(J, p)]
        if not (2 <= len(preds) <= 8):
            return None
        alts = []
        for p in preds:
            pf = A.facts_at(p, None) + A.cond_constraints(p, J)
            A._site = self.site
            alts.append([c for c in pf if A.stable_between(A.mutable_atoms(c), ('join', J), self.site)])
        A._site = self.site
        return alts

    def decide(self, goals=(), extra=(), contradiction=False, more_choices=()):
        """All goals follow (or, with contradiction=True, the facts are unsatisfiable) in every combination of cases.
        -> (ok, description of the first failing case or '')"""
        A = self.A
        base = A.facts_at(self.site[0], self.site[1], extra)
        A._site = self.site
        defs, choices = self._closure(base, goals)
        for name, alts in more_choices:
            d2, c2 = self._closure([c for alt in alts for c in alt], ())
            defs += d2
            choices += [c for c in c2 if c[0] not in {x[0] for x in choices}]
            choices.append((name, alts))
        part = self._join_partition()
        if part:
            d2, c2 = self._closure([c for alt in part for c in alt], ())
            defs += d2
            choices += [c for c in c2 if c[0] not in {x[0] for x in choices}]
            choices.append(('join', part))
        n = 1
        for _, alts in choices:
            n *= len(alts)
        if n > self.limit:
            return False, 'too many cases (%d)' % n
        for combo in itertools.product(*[range(len(alts)) for _, alts in choices]):
            facts = list(base) + list(defs)
            for (atom, alts), k in zip(choices, combo):
                facts += alts[k]
            atoms = _atoms(facts + list(goals))
            A._collect_tys(atoms)
            facts += A.type_facts(atoms) + A.array_len_facts(atoms)
            if infeasible(facts):
                continue            # this combination of cases cannot occur
            if contradiction:
                return False, 'case %s is satisfiable' % ', '.join('%s#%d' % (a, k) for (a, _), k in zip(choices, combo))
            for g in goals:
                if not entails(facts, g):
                    return False, 'case %s' % ', '.join('%s#%d' % (a, k) for (a, _), k in zip(choices, combo))
        return True, ''


def decide_at(A, block, idx, goals=(), extra=(), contradiction=False, more_choices=()):
    return Expander(A, (block, idx)).decide(goals, extra, contradiction, more_choices)
