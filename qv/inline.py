"""Inlining of *helper functions the rules do not know* into their callers, on the fact base.

Most rules are per-function.  Extracting a block into a new private helper (or splitting a function) is an everyday,
behaviour-preserving refactoring that would hide the block from them.  /verif/spec/known_functions.json lists the function
paths of the tree the rules were written against; any crate-local, non-recursive function that is NOT in that list and is
called directly is spliced into each caller (parameters become assignments, `return` becomes a jump back, locals and blocks
are renumbered) and then dropped from the fact base.  On the tree the rules were written for nothing is inlined.  The
list is only used to decide what to inline -- it is not an oracle for any property.
"""
import copy
import json
import os

from .facts import callee_name

SPEC = os.path.join(os.path.dirname(os.path.dirname(os.path.abspath(__file__))), 'spec', 'known_functions.json')


def load_known():
    try:
        with open(SPEC) as fh:
            return set(json.load(fh)['functions'])
    except (OSError, ValueError, KeyError):
        return None


def _renum(o, off_l, off_b):
    """Deep-copy a JSON node, shifting locals by off_l (block targets are handled by the caller)."""
    if isinstance(o, dict):
        n = {}
        for k, v in o.items():
            if k == 'l' and isinstance(v, int):
                n[k] = v + off_l
            elif k == 'idx' and isinstance(v, int):
                n[k] = v + off_l
            else:
                n[k] = _renum(v, off_l, off_b)
        return n
    if isinstance(o, list):
        return [_renum(v, off_l, off_b) for v in o]
    return o


def _shift_term(t, off_b, ret_to):
    k = t['k']
    if k == 'ret':
        return {'k': 'goto', 't': ret_to, 'line': t.get('line')}
    if k == 'switch':
        t['targets'] = [[v, tb + off_b] for v, tb in t['targets']]
        t['otherwise'] = t['otherwise'] + off_b
        return t
    for key in ('t', 'unwind'):
        if t.get(key) is not None and isinstance(t.get(key), int):
            t[key] = t[key] + off_b
    return t


def _calls_self(fn, F):
    return any(callee_name(t) in (fn.path, fn.gpath) for blk in fn.blocks for t in [blk['term']] if t['k'] == 'call')


def inline_into(g, b, f, F):
    """Splice f's body into g at the call that terminates block b."""
    call = g.blocks[b]['term']
    off_l = len(g.locals)
    off_b = len(g.blocks) + 1           # one extra block R (copy the result, continue) sits at off_b - 1
    short = f.path.split('::')[-1]
    for i, l in enumerate(f.locals):
        nl = dict(l)
        if nl.get('name'):
            nl['name'] = '%s.%s' % (short, nl['name'])
        g.locals.append(nl)
    r_block = len(g.blocks)
    cont = call.get('t')
    dest = call['dest']
    rstmts = [{'k': 'assign', 'lhs': dest, 'rv': {'k': 'use', 'op': {'k': 'move', 'pl': {'l': off_l, 'p': [], 'ty': f.locals[0]['ty']}}}, 'line': call.get('line'), 'exp': False}]
    g.blocks.append({'cleanup': False, 'stmts': rstmts, 'term': ({'k': 'goto', 't': cont, 'line': call.get('line')} if cont is not None else {'k': 'unreachable'})})
    for blk in f.blocks:
        nb = _renum(blk, off_l, off_b)
        nb['term'] = _shift_term(nb['term'], off_b, r_block)
        g.blocks.append(nb)
    # parameters
    pst = []
    for i, a in enumerate(call['args']):
        pst.append({'k': 'assign', 'lhs': {'l': off_l + 1 + i, 'p': [], 'ty': f.locals[1 + i]['ty'] if 1 + i < len(f.locals) else ''}, 'rv': {'k': 'use', 'op': a}, 'line': call.get('line'), 'exp': False})
    g.blocks[b]['stmts'] = g.blocks[b]['stmts'] + pst
    g.blocks[b]['term'] = {'k': 'goto', 't': off_b, 'line': call.get('line')}
    for p in f.d.get('promoted', []):
        pass
    g._succ = g._pred = g._idom = g._pdom = g._defs = g._cd = None
    g._dom_cache = {}


def apply(F):
    """Inline unknown helpers; returns the list of (helper, caller) pairs done."""
    known = load_known()
    if known is None:
        return []
    done = []
    for _round in range(4):
        unknown = {gp: fn for gp, fn in F.fns.items() if fn.crate in ('quandary', 'quandaryd') and gp not in known and '{closure' not in gp and '::tests::' not in gp
                   and not fn.trait_item and not _calls_self(fn, F) and fn.kind in ('fn', 'assoc_fn', 'AssocFn', 'Fn', 'method') or False}
        unknown = {gp: fn for gp, fn in F.fns.items() if fn.crate in ('quandary', 'quandaryd') and gp not in known and '{closure' not in gp and '::tests::' not in gp
                   and not fn.trait_item and not _calls_self(fn, F)}
        if not unknown:
            break
        changed = False
        for gp, g in list(F.fns.items()):
            if gp in unknown and _round == 0:
                pass
            nb = len(g.blocks)
            for b in range(nb):
                t = g.blocks[b]['term']
                if t['k'] != 'call' or g.blocks[b]['cleanup']:
                    continue
                cs = F.resolve_callee(g, t)
                if len(cs) != 1 or cs[0].gpath not in unknown or cs[0] is g:
                    continue
                f = cs[0]
                if len(t['args']) != f.argc:
                    continue
                inline_into(g, b, f, F)
                done.append((f.gpath, g.gpath))
                changed = True
        if not changed:
            break
    # drop helpers that are no longer called directly or referenced as values
    if done:
        still = set()
        for gp, g in F.fns.items():
            for blk in g.blocks:
                t = blk['term']
                if t['k'] == 'call':
                    for c in F.resolve_callee(g, t):
                        still.add(c.gpath)
                txt = None
            # fn-item constants
        helpers = {h for h, _ in done}
        blob_refs = set()
        for gp, g in F.fns.items():
            if gp in helpers:
                continue
            s = json.dumps(g.blocks)
            for h in helpers:
                hp = F.fns[h].path
                if ('"def": "%s"' % hp) in s and h not in still:
                    pass
                if ('"def": "%s"' % hp) in s:
                    # referenced as a callee or constant somewhere: keep only if still really called
                    if h in still:
                        blob_refs.add(h)
        for h in helpers:
            if h not in still:
                del F.fns[h]
        F._cg = None
        F._by_trait_item = None
    return done


# ------------------------------------------------------------------ undo a pure re-ordering of parameters
def load_params():
    try:
        with open(SPEC) as fh:
            return json.load(fh).get('params', {})
    except (OSError, ValueError):
        return {}


def _permute_locals(o, mp):
    if isinstance(o, dict):
        n = {}
        for k, v in o.items():
            if k in ('l', 'idx') and isinstance(v, int):
                n[k] = mp.get(v, v)
            else:
                n[k] = _permute_locals(v, mp)
        return n
    if isinstance(o, list):
        return [_permute_locals(v, mp) for v in o]
    return o


def normalise_param_order(F):
    """A function whose parameters are the known ones in a different order (same names and types) is renumbered back to
    the known order, and the argument lists of its direct callers are permuted to match: rules written against `arg2`
    keep meaning the same parameter."""
    known = load_params()
    done = []
    for gp, fn in list(F.fns.items()):
        want = known.get(gp)
        if not want or fn.argc != len(want) or fn.argc < 2:
            continue
        have = [[fn.locals[i]['name'], fn.locals[i]['ty']] for i in range(1, fn.argc + 1)]
        if have == want or sorted(map(tuple, have)) != sorted(map(tuple, want)) or len(set(map(tuple, have))) != len(have):
            continue
        # new index of each current parameter
        mp = {i + 1: want.index(have[i]) + 1 for i in range(fn.argc)}
        fn.blocks[:] = _permute_locals(fn.blocks, mp)
        newlocals = list(fn.locals)
        for old, new in mp.items():
            newlocals[new] = fn.locals[old]
        fn.locals[:] = newlocals
        fn._succ = fn._pred = fn._idom = fn._pdom = fn._defs = fn._cd = None
        fn._dom_cache = {}
        inv = {new: old for old, new in mp.items()}
        for g in F.fns.values():
            for blk in g.blocks:
                t = blk['term']
                if t['k'] == 'call' and len(t['args']) == fn.argc:
                    cs = F.resolve_callee(g, t)
                    if len(cs) == 1 and cs[0] is fn:
                        t['args'] = [t['args'][inv[k] - 1] for k in range(1, fn.argc + 1)]
        done.append(gp)
    return done
