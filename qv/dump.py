"""Debug helper: pretty-print a function's MIR facts.  usage: python3 -m qv.dump <substr> [lib|full]"""
import sys, glob, os
from .facts import *
from . import export

def rv_str(rv):
    k = rv['k']
    if k == 'use': return op_str(rv['op'])
    if k in ('ref', 'rawptr'): return ('&mut ' if rv.get('mut') else '&') + place_str(rv['pl'])
    if k == 'cast': return '%s as %s [%s]' % (op_str(rv['op']), rv['ty'], rv['ck'][:20])
    if k == 'bin': return '%s(%s, %s)' % (rv['op'], op_str(rv['a']), op_str(rv['b']))
    if k == 'un': return '%s(%s)' % (rv['op'], op_str(rv['a']))
    if k == 'discr': return 'discr(%s)' % place_str(rv['pl'])
    if k == 'agg': return '%s %s{%s}' % (rv['ak'], rv['def'], ', '.join(('%s: ' % n if n else '') + op_str(o) for n, o in zip(rv['fields'] + [''] * len(rv['ops']), rv['ops'])))
    if k == 'repeat': return '[%s; _]' % op_str(rv['op'])
    return rv.get('text', k)

def dump(fn, out=sys.stdout):
    w = out.write
    w('fn %s  (%s:%d) argc=%d\n' % (fn.gpath, fn.file, fn.line, fn.argc))
    for i, l in enumerate(fn.locals):
        if l['name'] or i <= fn.argc: w('   _%d: %s  %s\n' % (i, l['ty'], l['name']))
    for b, blk in enumerate(fn.blocks):
        w(' bb%d%s:\n' % (b, ' (cleanup)' if blk['cleanup'] else ''))
        for st in blk['stmts']:
            if st['k'] == 'assign': w('     %s = %s    // l%s\n' % (place_str(st['lhs']), rv_str(st['rv']), st.get('line')))
            elif st['k'] == 'setdiscr': w('     discr(%s) = %d\n' % (place_str(st['pl']), st['variant']))
        t = blk['term']; k = t['k']
        if k == 'call':
            w('     %s = %s(%s) -> bb%s  // l%s%s\n' % (place_str(t['dest']), callee_name(t) or op_str(t['fn']), ', '.join(op_str(a) for a in t['args']), t['t'], t.get('line'), ' [exp]' if t.get('exp') else ''))
        elif k == 'switch': w('     switch %s -> %s else bb%d  // l%s\n' % (op_str(t['op']), ', '.join('%d:bb%d' % (v, x) for v, x in t['targets']), t['otherwise'], t.get('line')))
        elif k == 'assert': w('     assert(%s == %s) %s %s(%s) -> bb%d // l%s\n' % (op_str(t['cond']), t['expected'], t['msg'], t['binop'], ', '.join(op_str(o) for o in t['ops']), t['t'], t.get('line')))
        elif k == 'drop': w('     drop(%s) -> bb%d\n' % (place_str(t['pl']), t['t']))
        elif k == 'goto': w('     goto bb%d\n' % t['t'])
        else: w('     %s %s\n' % (k, t.get('text', '')))

if __name__ == '__main__':
    mode = sys.argv[2] if len(sys.argv) > 2 else 'lib'
    repo = sys.argv[3] if len(sys.argv) > 3 else None
    d, th, _ = export.ensure_facts(mode, repo)
    F = Facts(d)
    sub = sys.argv[1]
    fs = [f for p, f in F.fns.items() if p == sub] or [f for p, f in F.fns.items() if p.endswith(sub)] or F.find(sub)
    for f in fs[:6]:
        dump(f); print()
