"""Check driver: runs one property's rule module over the fact base, applies the
known-findings file, writes evidence, prints VIOLATION / KNOWN-FINDING lines."""
import importlib
import json
import os
import re
import sys
import time
import traceback

from . import export
from .facts import Facts, MissingAnchor

VERIF = export.VERIF
EVID = os.path.join(VERIF, 'evidence')
KNOWN = os.path.join(VERIF, 'known_findings.json')


# A rule that cannot find the structure it reasons about has decided nothing.  Reporting that as a violation would raise an
# alarm on every refactoring that moves the structure (DESIGN §12.6); it is recorded as UNDECIDED instead -- visible in
# the output and the evidence, never an alarm.  Only a rule that recognised the code and found it wrong reports a violation.
SHAPE_RX = re.compile('|'.join([
    r'^cannot find ', r'cannot find the (match|split|switch|version extraction|count|should_slip|strictly-smaller|duplicate)', r'^cannot extract', r'cannot identify',
    r'shape not (recognised|analysable)', r'unexpected shape', r'is not a single switch', r'shape\)?$',
    r'^expected (exactly )?(one|1|2|3|lock|at least \d+) [^;]*?(, found|; found|, got|; got| found %|found \d)', r'^expected (exactly )?one [^,;]*$', r'^expected one ',
    r'^found \d+ pointer emission sites', r'anchor function not found', r'fails closed', r'^no `\w+` counter', r'locals not found', r'not found$',
    r'vacuous pass refused', r'^Traceback', r'premise not applicable',
]))


def is_shape_miss(rule, detail):
    if rule in ('anchor', 'engine-error', 'floor'):
        return True
    return bool(SHAPE_RX.search(detail or ''))


class Run:
    def __init__(self, pid, tier):
        self.pid = pid
        self.tier = tier
        self.instances = []
        self.floors = []
        self.notes = []
        self.extra = {}
        self.t0 = time.time()

    # -- recording ---------------------------------------------------------
    def _rec(self, ok, rule, key, where, detail, nontrivial):
        self.instances.append({
            'rule': rule, 'key': '%s|%s' % (rule, key), 'ok': bool(ok),
            'where': where, 'detail': detail, 'nontrivial': bool(nontrivial)})
        return ok

    def ok(self, rule, key, where='', detail='', nontrivial=True):
        return self._rec(True, rule, key, where, detail, nontrivial)

    def bad(self, rule, key, where='', detail=''):
        return self._rec(False, rule, key, where, detail, True)

    def require(self, cond, rule, key, where='', ok='', bad='', nontrivial=True):
        return self._rec(bool(cond), rule, key, where, ok if cond else (bad or ok), nontrivial)

    def floor(self, rule, n, what=''):
        """At least n instances of `rule` (prefix match) must have been evaluated."""
        self.floors.append((rule, n, what))

    def note(self, text):
        self.notes.append(text)

    def count(self, rule):
        return sum(1 for i in self.instances if i['rule'] == rule or i['rule'].startswith(rule + '.'))


def load_known():
    try:
        with open(KNOWN) as fh:
            return json.load(fh)
    except FileNotFoundError:
        return {'findings': []}


def main(argv):
    import argparse
    ap = argparse.ArgumentParser()
    ap.add_argument('pid')
    ap.add_argument('--tier', default=os.environ.get('VERIF_TIER', 'quick'))
    ap.add_argument('--replay', default=None)
    ap.add_argument('--verbose', '-v', action='store_true')
    ap.add_argument('--repo', default=None, help='analyse another tree (self-tests); evidence is not written')
    a = ap.parse_args(argv)
    pid = a.pid.upper()
    tier = 'thorough' if a.tier.startswith('t') else 'quick'
    seed = int(os.environ.get('VERIF_SEED', '0') or 0)
    mod = importlib.import_module('rules.' + pid.lower())
    R = Run(pid, tier)
    mode = getattr(mod, 'MODE', 'lib')
    if tier == 'thorough' and getattr(mod, 'THOROUGH_MODE', None):
        mode = mod.THOROUGH_MODE
    if a.repo:
        export.REPO = a.repo
    facts_dir, thash, export_s = export.ensure_facts(mode, a.repo, verbose=a.verbose)
    F = Facts(facts_dir)
    R.facts = F
    try:
        mod.check(R, F)
    except MissingAnchor as e:
        R.bad('anchor', str(e).split(': ')[-1], '', str(e) + ' (fails closed: the rule cannot be evaluated)')
    except Exception as e:  # a crashing rule must not pass
        tb = traceback.format_exc()
        R.bad('engine-error', type(e).__name__, '', tb[-1500:])
    for rule, n, what in R.floors:
        c = R.count(rule)
        if c < n:
            R.bad('floor', rule, '', 'rule %s evaluated %d instances, fewer than the %d confirmed by hand (%s): vacuous pass refused' % (rule, c, n, what))
        else:
            R.ok('floor', rule, '', '%d instances >= floor %d' % (c, n), nontrivial=False)

    selftests = []
    if tier == 'thorough' and not a.repo and not a.replay:
        from . import selftest
        selftests = selftest.run_all(pid)
        for st in selftests:
            print('SELFTEST %s: %s%s' % (st['mutant'], st['status'], (' <- ' + '; '.join(st['fired'][:2])) if st['fired'] else ''))
        R.extra['selftests'] = selftests
        R.extra['selftests_detected'] = sum(1 for x in selftests if x['status'] == 'detected')
        R.extra['selftests_missed'] = [x['mutant'] for x in selftests if x['status'] == 'missed']
        R.extra['selftests_stale'] = [x['mutant'] for x in selftests if x['status'] in ('stale', 'error')]
        R.note('thorough tier: the rules were re-run on %d scratch copies carrying known-breaking changes (seeded + reverse fixes); %d detected' % (len(selftests), R.extra['selftests_detected']))

    known = load_known()
    open_keys = {}
    for k in known.get('findings', []):
        if k.get('property') == pid and k.get('status') == 'open':
            open_keys[k['key']] = k
    viol = []
    knownhits = []
    undecided = []
    for i in R.instances:
        if i['ok']:
            continue
        if is_shape_miss(i['rule'], i['detail']):
            i['undecided'] = True
            undecided.append(i)
            continue
        if i['key'] in open_keys:
            knownhits.append(i)
        else:
            viol.append(i)
    for i in undecided:
        print('UNDECIDED property=%s rule=%s key=%s at %s :: %s' % (pid, i['rule'], i['key'], i['where'], i['detail'].replace('\n', ' ')[:300]))
    if a.replay:
        try:
            want = json.load(open(a.replay)).get('key')
        except Exception:
            want = None
        sel = [i for i in R.instances if i['key'] == want]
        for i in sel:
            print('%s %s %s\n    %s' % ('OK ' if i['ok'] else 'BAD', i['key'], i['where'], i['detail']))
        if not sel:
            print('replay: instance %r no longer exists on this tree' % want)
        return 1 if any(not i['ok'] for i in sel) else 0

    os.makedirs(os.path.join(EVID, 'replay'), exist_ok=True)
    for i in knownhits:
        print('KNOWN-FINDING: property=%s %s %s :: %s' % (pid, i['key'], i['where'], open_keys[i['key']].get('what', i['detail'])[:300]))
    n = 0
    for i in viol:
        n += 1
        rp = os.path.join(EVID, 'replay', '%s-%d.json' % (pid, n))
        if not a.repo:
            with open(rp, 'w') as fh:
                json.dump({'property': pid, 'key': i['key'], 'rule': i['rule'], 'where': i['where'], 'detail': i['detail'], 'tree': thash}, fh, indent=1)
        print('VIOLATION property=%s replay=%s' % (pid, rp))
        print('    rule=%s key=%s at %s\n    %s' % (i['rule'], i['key'], i['where'], i['detail'].replace('\n', '\n    ')))
    total = len(R.instances)
    okc = sum(1 for i in R.instances if i['ok'])
    n_und = len(undecided)
    nontriv = len({i['key'] for i in R.instances if i['nontrivial']})
    rules = {}
    for i in R.instances:
        rules[i['rule']] = rules.get(i['rule'], 0) + 1
    samples = []
    seen_rules = set()
    for i in R.instances:
        if i['rule'] in seen_rules or i['rule'] in ('floor',):
            continue
        seen_rules.add(i['rule'])
        samples.append({'rule': i['rule'], 'key': i['key'], 'where': i['where'], 'verdict': 'ok' if i['ok'] else 'violated', 'detail': i['detail'][:400]})
    wall = time.time() - R.t0
    ev = {
        'property_id': pid, 'tier': tier, 'seed': seed, 'level': 'other',
        'coverage': {
            'explanation': getattr(mod, 'EXPLANATION', '').strip(),
            'evaluations': max(total, 1),
            'distinct_nontrivial': nontriv,
            'rule': 'one evaluation = one rule instance (a call site, branch, table row, field, path query or entailment) decided on the MIR of /repo; non-trivial = the verdict needed a path, dataflow, table or entailment query rather than mere existence; distinct by instance key',
            'obligations': total, 'discharged': okc,
            'samples': samples[:40],
            'rules': rules,
            'floors': [{'rule': r, 'min': n, 'seen': R.count(r), 'what': w} for r, n, w in R.floors],
            'functions_in_fact_base': len(F.fns),
            'fact_mode': mode, 'tree_hash': thash, 'export_s': round(export_s, 1),
            'known_findings_matched': [i['key'] for i in knownhits],
            'undecided': [{'key': i['key'], 'why': i['detail'][:300]} for i in undecided],
            'checker_cmd': './check %s --tier %s' % (pid, tier),
            'trusted_base': ['rustc nightly MIR construction and Instance resolution', 'mirfacts exporter', 'qv engines'],
            'notes': R.notes,
        },
        'assumptions': list(getattr(mod, 'ASSUMPTIONS', [])),
        'wall_s': round(wall, 2),
        'violations': len(viol),
    }
    ev['coverage'].update(R.extra)
    if not a.repo:
        with open(os.path.join(EVID, pid + '.json'), 'w') as fh:
            json.dump(ev, fh, indent=1)
    if a.verbose:
        for i in R.instances:
            print('%s %-60s %s  %s' % ('ok ' if i['ok'] else 'BAD', i['key'][:100], i['where'], i['detail'][:160]))
    print('%s: %d instances, %d ok, %d violations, %d undecided, %d known findings (%s facts %s, %.1fs)' % (pid, total, okc, len(viol), n_und, len(knownhits), mode, thash, wall))
    return 1 if viol else 0
