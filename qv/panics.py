"""Census of panic-capable sites in MIR (E5 obligations)."""
import re

from .facts import callee_name, is_place

PANIC_CALLS = ('core::panicking::', 'std::rt::begin_panic', 'core::panicking::panic', 'std::rt::panic_fmt', 'core::panicking::assert_failed',
               'core::option::expect_failed', 'core::result::unwrap_failed', 'core::slice::index::slice_', 'core::str::slice_error_fail')
UNWRAPS = ('std::option::Option::<T>::unwrap', 'std::option::Option::<T>::expect', 'std::result::Result::<T, E>::unwrap', 'std::result::Result::<T, E>::expect',
           'std::result::Result::<T, E>::unwrap_err', 'std::result::Result::<T, E>::expect_err')
RANGE_INDEX = re.compile(r'(Index<I>|IndexMut<I>)(>| for )')
FOREIGN_PANICKY = {
    'arrayvec::ArrayVec::<T, CAP>::push': 'ArrayVec::push (panics when full)',
    'core::slice::<impl [T]>::copy_from_slice': 'copy_from_slice (panics on length mismatch)',
    'core::slice::<impl [T]>::split_at': 'split_at (panics when mid > len)',
    'core::slice::<impl [T]>::split_at_mut': 'split_at_mut',
    'core::slice::<impl [T]>::copy_within': 'copy_within',
    'rand::Rng::gen_range': 'gen_range (panics on empty range)',
    'std::time::Instant::duration_since': None,   # saturating since 1.60
    '<std::time::Instant as std::ops::Add<std::time::Duration>>::add': 'Instant + Duration (panics on overflow)',
    '<std::time::Instant as std::ops::Sub<std::time::Duration>>::sub': 'Instant - Duration',
    'std::vec::Vec::<T, A>::remove': 'Vec::remove', 'std::vec::Vec::<T, A>::swap_remove': 'Vec::swap_remove', 'std::vec::Vec::<T, A>::insert': 'Vec::insert',
    'core::slice::<impl [T]>::swap': 'slice::swap',
    'std::cmp::impls::<impl std::cmp::Ord for u16>::clamp': 'Ord::clamp (panics when min > max)', 'std::cmp::Ord::clamp': 'Ord::clamp (panics when min > max)',
}


def sites(fn):
    """[(block, kind, detail)] of panic-capable sites in non-cleanup blocks of fn."""
    out = []
    for b, bl in enumerate(fn.blocks):
        if bl['cleanup']:
            continue
        t = bl['term']
        if t['k'] == 'assert':
            if t['msg'] == 'BoundsCheck':
                out.append((b, 'index', 'BoundsCheck'))
            elif t['msg'] == 'Overflow':
                out.append((b, 'overflow-' + t['binop'].lower(), t['binop']))
            elif t['msg'] in ('DivisionByZero', 'RemainderByZero'):
                out.append((b, 'div-zero', t['msg']))
            elif t['msg'] == 'OverflowNeg':
                out.append((b, 'overflow-neg', 'Neg'))
            else:
                out.append((b, 'assert-other', t['msg']))
        elif t['k'] == 'call':
            n = callee_name(t)
            if n in UNWRAPS:
                out.append((b, 'unwrap', n.split('::')[-1]))
            elif any(n.startswith(p) for p in PANIC_CALLS):
                out.append((b, 'panic', n))
            elif RANGE_INDEX.search(n) and t['args'] and len(t['args']) == 2:
                gargs = (t.get('callee') or {}).get('gargs', '')
                if 'Range' in gargs or 'Range' in (t['args'][1]['pl']['ty'] if is_place(t['args'][1]) else t['args'][1].get('ty', '')):
                    out.append((b, 'range-index', n))
                elif 'usize' in gargs and ('Vec' in n or 'VecDeque' in n or 'ArrayVec' in n):
                    out.append((b, 'index-call', n))
                elif 'HashMap' in n or 'BTreeMap' in n:
                    out.append((b, 'map-index', n))
                else:
                    out.append((b, 'index-call', n))
            elif n in FOREIGN_PANICKY and FOREIGN_PANICKY[n]:
                out.append((b, 'foreign', FOREIGN_PANICKY[n]))
            elif n.endswith('name::Name as std::ops::Index<usize>>::index') or n.endswith('::index') and 'name::' in n:
                out.append((b, 'index-call', n))
    return out
