"""Field-sensitive backward tracing of a value to the statements that *computed* it.

`trace(fn, local, path)` follows moves/copies, tuple / enum aggregates (matching the projection path against the
aggregate's variant and field), `?` (Try::branch), Option/Result unwrap-like helpers and `Option::get_or_insert`
backwards, through locals with several definitions, until it reaches
  ('rv',   block, idx, rvalue)        an arithmetic / cast / load statement that produced the value,
  ('call', block, term, path)         the result (or a projection of it) of some other call,
  ('param', local, path)              a parameter of the function,
  ('const', operand, block, idx)      a constant (and the statement that moved it into the traced value),
  ('unknown', why)                    something the tracer does not follow (fails closed in callers).
The value observed at the starting point is one of the values produced at these leaves, unmodified: every step followed
is a pure move of the value.  That is what lets a bound proved *at each leaf* (where the guards that justify it are
visible) be transferred to the place where the value is finally used or returned.
"""
from .facts import callee_name, is_place


def norm_path(proj):
    out = []
    for p in proj:
        if p == 'deref':
            out.append('deref')
        elif isinstance(p, dict) and 'f' in p:
            out.append(('f', p['f']))
        elif isinstance(p, dict) and 'down' in p:
            out.append(('down', p.get('n') or p['down']))
        else:
            out.append(('?', str(p)))
    return out


_UNWRAPS = {
    'std::option::Option::<T>::unwrap': [('down', 'Some'), ('f', 0)],
    'std::option::Option::<T>::expect': [('down', 'Some'), ('f', 0)],
    'std::result::Result::<T, E>::unwrap': [('down', 'Ok'), ('f', 0)],
    'std::result::Result::<T, E>::expect': [('down', 'Ok'), ('f', 0)],
}
_PASS = ('std::result::Result::<T, E>::map_err', 'std::result::Result::<T, E>::or', 'std::option::Option::<T>::ok_or',
         'std::option::Option::<T>::ok_or_else', 'std::result::Result::<T, E>::or_else', '<T as std::convert::Into<U>>::into',
         '<T as std::convert::From<T>>::from', 'std::option::Option::<T>::or')


_INTS = ('u8', 'u16', 'u32', 'u64', 'usize')


def _counter_like(fn, local, ds):
    """Some definition computes the new value from the old one (`v = v + k` through a checked-arithmetic temporary)."""
    for (b, i, kind, node) in ds:
        if kind != 'assign':
            continue
        rv = node['rv']
        ops = []
        if rv['k'] == 'bin':
            ops = [rv['a'], rv['b']]
        elif rv['k'] == 'use' and is_place(rv['op']) and rv['op']['pl']['p']:
            sd = fn.single_def(rv['op']['pl']['l'])
            if sd and sd[2] == 'assign' and sd[3]['rv']['k'] == 'bin':
                ops = [sd[3]['rv']['a'], sd[3]['rv']['b']]
        for o in ops:
            if is_place(o):
                c = fn.canon(o['pl'])
                if c['l'] == local and not c['p']:
                    return True
                sd = fn.single_def(o['pl']['l']) if not o['pl']['p'] else None
                if sd and sd[2] == 'assign' and sd[3]['rv']['k'] == 'use' and is_place(sd[3]['rv']['op']) and sd[3]['rv']['op']['pl']['l'] == local and not sd[3]['rv']['op']['pl']['p']:
                    return True
    return False


def trace(fn, local, path, seen=None, depth=0, at=None):
    """Leaves (see module doc) for the value at `local` projected by `path` (normalised path list)."""
    seen = seen if seen is not None else set()
    key = (local, tuple(path))
    if key in seen or depth > 60:
        return []
    seen.add(key)
    if 1 <= local <= fn.argc and not fn.defs().get(local):
        return [('param', local, list(path))]
    out = []
    ds = [d for d in fn.defs().get(local, []) if not fn.blocks[d[0]]['cleanup']]
    if not path and len(ds) > 1 and fn.local_ty(local) in _INTS and at is not None and _counter_like(fn, local, ds):
        # a counter: its value here is whatever it holds at this read; prove the bound at the read itself
        return [('rv', at[0], at[1], {'k': 'use', 'op': {'k': 'copy', 'pl': {'l': local, 'p': [], 'ty': fn.local_ty(local)}}})]
    if 1 <= local <= fn.argc:
        out.append(('param', local, list(path)))
    if not ds and not out:
        return [('unknown', 'no definition of _%d' % local)]
    for (b, i, kind, node) in ds:
        if kind == 'assign':
            out += _from_rvalue(fn, b, i, node['rv'], path, seen, depth)
        elif kind == 'call':
            out += _from_call(fn, b, node, path, seen, depth)
        elif kind == 'part':
            if node['k'] != 'assign':
                out.append(('unknown', 'set_discriminant on _%d' % local))
                continue
            lp = norm_path(node['lhs']['p'])
            if path[:len(lp)] == lp:
                out += _from_rvalue(fn, b, i, node['rv'], path[len(lp):], seen, depth)
            elif lp[:len(path)] == path:
                out.append(('unknown', 'partial write into the traced value of _%d' % local))
            # else: a write to a disjoint part
        else:
            out.append(('unknown', 'call writes a projection of _%d' % local))
    # writes through `&mut local` handed to calls we understand
    for b, t in fn.calls():
        n = callee_name(t)
        if n == 'std::option::Option::<T>::get_or_insert' and is_place(t['args'][0]):
            base = fn.canon({'l': t['args'][0]['pl']['l'], 'p': t['args'][0]['pl']['p'] + ['deref'], 'ty': ''})
            if base['l'] == local and not base['p']:
                if path[:2] == [('down', 'Some'), ('f', 0)]:
                    out += _from_operand(fn, b, len(fn.blocks[b]['stmts']), t['args'][1], path[2:], seen, depth)
                else:
                    out.append(('unknown', 'get_or_insert on _%d with path %s' % (local, path)))
    return out


def _from_operand(fn, b, i, o, path, seen, depth):
    if o['k'] == 'const':
        return [('const', o, b, i)] if not path else [('unknown', 'projection %s of a constant' % path)]
    if not is_place(o):
        return [('unknown', 'operand')]
    pl = o['pl']
    np_ = norm_path(pl['p'])
    if 'deref' in np_:
        # a load through a reference: resolve single-assignment reborrows, else it is a memory read (leaf)
        c = fn.canon(pl)
        cp = norm_path(c['p'])
        if 'deref' in cp or any(x[0] == '?' for x in cp if isinstance(x, tuple)):
            if not path:
                return [('rv', b, i, {'k': 'use', 'op': o})]
            if all(isinstance(x, tuple) and x[0] in ('f', 'down') for x in path):
                ext = [({'f': x[1], 'n': str(x[1]), 'ty': ''} if x[0] == 'f' else {'down': x[1], 'n': x[1]}) for x in path]
                return [('rv', b, i, {'k': 'use', 'op': {'k': 'copy', 'pl': {'l': pl['l'], 'p': list(pl['p']) + ext, 'ty': ''}}})]
            return [('unknown', 'projection of a load through a reference')]
        return trace(fn, c['l'], cp + path, seen, depth + 1, at=(b, i))
    if any(isinstance(x, tuple) and x[0] == '?' for x in np_):
        return [('rv', b, i, {'k': 'use', 'op': o})] if not path else [('unknown', 'projection of an indexed load')]
    return trace(fn, pl['l'], np_ + path, seen, depth + 1, at=(b, i))


def _from_rvalue(fn, b, i, rv, path, seen, depth):
    k = rv['k']
    if k == 'use':
        return _from_operand(fn, b, i, rv['op'], path, seen, depth)
    if k == 'agg':
        ak = rv.get('ak')
        if ak == 'tuple':
            if path and path[0][0] == 'f' and path[0][1] < len(rv['ops']):
                return _from_operand(fn, b, i, rv['ops'][path[0][1]], path[1:], seen, depth)
            return [('unknown', 'tuple aggregate reached with path %s' % path)]
        if ak == 'adt':
            variant = rv['def'].split('::')[-1]
            if path and path[0][0] == 'down':
                if path[0][1] != variant:
                    return []          # this definition builds another variant: it cannot be the one projected here
                rest = path[1:]
            else:
                rest = path
            if rest and rest[0][0] == 'f' and rest[0][1] < len(rv['ops']):
                return _from_operand(fn, b, i, rv['ops'][rest[0][1]], rest[1:], seen, depth)
            if not rest:
                return [('rv', b, i, rv)]
            return [('unknown', 'adt aggregate %s reached with path %s' % (rv['def'], path))]
        return [('unknown', 'aggregate %s' % ak)] if path else [('rv', b, i, rv)]
    if k == 'bin' and rv['op'].endswith('WithOverflow') and path == [('f', 0)]:
        return [('rv', b, i, dict(rv, op=rv['op'].replace('WithOverflow', '')))]
    if path:
        return [('unknown', 'projection %s of a computed value' % path)]
    return [('rv', b, i, rv)]


def _from_call(fn, b, t, path, seen, depth):
    n = callee_name(t)
    i = len(fn.blocks[b]['stmts'])
    if n.endswith('as std::ops::Try>::branch'):
        a = t['args'][0]
        if path[:1] == [('down', 'Continue')] and is_place(a) and (len(path) == 1 or path[1] == ('f', 0)):
            ty = fn.local_ty(a['pl']['l']) if not a['pl']['p'] else (a['pl'].get('ty') or '')
            v = 'Some' if ty.startswith('std::option::Option') else 'Ok'
            return _from_operand(fn, b, i, a, [('down', v)] + path[1:], seen, depth)
        return [('unknown', 'Try::branch with path %s' % path)]
    if 'FromResidual' in n and path and path[0] in (('down', 'Ok'), ('down', 'Some'), ('down', 'Continue')):
        return []                  # from_residual only ever builds the failure variant
    if n in _UNWRAPS and is_place(t['args'][0]):
        return _from_operand(fn, b, i, t['args'][0], _UNWRAPS[n] + path, seen, depth)
    if n in ('std::option::Option::<T>::or', 'std::result::Result::<T, E>::or') and len(t['args']) == 2:
        # a.or(b): the value (and its success payload) is a's or b's
        out = []
        for a in t['args']:
            out += _from_operand(fn, b, i, a, path, seen, depth) if is_place(a) or a['k'] == 'const' else [('unknown', 'operand of or')]
        return out
    if n in _PASS and is_place(t['args'][0]) and (not path or path[0] in (('down', 'Ok'), ('down', 'Some'))):
        # the success payload passes through unchanged
        if n.endswith('ok_or') or n.endswith('ok_or_else'):
            p2 = ([('down', 'Some')] + path[1:]) if path else path
        else:
            p2 = path
        return _from_operand(fn, b, i, t['args'][0], p2, seen, depth)
    return [('call', b, t, list(path))]
