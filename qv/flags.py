"""Path queries that are sensitive to the value of ONE boolean flag local (a tiny product-automaton dataflow).

Rust code here steers its scanning loops with flags (`finished`, `finished_with_chunk`, `seen_opt`).  The plain CFG has
paths that such a flag makes infeasible (leaving a `while !finished` loop before its body ever ran).  These helpers
explore (block, flag value) pairs, value in {False, True, None = unknown}: constant assignments to the flag update the
value, any other write makes it unknown, and a SwitchInt on (a copy of) the flag only follows the matching edge when the
value is known.  Everything else is ordinary reachability, so the result over-approximates the feasible paths.
"""
from collections import deque

from .facts import const_name, is_place


def _flag_copies(fn, flag):
    """Single-assignment temporaries that are plain copies of the flag (`_15 = _12`)."""
    out = {flag}
    changed = True
    while changed:
        changed = False
        for l, ds in fn.defs().items():
            if l not in out and len(ds) == 1 and ds[0][2] == 'assign':
                rv = ds[0][3]['rv']
                if rv['k'] == 'use' and is_place(rv['op']) and not rv['op']['pl']['p'] and rv['op']['pl']['l'] in out:
                    out.add(l)
                    changed = True
    return out


def _neg_copies(fn, copies):
    out = set()
    for l, ds in fn.defs().items():
        if len(ds) == 1 and ds[0][2] == 'assign':
            rv = ds[0][3]['rv']
            if rv['k'] == 'un' and rv['op'] == 'Not' and is_place(rv['a']) and not rv['a']['pl']['p'] and rv['a']['pl']['l'] in copies:
                out.add(l)
    return out


def flag_defs(fn, flag):
    """[(block, idx, value)] with value True/False for constant stores, None otherwise."""
    out = []
    for (b, i, kind, node) in fn.defs().get(flag, []):
        if fn.blocks[b]['cleanup']:
            continue
        v = None
        if kind == 'assign' and node['rv']['k'] == 'use' and node['rv']['op']['k'] == 'const':
            cn = const_name(node['rv']['op'])
            v = True if cn == 'true' else False if cn == 'false' else None
        out.append((b, i, v))
    return out


def address_taken(fn, flag):
    for blk in fn.blocks:
        for st in blk['stmts']:
            if st['k'] == 'assign' and st['rv']['k'] in ('ref', 'rawptr') and st['rv']['pl']['l'] == flag and st['rv'].get('mut'):
                return True
    return False


class FlagCFG:
    def __init__(self, fn, flag):
        self.fn = fn
        self.flag = flag
        self.copies = _flag_copies(fn, flag)
        self.neg = _neg_copies(fn, self.copies)
        self.defs = {}
        for b, i, v in flag_defs(fn, flag):
            self.defs.setdefault(b, []).append((i, v))
        for b in self.defs:
            self.defs[b].sort()
        self.usable = not address_taken(fn, flag)

    def out_value(self, b, vin, from_idx=-1):
        """Flag value at the end of block b given the value at its start (or just after statement from_idx)."""
        v = vin
        for i, nv in self.defs.get(b, []):
            if i > from_idx:
                v = nv
        return v

    def succ_states(self, b, v):
        fn = self.fn
        t = fn.blocks[b]['term']
        succs = fn.succs()[b]
        if t['k'] == 'switch' and is_place(t['op']) and not t['op']['pl']['p'] and v is not None and self.usable:
            l = t['op']['pl']['l']
            val = None
            if l in self.copies:
                val = 1 if v else 0
            elif l in self.neg:
                val = 0 if v else 1
            if val is not None:
                # the copy must have been taken after the last write of the flag in this block: copies are single
                # assignment temporaries created right before the switch, so this holds when the copy's definition is
                # in this block after every flag store of the block
                ds = fn.defs().get(l, [])
                if l == self.flag or (ds and ds[0][0] == b and all(i < ds[0][1] for i, _ in self.defs.get(b, []))) or self._copy_current(l, b):
                    tgt = [tb for vv, tb in t['targets'] if vv == val]
                    return [(tgt[0] if tgt else t['otherwise'], v)]
        return [(s, v) for s in succs]

    def _copy_current(self, l, b):
        """The copy l (or the negated copy) taken in an earlier block still equals the flag when block b tests it: no
        store to the flag lies on a path from the copy to b (an argument of a helper that was spliced in)."""
        key = (l, b)
        cache = self.__dict__.setdefault('_cc', {})
        if key in cache:
            return cache[key]
        fn = self.fn
        ds = fn.defs().get(l, [])
        ok = False
        if len(ds) == 1:
            cb, ci = ds[0][0], ds[0][1]
            src = ds[0][3]['rv'].get('op') or ds[0][3]['rv'].get('a') if ds[0][2] == 'assign' else None
            chain_ok = True
            # the copy may itself be a copy of a copy: every link must be a single assignment dominating the next
            if src is not None and is_place(src) and src['pl']['l'] != self.flag:
                chain_ok = self._copy_current(src['pl']['l'], cb)
            after = fn.reachable(fn.succs()[cb]) if fn.succs()[cb] else set()
            ok = chain_ok and fn.dominates(cb, b)
            for db, stores in self.defs.items():
                for (i, v) in stores:
                    if db == cb and i > ci and (b in after or b == cb):
                        ok = False
                    if db != cb and db in after and (b == db or b in fn.reachable(fn.succs()[db])):
                        ok = False
        cache[key] = ok
        return ok

    def explore(self, start_block, start_val, stop=lambda b: False, from_idx=-1):
        """States reachable from the end of start_block.  `stop(b)` blocks are recorded but not expanded.
        Returns {(block, value at block entry)} (the start block itself is not included unless re-entered)."""
        seen = set()
        v0 = self.out_value(start_block, start_val, from_idx)
        q = deque(self.succ_states(start_block, v0))
        while q:
            b, v = q.popleft()
            if (b, v) in seen or self.fn.blocks[b]['cleanup']:
                continue
            seen.add((b, v))
            if stop(b):
                continue
            vout = self.out_value(b, v)
            q.extend(self.succ_states(b, vout))
        return seen

    def reaches(self, start_block, start_val, goal_blocks, avoid=(), from_idx=-1):
        """Can a flag-feasible path from the end of start_block reach a goal block without entering `avoid`?"""
        goal_blocks = set(goal_blocks)
        avoid = set(avoid)
        st = self.explore(start_block, start_val, stop=lambda b: b in avoid or b in goal_blocks, from_idx=from_idx)
        return any(b in goal_blocks for b, v in st)

    def value_at(self, block, entry_val=None):
        """Possible flag values at the entry of `block` from the function entry."""
        st = self.explore_from_entry(entry_val)
        return {v for b, v in st if b == block}

    def explore_from_entry(self, entry_val=None):
        seen = set()
        q = deque([(0, entry_val)])
        while q:
            b, v = q.popleft()
            if (b, v) in seen or self.fn.blocks[b]['cleanup']:
                continue
            seen.add((b, v))
            q.extend(self.succ_states(b, self.out_value(b, v)))
        return seen
