"""E2: per-function CFG path queries and branch-condition recovery."""
import re
from collections import deque

from .facts import callee_name, const_name, const_int, is_place, op_str, place_str


def none_after(fn, start_block, bad_pred, include_start=False):
    """No path from the successor(s) of start_block (normal edges) to any exit passes a
    block satisfying bad_pred.  Returns None if the rule holds, else the block path."""
    starts = [start_block] if include_start else fn.succs()[start_block]
    for s in starts:
        p = fn.find_path(s, bad_pred)
        if p is not None:
            return [start_block] + p if not include_start else p
    return None


def must_pass(fn, start, goals, through_pred):
    """Every path start -> (any block in goals) passes a block satisfying through_pred
    (start and goal themselves count).  Returns None if it holds, else a counter-example path."""
    goals = set(goals)
    avoid = {b for b in range(len(fn.blocks)) if through_pred(b)}
    if start in avoid:
        return None
    return fn.find_path(start, lambda b: b in goals, avoid=avoid)


def blocks_where(fn, pred, include_cleanup=False):
    return [b for b, blk in enumerate(fn.blocks) if (include_cleanup or not blk['cleanup']) and pred(b, blk)]


def call_blocks(fn, name_pred):
    out = []
    for b, t in fn.calls():
        n = callee_name(t)
        if (name_pred(n) if callable(name_pred) else name_pred == n):
            out.append(b)
    return out


# ----------------------------------------------------------------- conditions

def _def_rv(fn, o):
    """('rv', rvalue) / ('call', block, term) defining a bare single-assignment local operand."""
    if not is_place(o) or o['pl']['p']:
        return None
    sd = fn.single_def(o['pl']['l'])
    if not sd:
        return None
    if sd[2] == 'assign':
        return ('rv', sd[3]['rv'], sd[0])
    if sd[2] == 'call':
        return ('call', sd[3], sd[0])
    return None


def describe_value(fn, o, depth=0):
    """Structured description of how a (bool/int) operand was computed, following
    single-assignment temporaries: dict with kind in
    const/place/call/bin/not/discr/cast/unknown."""
    if o is None:
        return {'kind': 'unknown'}
    if o['k'] == 'const':
        return {'kind': 'const', 'val': const_name(o), 'int': const_int(o)}
    if not is_place(o):
        return {'kind': 'unknown'}
    pl = o['pl']
    if pl['p']:
        # tuple field of a checked-arithmetic result etc.
        return {'kind': 'place', 'place': fn.canon_str(pl), 'pl': fn.canon(pl)}
    d = _def_rv(fn, o) if depth < 12 else None
    if not d:
        return {'kind': 'place', 'place': fn.canon_str(pl), 'pl': fn.canon(pl), 'local': pl['l']}
    if d[0] == 'call':
        t = d[1]
        return {'kind': 'call', 'callee': callee_name(t), 'args': t['args'], 'block': d[2], 'term': t}
    rv = d[1]
    k = rv['k']
    if k == 'use':
        return describe_value(fn, rv['op'], depth + 1)
    if k == 'un' and rv['op'] == 'Not':
        return {'kind': 'not', 'a': describe_value(fn, rv['a'], depth + 1)}
    if k == 'bin':
        return {'kind': 'bin', 'op': rv['op'], 'a': rv['a'], 'b': rv['b'], 'block': d[2],
                'da': describe_value(fn, rv['a'], depth + 1), 'db': describe_value(fn, rv['b'], depth + 1)}
    if k == 'discr':
        return {'kind': 'discr', 'place': fn.canon_str(rv['pl']), 'pl': fn.canon(rv['pl']), 'rawpl': rv['pl']}
    if k == 'cast':
        return {'kind': 'cast', 'a': describe_value(fn, rv['op'], depth + 1), 'ty': rv['ty'], 'ck': rv['ck']}
    if k == 'un':
        return {'kind': 'un', 'op': rv['op'], 'a': describe_value(fn, rv['a'], depth + 1)}
    return {'kind': 'unknown', 'rv': rv}


def edge_condition(fn, p, s):
    """Condition under which control flows p -> s, for p ending in a switch:
    {'value': described scrutinee, 'equals': [ints] or None, 'not_in': [ints] or None}."""
    t = fn.blocks[p]['term']
    if t['k'] != 'switch':
        return None
    vals = [v for v, tb in t['targets'] if tb == s]
    cond = {'value': describe_value(fn, t['op']), 'op': t['op'], 'branch': p, 'succ': s}
    if s == t['otherwise']:
        others = [v for v, tb in t['targets'] if tb != s]
        cond['equals'] = vals if vals and not others else None
        cond['not_in'] = others
        if vals:
            cond['also_equals'] = vals
    else:
        cond['equals'] = vals
        cond['not_in'] = None
    return cond


def truth_of(cond):
    """For a boolean scrutinee: True / False / None for the edge."""
    if cond is None:
        return None
    if cond['equals'] == [0]:
        return False
    if cond['equals'] is None and cond['not_in'] == [0]:
        return True
    if cond['equals'] == [1]:
        return True
    return None


def normalise_bool(desc, truth):
    """Strip `not` wrappers; returns (description, truth)."""
    while desc['kind'] == 'not':
        desc = desc['a']
        truth = (not truth) if truth is not None else None
    return desc, truth


def guards_of(fn, b):
    """[(edge condition dict, truth)] for every branch edge that block b is transitively
    control-dependent on."""
    out = []
    for (p, s) in sorted(fn.transitive_control_edges(b)):
        c = edge_condition(fn, p, s)
        if c is None:
            continue
        d, tr = normalise_bool(c['value'], truth_of(c))
        c['desc'] = d
        c['truth'] = tr
        out.append(c)
    return out


def dominating_guards(fn, b):
    """Edge conditions of branch edges (p,s) such that s dominates b and p->s is the only
    forward way into s (so the condition held when b is entered)."""
    out = []
    for s in fn.doms(b):
        preds = [p for p in fn.preds()[s] if not fn.dominates(s, p) and p in fn.idom()]
        if len(preds) != 1:
            continue
        p = preds[0]
        c = edge_condition(fn, p, s)
        if c is None:
            continue
        d, tr = normalise_bool(c['value'], truth_of(c))
        c['desc'] = d
        c['truth'] = tr
        out.append(c)
    return out


def cond_mentions_call(c, name_pred):
    d = c.get('desc') or c['value']
    return _mentions_call(d, name_pred)


def _mentions_call(d, name_pred, depth=0):
    if depth > 8 or not isinstance(d, dict):
        return False
    if d.get('kind') == 'call' and (name_pred(d['callee']) if callable(name_pred) else name_pred in d['callee']):
        return True
    for k in ('a', 'da', 'db'):
        if k in d and _mentions_call(d[k], name_pred, depth + 1):
            return True
    return False


def path_lines(fn, path):
    return [fn.blocks[b]['term'].get('line') for b in path]


def fmt_path(fn, path):
    return ' -> '.join('bb%d(l%s)' % (b, fn.blocks[b]['term'].get('line', '?')) for b in path)


# ----------------------------------------------------------------- readable conditions

def short(name):
    """Shorten a def path for keys: keep the last two segments, drop lifetimes/generics."""
    import re
    n = re.sub(r"::<[^<>]*(<[^<>]*>[^<>]*)*>", '', name)
    n = re.sub(r"<impl [^>]*>::", '', n)
    m = re.match(r'^<(.+) as (.+)>::(\w+)$', n)
    if m:
        return '%s::%s' % (m.group(1).split('::')[-1], m.group(3))
    parts = n.split('::')
    return '::'.join(parts[-2:])


def show_operand(fn, o, depth=0):
    """Canonical text of how an operand was computed (structure, not source text)."""
    if o is None:
        return '?'
    if o['k'] == 'const':
        v = const_name(o)
        return short(v) if '::' in v and '(' not in v else v.split('::')[-1] if '(' in v and '::' in v else v
    if not is_place(o):
        return '?'
    return show_place(fn, o['pl'], depth)


def _mut_borrowed(fn, l):
    cache = fn.__dict__.setdefault('_mutb', {})
    if l not in cache:
        cache[l] = any(st['k'] == 'assign' and st['rv']['k'] in ('ref', 'rawptr') and st['rv'].get('mut') and st['rv']['pl']['l'] == l and not st['rv']['pl']['p']
                       for blk in fn.blocks if not blk['cleanup'] for st in blk['stmts'])
    return cache[l]


def _loop_carried(fn, l, ds):
    """Some definition of local l reaches a read of l by way of a loop back edge (so the conditions that held at the
    definition may be stale at the read).  A variable declared inside a loop body is not loop carried."""
    cache = fn.__dict__.setdefault('_loopc', {})
    if l in cache:
        return cache[l]
    dblocks = {d[0] for d in ds}
    from .facts import block_reads
    uses = {b for b in range(len(fn.blocks)) if not fn.blocks[b]['cleanup'] and any(pl['l'] == l for pl in block_reads(fn, b))}
    back = [(x, h) for x in range(len(fn.blocks)) if x in fn.idom() for h in fn.succs()[x] if fn.dominates(h, x)]
    res = False
    for d in dblocks:
        fwd = fn.reachable(fn.succs()[d], avoid=dblocks - {d}) | {d} if fn.succs()[d] else {d}
        for (x, h) in back:
            if x in fwd and x not in (dblocks - {d}):
                if h in dblocks:
                    continue
                after = fn.reachable([h], avoid=dblocks)
                if uses & after:
                    res = True
                    break
        if res:
            break
    cache[l] = res
    return res


def show_place(fn, pl, depth=0):
    c = fn.canon(pl)
    base = c['l']
    proj = ''
    for p in c['p']:
        if p == 'deref':
            continue
        if isinstance(p, dict) and 'f' in p:
            proj += '.' + p['n']
        elif isinstance(p, dict) and 'down' in p:
            proj += '@' + str(p['n'] or p['down'])
        elif isinstance(p, dict) and 'idx' in p:
            proj += '[_]'
        elif isinstance(p, dict) and 'cidx' in p:
            proj += '[%d]' % p['cidx']
        else:
            proj += '.?'
    if 1 <= base <= fn.argc:
        return 'arg%d%s' % (base, proj)
    if depth > 6:
        return '_' + proj
    sd = fn.single_def(base)
    if sd and fn.locals[base]['name'] and _mut_borrowed(fn, base):
        # a named variable that is handed out by `&mut` (to a closure, a callee) can change without another assignment
        # in this body: it is a variable, not the value of its initialiser
        return 'var:%s%s' % (fn.locals[base]['ty'], proj)
    if not sd:
        ds = fn.defs().get(base, [])
        # matches!()/&&/|| temporaries: several constant bool assignments, one per arm
        if ds and fn.locals[base]['ty'] == 'bool' and not proj and not _mut_borrowed(fn, base) and (not fn.locals[base]['name'] or not _loop_carried(fn, base, ds)):
            arms, farms = [], []
            for d in ds:
                if fn.blocks[d[0]]['cleanup']:
                    continue
                if depth >= 6:
                    arms.append('_')
                    farms.append('_')
                    continue
                g = direct_guards(fn, d[0], depth + 3, variants=False)
                if d[2] == 'assign' and d[3]['rv']['k'] == 'use' and d[3]['rv']['op']['k'] == 'const':
                    (arms if const_name(d[3]['rv']['op']) == 'true' else farms).append(' & '.join(g))
                elif d[2] == 'assign' and d[3]['rv']['k'] == 'use':
                    v = show_operand(fn, d[3]['rv']['op'], depth + 3)
                    arms.append(' & '.join(g + [v + ' not in [0]']))
                    farms.append(' & '.join(g + [v + ' in [0]']))
                elif d[2] == 'call':
                    t = d[3]
                    v = '%s(%s)' % (short(callee_name(t)) or 'indirect', ','.join(show_operand(fn, a, depth + 3) for a in t['args']))
                    arms.append(' & '.join(g + [v + ' not in [0]']))
                    farms.append(' & '.join(g + [v + ' in [0]']))
                else:
                    arms = None
                    break
            if arms is not None:
                txt = 'true-when{%s}' % ' | '.join(sorted(arms))
                fn.__dict__.setdefault('_falsewhen', {})[txt] = 'false-when{%s}' % ' | '.join(sorted(farms))
                return txt
        if ds and fn.locals[base]['name']:
            return 'var:%s%s' % (fn.locals[base]['ty'], proj)
        return '_%d%s' % (base, proj)
    if sd[2] == 'call':
        t = sd[3]
        return '%s(%s)%s' % (short(callee_name(t)) or 'indirect', ','.join(show_operand(fn, a, depth + 1) for a in t['args']), proj)
    rv = sd[3]['rv']
    k = rv['k']
    if k == 'use':
        return show_operand(fn, rv['op'], depth + 1) + proj
    if k in ('ref', 'rawptr'):
        return show_place(fn, rv['pl'], depth + 1) + proj
    if k == 'bin':
        return '%s(%s,%s)%s' % (rv['op'].replace('WithOverflow', ''), show_operand(fn, rv['a'], depth + 1), show_operand(fn, rv['b'], depth + 1), proj if proj not in ('.0',) else '')
    if k == 'un':
        return '%s(%s)%s' % (rv['op'], show_operand(fn, rv['a'], depth + 1), proj)
    if k == 'cast':
        return 'cast(%s)%s' % (show_operand(fn, rv['op'], depth + 1), proj)
    if k == 'discr':
        return 'discr(%s)%s' % (show_place(fn, rv['pl'], depth + 1), proj)
    if k == 'agg':
        return '%s{%s}%s' % (short(rv['def']) if rv['def'] else rv['ak'], ','.join(show_operand(fn, a, depth + 1) for a in rv['ops']), proj)
    return '_%d%s' % (base, proj)


def explain_edge(fn, p, s, depth=0):
    """Canonical text for the condition of branch edge p->s."""
    t = fn.blocks[p]['term']
    if t['k'] != 'switch':
        return None
    txt = show_operand(fn, t['op'], depth)
    vals = sorted(v for v, tb in t['targets'] if tb == s)
    if s == t['otherwise']:
        others = sorted(v for v, tb in t['targets'] if tb != s)
        if vals:
            return '%s not in %s' % (txt, [v for v in others]) if others else '%s any' % txt
        return '%s not in %s' % (txt, others)
    return '%s in %s' % (txt, vals)


_NEG = {'Lt': 'Ge', 'Ge': 'Lt', 'Le': 'Gt', 'Gt': 'Le', 'Eq': 'Ne', 'Ne': 'Eq'}
_SWAP = {'Lt': 'Gt', 'Gt': 'Lt', 'Le': 'Ge', 'Ge': 'Le', 'Eq': 'Eq', 'Ne': 'Ne'}


def _split2(body):
    """Split 'A,B' at the top-level comma."""
    depth = 0
    for i, ch in enumerate(body):
        if ch in '([{':
            depth += 1
        elif ch in ')]}':
            depth -= 1
        elif ch == ',' and depth == 0:
            return body[:i], body[i + 1:]
    return None


def split_top(s, sep):
    """Split s at occurrences of sep that are not nested in (), [] or {}."""
    out, depth, cur, i = [], 0, '', 0
    while i < len(s):
        if depth == 0 and s.startswith(sep, i):
            out.append(cur)
            cur = ''
            i += len(sep)
            continue
        ch = s[i]
        if ch in '([{':
            depth += 1
        elif ch in ')]}':
            depth -= 1
        cur += ch
        i += 1
    out.append(cur)
    return out


def computed_bool_arms(g):
    """For a guard `true-when{A & B | C} not in [0]` / `false-when{..} not in [0]`: [[A, B], [C]]; else None."""
    m = re.match(r'^(?:true|false)-when\{(.*)\} not in \[0\]$', g)
    if not m:
        return None
    return [split_top(arm, ' & ') for arm in split_top(m.group(1), ' | ')]


def guard_variants(g):
    """Equivalent spellings of a branch condition: `a >= b` taken is `a < b` not taken is `b <= a` taken ...  Rules match
    guards with patterns; returning every spelling keeps them independent of how the source happened to write a test."""
    out = [g]
    for pol, truth in ((' not in [0]', True), (' in [0]', False)):
        if not g.endswith(pol):
            continue
        body = g[:-len(pol)]
        if body.startswith('Not(') and body.endswith(')'):
            out += guard_variants(body[4:-1] + (' in [0]' if truth else ' not in [0]'))
            break
        if body.startswith('discr(') and not truth is None:
            pass
        op = body[:2]
        if op in _NEG and body[2:3] == '(' and body.endswith(')'):
            ab = _split2(body[3:-1])
            if ab:
                a, b = ab
                flip = ' in [0]' if truth else ' not in [0]'
                out.append('%s(%s,%s)%s' % (_NEG[op], a, b, flip))
                out.append('%s(%s,%s)%s' % (_SWAP[op], b, a, pol))
                out.append('%s(%s,%s)%s' % (_NEG[_SWAP[op]], b, a, flip))
        break
    # `r.is_ok()` taken is `r.is_err()` not taken (and is_some / is_none); both name the variant of r
    for a_, b_ in (('Result::is_ok(', 'Result::is_err('), ('Option::is_some(', 'Option::is_none(')):
        for x_, y_ in ((a_, b_), (b_, a_)):
            for pol in (' not in [0]', ' in [0]'):
                if g.startswith(x_) and g.endswith(')' + pol):
                    out.append(y_ + g[len(x_):-len(pol)] + (' in [0]' if pol == ' not in [0]' else ' not in [0]'))
    m = re.match(r'^(discr\(.*\)) (not in|in) \[([01])\]$', g)
    if m:
        # for the two-variant enums the code branches on (Option, Result, ControlFlow) `== 0` is `!= 1`
        out.append('%s %s [%d]' % (m.group(1), 'in' if m.group(2) == 'not in' else 'not in', 1 - int(m.group(3))))
    seen = []
    for x in out:
        if x not in seen:
            seen.append(x)
    return seen


def _expand(gs, fn=None):
    out = []
    fw = fn.__dict__.get('_falsewhen', {}) if fn is not None else {}
    for g in gs:
        for v in guard_variants(g):
            if v not in out:
                out.append(v)
        # a computed boolean that is false: the conditions under which it was assigned false
        if g.startswith('true-when{') and g.endswith('} in [0]') and g[:-len(' in [0]')] in fw:
            v = fw[g[:-len(' in [0]')]] + ' not in [0]'
            if v not in out:
                out.append(v)
    return out


def direct_guards(fn, b, depth=0, variants=True):
    """Readable conditions of the branch edges block b is directly control-dependent on (with equivalent spellings)."""
    out = []
    for (p, s) in sorted(fn.control_deps().get(b, ())):
        e = explain_edge(fn, p, s, depth)
        if e:
            out.append(e)
    return _expand(out, fn) if variants else out


def all_guards(fn, b):
    out = []
    for (p, s) in sorted(fn.transitive_control_edges(b)):
        e = explain_edge(fn, p, s)
        if e:
            out.append(e)
    return _expand(out, fn)


def dom_guards(fn, b, variants=True):
    """Readable conditions of branch edges (p,s) where s dominates b and p is s's only
    forward predecessor: conditions that held on every path when b was last entered."""
    out = []
    for s in sorted(fn.doms(b)):
        preds = [p for p in fn.preds()[s] if p in fn.idom() and not fn.dominates(s, p)]
        if len(preds) != 1:
            continue
        e = explain_edge(fn, preds[0], s)
        if e:
            out.append(e)
    return _expand(out, fn) if variants else out


def reaching_guard_sets(fn, b, depth=2, variants=False):
    """Guard lists under which block b is reached, one per way of arriving: like dom_guards, but when b sits below a
    join of several arms (two match arms merged with `|`, a match guard that falls through to the next arm) the
    conditions of each incoming arm are kept apart instead of being lost.  A disjunction of conjunctions."""
    doms = sorted(fn.doms(b), key=lambda x: len(fn.doms(x)))
    J = None
    for x in reversed(doms):
        fp = [p for p in fn.preds()[x] if p in fn.idom() and not fn.dominates(x, p)]
        if len(fp) >= 2 and len(fp) == len([p for p in fn.preds()[x] if p in fn.idom()]):
            J = x
            break
        if len(fp) >= 2:
            break                       # a loop header: do not partition across iterations
    if J is None or depth == 0:
        return [dom_guards(fn, b, variants=variants)]
    upto = set(dom_guards(fn, J, variants=False))
    below = [g for g in dom_guards(fn, b, variants=False) if g not in upto]
    out = []
    for p in [p for p in fn.preds()[J] if p in fn.idom()]:
        e = explain_edge(fn, p, J)
        for gs in reaching_guard_sets(fn, p, depth - 1, variants=False):
            out.append(gs + ([e] if e else []) + below)
    out = _merge_complementary(out)
    if len(out) > 12:
        return [dom_guards(fn, b, variants=variants)]
    return [_expand(gs, fn) for gs in out] if variants else out


def _negated(g):
    m = re.match(r'^(.*) not in (\[[^\]]*\])$', g)
    if m:
        return '%s in %s' % (m.group(1), m.group(2))
    m = re.match(r'^(.*) in (\[[^\]]*\])$', g)
    if m:
        return '%s not in %s' % (m.group(1), m.group(2))
    return None


def _merge_complementary(sets):
    """(G and A) or (G and not A) is G: arriving below an `if` that has rejoined says nothing about its condition."""
    sets = [list(dict.fromkeys(x)) for x in sets]
    changed = True
    while changed:
        changed = False
        for i in range(len(sets)):
            for j in range(i + 1, len(sets)):
                a, b = sets[i], sets[j]
                da = [g for g in a if g not in b]
                db = [g for g in b if g not in a]
                if not da and not db:
                    sets.pop(j)
                    changed = True
                    break
                if len(da) == 1 and len(db) == 1 and _negated(da[0]) == db[0]:
                    sets[i] = [g for g in a if g != da[0]]
                    sets.pop(j)
                    changed = True
                    break
            if changed:
                break
    return sets


def guards_equiv(got_raw, want):
    """The raw guard list equals `want` up to spelling: every wanted condition is matched by some spelling of a guard,
    and every guard is a spelling of some wanted condition."""
    got_sets = [set(guard_variants(g)) for g in got_raw]
    want_sets = [set(guard_variants(w)) for w in want]
    return all(any(ws & gs for gs in got_sets) for ws in want_sets) and all(any(ws & gs for ws in want_sets) for gs in got_sets)


class GuardList(list):
    """A raw guard list whose membership test is spelling-insensitive (`x in guards` is true when some guard is an
    equivalent spelling of x)."""
    def __contains__(self, x):
        xs = set(guard_variants(x))
        return any(xs & set(guard_variants(g)) for g in list.__iter__(self))
