//! mirfacts: exports a JSON fact base (one file per crate) from rustc's MIR.
//! Used as RUSTC_WORKSPACE_WRAPPER; argv[1] is the real rustc and is dropped.
#![feature(rustc_private)]
extern crate rustc_abi;
extern crate rustc_driver;
extern crate rustc_hir;
extern crate rustc_interface;
extern crate rustc_middle;
extern crate rustc_span;

use rustc_driver::Compilation;
use rustc_hir::def::DefKind;
use rustc_hir::def_id::{DefId, LOCAL_CRATE};
use rustc_middle::mir::{
    AggregateKind, AssertKind, Body, Const, Operand, Place, PlaceElem, Rvalue,
    StatementKind, TerminatorKind, UnwindAction,
};
use rustc_middle::mir::PlaceTy;
use rustc_middle::ty::{self, Instance, Ty, TyCtxt, TypingEnv};
use rustc_span::Span;
use std::fmt::Write as _;

fn esc(s: &str) -> String {
    let mut o = String::with_capacity(s.len() + 2);
    o.push('"');
    for c in s.chars() {
        match c {
            '"' => o.push_str("\\\""),
            '\\' => o.push_str("\\\\"),
            '\n' => o.push_str("\\n"),
            '\r' => o.push_str("\\r"),
            '\t' => o.push_str("\\t"),
            c if (c as u32) < 0x20 => { let _ = write!(o, "\\u{:04x}", c as u32); }
            c => o.push(c),
        }
    }
    o.push('"');
    o
}

struct Cx<'tcx> {
    tcx: TyCtxt<'tcx>,
}

impl<'tcx> Cx<'tcx> {
    fn loc(&self, sp: Span) -> (String, usize) {
        let sm = self.tcx.sess.source_map();
        let lo = sm.lookup_char_pos(sp.lo());
        (format!("{}", lo.file.name.prefer_local_unconditionally()), lo.line)
    }
    fn ty(&self, t: Ty<'tcx>) -> String {
        ty::print::with_no_trimmed_paths!(format!("{}", t))
    }
    fn path(&self, d: DefId) -> String {
        ty::print::with_no_trimmed_paths!(self.tcx.def_path_str(d))
    }

    fn place(&self, body: &Body<'tcx>, p: &Place<'tcx>) -> String {
        let mut s = format!("{{\"l\":{},\"p\":[", p.local.as_usize());
        let mut pty = PlaceTy::from_ty(body.local_decls[p.local].ty);
        let mut first = true;
        for elem in p.projection.iter() {
            if !first { s.push(','); }
            first = false;
            match elem {
                PlaceElem::Deref => s.push_str("\"deref\""),
                PlaceElem::Field(f, fty) => {
                    let mut name = format!("{}", f.as_usize());
                    if let ty::Adt(adt, _) = pty.ty.kind() {
                        let vidx = pty.variant_index.unwrap_or(rustc_abi::FIRST_VARIANT);
                        if adt.is_enum() || adt.is_struct() || adt.is_union() {
                            if vidx.as_usize() < adt.variants().len() {
                                let v = adt.variant(vidx);
                                if f.as_usize() < v.fields.len() {
                                    name = v.fields[f].name.to_string();
                                }
                            }
                        }
                    }
                    let _ = write!(s, "{{\"f\":{},\"n\":{},\"ty\":{}}}", f.as_usize(), esc(&name), esc(&self.ty(fty)));
                }
                PlaceElem::Index(l) => { let _ = write!(s, "{{\"idx\":{}}}", l.as_usize()); }
                PlaceElem::ConstantIndex { offset, min_length, from_end } => {
                    let _ = write!(s, "{{\"cidx\":{},\"min\":{},\"from_end\":{}}}", offset, min_length, from_end);
                }
                PlaceElem::Subslice { from, to, from_end } => {
                    let _ = write!(s, "{{\"sub\":[{},{}],\"from_end\":{}}}", from, to, from_end);
                }
                PlaceElem::Downcast(sym, v) => {
                    let n = sym.map(|x| x.to_string()).unwrap_or_default();
                    let _ = write!(s, "{{\"down\":{},\"n\":{}}}", v.as_usize(), esc(&n));
                }
                _ => s.push_str("\"other\""),
            }
            pty = pty.projection_ty(self.tcx, elem);
        }
        let _ = write!(s, "],\"ty\":{}}}", esc(&self.ty(pty.ty)));
        s
    }

    fn konst(&self, env: TypingEnv<'tcx>, c: &rustc_middle::mir::ConstOperand<'tcx>) -> String {
        let cty = c.const_.ty();
        let mut def = String::new();
        if let ty::FnDef(d, _) = cty.kind() { def = self.path(*d); }
        let val = match c.const_.eval(self.tcx, env, c.span) {
            Ok(v) => ty::print::with_no_trimmed_paths!(format!("{}", Const::Val(v, cty))),
            Err(_) => ty::print::with_no_trimmed_paths!(format!("{}", c.const_)),
        };
        let mut unev = String::new();
        if let Const::Unevaluated(u, _) = c.const_ {
            unev = self.path(u.def);
            if let Some(p) = u.promoted { let _ = write!(unev, "::promoted[{}]", p.as_usize()); }
        }
        format!("{{\"k\":\"const\",\"ty\":{},\"val\":{},\"def\":{},\"unev\":{}}}", esc(&self.ty(cty)), esc(&val), esc(&def), esc(&unev))
    }

    fn operand(&self, body: &Body<'tcx>, env: TypingEnv<'tcx>, o: &Operand<'tcx>) -> String {
        match o {
            Operand::Copy(p) => format!("{{\"k\":\"copy\",\"pl\":{}}}", self.place(body, p)),
            Operand::Move(p) => format!("{{\"k\":\"move\",\"pl\":{}}}", self.place(body, p)),
            Operand::Constant(c) => self.konst(env, c),
            _ => "{\"k\":\"other\"}".to_string(),
        }
    }

    fn rvalue(&self, body: &Body<'tcx>, env: TypingEnv<'tcx>, rv: &Rvalue<'tcx>) -> String {
        match rv {
            Rvalue::Use(o, ..) => format!("{{\"k\":\"use\",\"op\":{}}}", self.operand(body, env, o)),
            Rvalue::Ref(_, bk, p) => format!("{{\"k\":\"ref\",\"mut\":{},\"pl\":{}}}", matches!(bk, rustc_middle::mir::BorrowKind::Mut { .. }), self.place(body, p)),
            Rvalue::RawPtr(_, p) => format!("{{\"k\":\"rawptr\",\"pl\":{}}}", self.place(body, p)),
            Rvalue::CopyForDeref(p) => format!("{{\"k\":\"use\",\"op\":{{\"k\":\"copy\",\"pl\":{}}}}}", self.place(body, p)),
            Rvalue::Cast(ck, o, t) => format!("{{\"k\":\"cast\",\"ck\":{},\"op\":{},\"ty\":{}}}", esc(&format!("{:?}", ck)), self.operand(body, env, o), esc(&self.ty(*t))),
            Rvalue::BinaryOp(op, ab) => {
                let (a, b) = &**ab;
                format!("{{\"k\":\"bin\",\"op\":{},\"a\":{},\"b\":{}}}", esc(&format!("{:?}", op)), self.operand(body, env, a), self.operand(body, env, b))
            }
            Rvalue::UnaryOp(op, a) => format!("{{\"k\":\"un\",\"op\":{},\"a\":{}}}", esc(&format!("{:?}", op)), self.operand(body, env, a)),
            Rvalue::Discriminant(p) => format!("{{\"k\":\"discr\",\"pl\":{}}}", self.place(body, p)),
            Rvalue::Repeat(o, _) => format!("{{\"k\":\"repeat\",\"op\":{}}}", self.operand(body, env, o)),
            Rvalue::Aggregate(kind, ops) => {
                let (ak, def, variant, names) = match &**kind {
                    AggregateKind::Array(_) => ("array", String::new(), 0usize, vec![]),
                    AggregateKind::Tuple => ("tuple", String::new(), 0, vec![]),
                    AggregateKind::Adt(d, v, _, _, _) => {
                        let adt = self.tcx.adt_def(*d);
                        let var = adt.variant(*v);
                        let names: Vec<String> = var.fields.iter().map(|f| f.name.to_string()).collect();
                        let vname = if adt.is_enum() { format!("{}::{}", self.path(*d), var.name) } else { self.path(*d) };
                        ("adt", vname, v.as_usize(), names)
                    }
                    AggregateKind::Closure(d, _) => ("closure", self.path(*d), 0, vec![]),
                    AggregateKind::Coroutine(d, _) | AggregateKind::CoroutineClosure(d, _) => ("coroutine", self.path(*d), 0, vec![]),
                    AggregateKind::RawPtr(..) => ("rawptr", String::new(), 0, vec![]),
                };
                let opss: Vec<String> = ops.iter().map(|o| self.operand(body, env, o)).collect();
                let ns: Vec<String> = names.iter().map(|n| esc(n)).collect();
                format!("{{\"k\":\"agg\",\"ak\":{},\"def\":{},\"variant\":{},\"fields\":[{}],\"ops\":[{}]}}", esc(ak), esc(&def), variant, ns.join(","), opss.join(","))
            }
            other => format!("{{\"k\":\"other\",\"text\":{}}}", esc(&format!("{:?}", other))),
        }
    }

    fn body(&self, did: DefId, out: &mut String) {
        let tcx = self.tcx;
        let body = tcx.optimized_mir(did);
        let env = TypingEnv::post_analysis(tcx, did);
        let (file, line) = self.loc(body.span);
        let dk = tcx.def_kind(did);
        let kind = match dk { DefKind::Fn => "fn", DefKind::AssocFn => "assoc", DefKind::Closure => "closure", _ => "other" };
        let vis = if matches!(dk, DefKind::Fn | DefKind::AssocFn) { format!("{:?}", tcx.visibility(did)) } else { String::new() };
        let mut self_ty = String::new();
        let mut trait_item = String::new();
        if matches!(dk, DefKind::AssocFn) {
            if let Some(ai) = tcx.opt_associated_item(did) {
                if let Some(t) = ai.trait_item_def_id() { trait_item = self.path(t); }
            }
            if let Some(impl_did) = tcx.impl_of_assoc(did) {
                self_ty = self.ty(tcx.type_of(impl_did).instantiate_identity().skip_norm_wip());
            }
        }
        let _ = write!(out, "{{\"path\":{},\"kind\":\"{}\",\"vis\":{},\"self_ty\":{},\"trait_item\":{},\"file\":{},\"line\":{},\"argc\":{},\"exp\":{},",
            esc(&self.path(did)), kind, esc(&vis), esc(&self_ty), esc(&trait_item), esc(&file), line, body.arg_count, body.span.from_expansion());
        // locals
        let mut names: Vec<Option<String>> = vec![None; body.local_decls.len()];
        for vdi in &body.var_debug_info {
            if let rustc_middle::mir::VarDebugInfoContents::Place(p) = &vdi.value {
                if p.projection.is_empty() { names[p.local.as_usize()] = Some(vdi.name.to_string()); }
            }
        }
        out.push_str("\"locals\":[");
        for (i, (l, d)) in body.local_decls.iter_enumerated().enumerate() {
            if i > 0 { out.push(','); }
            let n = names[l.as_usize()].clone().unwrap_or_default();
            let _ = write!(out, "{{\"ty\":{},\"name\":{},\"mut\":{}}}", esc(&self.ty(d.ty)), esc(&n), d.mutability.is_mut());
        }
        out.push_str("],\"blocks\":[");
        for (bi, (_bb, data)) in body.basic_blocks.iter_enumerated().enumerate() {
            if bi > 0 { out.push(','); }
            let _ = write!(out, "{{\"cleanup\":{},\"stmts\":[", data.is_cleanup);
            let mut first = true;
            for st in &data.statements {
                let s = match &st.kind {
                    StatementKind::Assign(b) => {
                        let (p, rv) = &**b;
                        let (_, ln) = self.loc(st.source_info.span);
                        Some(format!("{{\"k\":\"assign\",\"lhs\":{},\"rv\":{},\"line\":{},\"exp\":{}}}", self.place(body, p), self.rvalue(body, env, rv), ln, st.source_info.span.from_expansion()))
                    }
                    StatementKind::SetDiscriminant { place, variant_index } => Some(format!("{{\"k\":\"setdiscr\",\"pl\":{},\"variant\":{}}}", self.place(body, place), variant_index.as_usize())),
                    StatementKind::StorageDead(l) => Some(format!("{{\"k\":\"dead\",\"l\":{}}}", l.as_usize())),
                    _ => None,
                };
                if let Some(s) = s { if !first { out.push(','); } first = false; out.push_str(&s); }
            }
            out.push_str("],\"term\":");
            let term = data.terminator();
            let (_, tl) = self.loc(term.source_info.span);
            let texp = term.source_info.span.from_expansion();
            let unw = |u: &UnwindAction| match u { UnwindAction::Cleanup(b) => format!("{}", b.as_usize()), _ => "null".to_string() };
            match &term.kind {
                TerminatorKind::Goto { target } => { let _ = write!(out, "{{\"k\":\"goto\",\"t\":{},\"line\":{}}}", target.as_usize(), tl); }
                TerminatorKind::SwitchInt { discr, targets } => {
                    let mut ts = vec![];
                    for (v, t) in targets.iter() { ts.push(format!("[{},{}]", v, t.as_usize())); }
                    let _ = write!(out, "{{\"k\":\"switch\",\"op\":{},\"targets\":[{}],\"otherwise\":{},\"line\":{}}}", self.operand(body, env, discr), ts.join(","), targets.otherwise().as_usize(), tl);
                }
                TerminatorKind::Return => { let _ = write!(out, "{{\"k\":\"ret\",\"line\":{}}}", tl); }
                TerminatorKind::Unreachable => out.push_str("{\"k\":\"unreachable\"}"),
                TerminatorKind::UnwindResume => out.push_str("{\"k\":\"resume\"}"),
                TerminatorKind::UnwindTerminate(_) => out.push_str("{\"k\":\"abort\"}"),
                TerminatorKind::Drop { place, target, unwind, .. } => {
                    let _ = write!(out, "{{\"k\":\"drop\",\"pl\":{},\"t\":{},\"unwind\":{},\"line\":{}}}", self.place(body, place), target.as_usize(), unw(unwind), tl);
                }
                TerminatorKind::Call { func, args, destination, target, unwind, .. } => {
                    let mut callee = String::from("null");
                    if let Some((cd, ga)) = func.const_fn_def() {
                        let resolved = match Instance::try_resolve(tcx, env, cd, ga) {
                            Ok(Some(i)) => self.path(i.def_id()),
                            _ => String::new(),
                        };
                        let gas = ty::print::with_no_trimmed_paths!(format!("{:?}", ga));
                        let mut trait_of = String::new();
                        if let Some(t) = tcx.trait_of_assoc(cd) { trait_of = self.path(t); }
                        callee = format!("{{\"path\":{},\"resolved\":{},\"gargs\":{},\"local\":{},\"trait\":{}}}", esc(&self.path(cd)), esc(&resolved), esc(&gas), cd.is_local(), esc(&trait_of));
                    }
                    let a: Vec<String> = args.iter().map(|x| self.operand(body, env, &x.node)).collect();
                    let fnop = self.operand(body, env, func);
                    let _ = write!(out, "{{\"k\":\"call\",\"callee\":{},\"fn\":{},\"args\":[{}],\"dest\":{},\"t\":{},\"unwind\":{},\"line\":{},\"exp\":{}}}",
                        callee, fnop, a.join(","), self.place(body, destination), target.map(|t| format!("{}", t.as_usize())).unwrap_or("null".into()), unw(unwind), tl, texp);
                }
                TerminatorKind::Assert { cond, expected, msg, target, unwind } => {
                    let (mk, binop, ops): (&str, String, Vec<String>) = match &**msg {
                        AssertKind::BoundsCheck { len, index } => ("BoundsCheck", String::new(), vec![self.operand(body, env, len), self.operand(body, env, index)]),
                        AssertKind::Overflow(op, a, b) => ("Overflow", format!("{:?}", op), vec![self.operand(body, env, a), self.operand(body, env, b)]),
                        AssertKind::OverflowNeg(a) => ("OverflowNeg", String::new(), vec![self.operand(body, env, a)]),
                        AssertKind::DivisionByZero(a) => ("DivisionByZero", String::new(), vec![self.operand(body, env, a)]),
                        AssertKind::RemainderByZero(a) => ("RemainderByZero", String::new(), vec![self.operand(body, env, a)]),
                        _ => ("Other", String::new(), vec![]),
                    };
                    let _ = write!(out, "{{\"k\":\"assert\",\"cond\":{},\"expected\":{},\"msg\":\"{}\",\"binop\":{},\"ops\":[{}],\"t\":{},\"unwind\":{},\"line\":{},\"exp\":{}}}",
                        self.operand(body, env, cond), expected, mk, esc(&binop), ops.join(","), target.as_usize(), unw(unwind), tl, texp);
                }
                TerminatorKind::FalseEdge { real_target, .. } => { let _ = write!(out, "{{\"k\":\"goto\",\"t\":{}}}", real_target.as_usize()); }
                TerminatorKind::FalseUnwind { real_target, .. } => { let _ = write!(out, "{{\"k\":\"goto\",\"t\":{}}}", real_target.as_usize()); }
                other => { let _ = write!(out, "{{\"k\":\"other\",\"text\":{}}}", esc(&format!("{:?}", other))); }
            }
            out.push('}');
        }
        out.push_str("],\"promoted\":[");
        let proms = tcx.promoted_mir(did);
        let mut firstp = true;
        for (pi, pb) in proms.iter_enumerated() {
            // a promoted body is usually `_1 = const X; _0 = &_1`; export its assignments
            for (_bb, d) in pb.basic_blocks.iter_enumerated() {
                for st in &d.statements {
                    if let StatementKind::Assign(b) = &st.kind {
                        let (p, rv) = &**b;
                        if !firstp { out.push(','); }
                        firstp = false;
                        let _ = write!(out, "{{\"i\":{},\"lhs\":{},\"rv\":{}}}", pi.as_usize(), self.place(pb, p), self.rvalue(pb, env, rv));
                    }
                }
            }
        }
        out.push_str("]}");
    }
}

struct Cb;
impl rustc_driver::Callbacks for Cb {
    fn after_analysis<'tcx>(&mut self, _c: &rustc_interface::interface::Compiler, tcx: TyCtxt<'tcx>) -> Compilation {
        let outdir = match std::env::var("MIRFACTS_OUT") { Ok(d) => d, Err(_) => return Compilation::Continue };
        let crate_name = tcx.crate_name(LOCAL_CRATE).to_string();
        let cx = Cx { tcx };
        let mut out = String::new();
        let _ = write!(out, "{{\"crate\":{},\"functions\":[", esc(&crate_name));
        let mut n = 0usize;
        for ldid in tcx.mir_keys(()) {
            let did = ldid.to_def_id();
            let dk = tcx.def_kind(did);
            if !matches!(dk, DefKind::Fn | DefKind::AssocFn | DefKind::Closure) { continue; }
            if !tcx.is_mir_available(did) { continue; }
            if n > 0 { out.push(','); }
            n += 1;
            out.push('\n');
            cx.body(did, &mut out);
        }
        out.push_str("],\n\"structs\":[");
        // struct definitions
        let mut first = true;
        for id in tcx.hir_free_items() {
            let did = id.owner_id.to_def_id();
            if matches!(tcx.def_kind(did), DefKind::Struct | DefKind::Enum) {
                let adt = tcx.adt_def(did);
                if !first { out.push(','); }
                first = false;
                let _ = write!(out, "\n{{\"path\":{},\"enum\":{},\"variants\":[", esc(&cx.path(did)), adt.is_enum());
                for (vi, v) in adt.variants().iter().enumerate() {
                    if vi > 0 { out.push(','); }
                    let _ = write!(out, "{{\"name\":{},\"fields\":[", esc(&v.name.to_string()));
                    for (fi, f) in v.fields.iter().enumerate() {
                        if fi > 0 { out.push(','); }
                        let fty = tcx.type_of(f.did).instantiate_identity().skip_norm_wip();
                        let _ = write!(out, "{{\"name\":{},\"ty\":{},\"vis\":{}}}", esc(&f.name.to_string()), esc(&cx.ty(fty)), esc(&format!("{:?}", f.vis)));
                    }
                    out.push_str("]}");
                }
                out.push_str("]}");
            }
        }
        out.push_str("]}\n");
        let kind = if tcx.sess.opts.test { "test" } else { "" };
        let types: Vec<String> = tcx.crate_types().iter().map(|t| format!("{:?}", t)).collect();
        let fname = format!("{}/{}-{}{}-{}.json", outdir, crate_name, types.join("_"), kind, std::process::id());
        std::fs::write(&fname, out).expect("write facts");
        eprintln!("MIRFACTS wrote {} ({} bodies)", fname, n);
        Compilation::Continue
    }
}

fn main() {
    let mut args: Vec<String> = std::env::args().collect();
    if args.len() > 1 { args.remove(1); }
    rustc_driver::run_compiler(&args, &mut Cb);
}
